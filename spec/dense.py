"""Specification of the dense -> sparse conversions (property C05), in the analysed Python subset.

The label frame is an un-interpreted operand: the checker compares the expressions that reach the formatter in the
library with the expressions below, as the engine normalises them (same engine, same operand)."""

import numpy as np


def change_points(y_dense):
    """a changepoint is a position whose segment label differs from the previous position's"""
    is_changepoint = y_dense["labels"].diff().abs() > 0
    return np.flatnonzero(is_changepoint.to_numpy())


def collective_intervals(y_dense):
    """an anomaly is a maximal run of one positive label: [first position, last position + 1)"""
    labels = y_dense["labels"].to_numpy()
    previous_labels = np.concatenate(([0], labels[:-1]))
    next_labels = np.concatenate((labels[1:], [0]))
    starts = np.flatnonzero((labels > 0) & (labels != previous_labels))
    ends = np.flatnonzero((labels > 0) & (labels != next_labels)) + 1
    return starts, ends


def subset_intervals(y_dense):
    """one anomaly per positive label value: rows [first labelled row, last labelled row + 1) and the labelled columns"""
    y_dense = y_dense.reset_index(drop=True)
    y_dense.columns = range(y_dense.columns.size)
    anomaly_intervals = []
    unique_labels = np.unique(y_dense.values)
    for i in unique_labels[unique_labels > 0]:
        anomaly_mask = y_dense == i
        which_columns = anomaly_mask.any(axis=0)
        which_rows = anomaly_mask.any(axis=1)
        anomaly_columns = anomaly_mask.columns[which_columns].to_list()
        anomaly_start = anomaly_mask.index[which_rows][0]
        anomaly_end = anomaly_mask.index[which_rows][-1]
        anomaly_intervals.append((anomaly_start, anomaly_end + 1, anomaly_columns))
    return anomaly_intervals
