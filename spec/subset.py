"""Specification of MVCAPA's subset inference (property C16)."""

import numpy as np


def affected_components(s, alpha, betas):
    """the k >= 1 columns with the largest savings, in order of decreasing saving, where k
    maximises the cumulative saving minus the penalty for k components"""
    order = (-s).argsort()
    penalised = np.cumsum(s[order] - betas) - alpha
    k = np.argmax(penalised) + 1
    return order[:k]
