"""Specification of the default thresholds and penalties (property C15)."""

import numpy as np


def pelt_penalty(n, p, scale):
    return scale * 2 * p * np.log(n)


def seeded_binseg_threshold(n, p, scale):
    return scale * 2 * p * np.sqrt(np.log(n))


def capa_penalty(n, k, scale):
    """scale * (k + 2 sqrt(k log n) + 2 log n), k parameters per segment"""
    return scale * (k + 2 * np.sqrt(k * np.log(n)) + 2 * np.log(n))


def dense_alpha(n, p, k, scale):
    """CAPA's penalty for all p*k parameters"""
    return capa_penalty(n, p * k, scale)


def sparse_alpha(n, p, k, scale):
    return scale * 2 * np.log(n)


def sparse_beta(n, p, k, scale):
    return scale * 2 * np.log(k * p)


def combined_cumulative(dense_a, dense_b, sparse_a, sparse_b, inter_a, inter_b):
    """pointwise minimum of the three cumulative penalties alpha + cumsum(betas)"""
    dense = dense_a + np.cumsum(dense_b)
    sparse = sparse_a + np.cumsum(sparse_b)
    inter = inter_a + np.cumsum(inter_b)
    return np.minimum(dense, np.minimum(sparse, inter))
