"""Specification of the two dynamic programmes (properties C02, C03).

F is the table of optimal values for prefixes, S_prev the admissible starts
carried over from the previous step, t the index of the newest sample (the
prefix considered is X[0:t+1]), m the minimum segment length.
"""

import numpy as np


def pelt_candidates(F, S_prev, t, cost, penalty, m):
    """Optimal partitioning: F[t+1] = min over s of F[s] + C(s, t+1) + penalty, where the
    newest admissible start is t+1-m (both the new segment and ... have >= m samples)."""
    S = np.concatenate((S_prev, np.array([t - m + 1])))
    cuts = np.column_stack((S, np.repeat(t + 1, len(S))))
    return F[S] + np.sum(cost.evaluate(cuts), axis=1) + penalty


def pelt_keep(candidates, F_new, penalty, split_cost):
    """Killick et al. (2012): s can be discarded for ever once
    F[s] + C(s, t+1) + K > F[t+1]; it is kept while <= holds."""
    return candidates - penalty + split_cost <= F_new


def pelt_first_block(cost, m):
    """prefixes of length m .. 2m-1 cannot contain a changepoint: F[T] = C(0, T)"""
    ends = np.arange(m, 2 * m)
    cuts = np.column_stack((np.zeros(m), ends))
    return np.sum(cost.evaluate(cuts), axis=1)


def capa_collective_candidates(F, S_prev, t, saving, alpha, betas, m, penalise):
    """F[s] + penalised saving of the collective anomaly [s, t+1), newest start t+1-m"""
    S = np.concatenate((S_prev, np.array([t]) - m + 1))
    cuts = np.column_stack((S, np.repeat(t + 1, len(S))))
    return F[S] + penalise(saving.evaluate(cuts), alpha, betas)


def capa_point_candidate(F, t, saving, alpha, betas, penalise):
    """F[t] + penalised saving of the point anomaly [t, t+1)"""
    T = np.array([t])
    cuts = np.column_stack((T, T + 1))
    return F[T] + penalise(saving.evaluate(cuts), alpha, betas)


def capa_prune(candidates, F_new, alpha, betas):
    """a start s can be discarded once F[s] + S(s, t+1) + alpha + sum(betas) < F[t+1]"""
    return candidates + alpha + betas.sum() < F_new
