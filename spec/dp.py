"""Specification of the two dynamic programmes (properties C02, C03).

F is the table of optimal values for prefixes, S_prev the admissible starts
carried over from the previous step, t the index of the newest sample (the
prefix considered is X[0:t+1]), m the minimum segment length.
"""

import numpy as np


def pelt_candidates(F, S_prev, t, cost, penalty, m):
    """Optimal partitioning: F[t+1] = min over s of F[s] + C(s, t+1) + penalty, where the
    newest admissible start is t+1-m (both the new segment and ... have >= m samples)."""
    S = np.concatenate((S_prev, np.array([t - m + 1])))
    cuts = np.column_stack((S, np.repeat(t + 1, len(S))))
    return F[S] + np.sum(cost.evaluate(cuts), axis=1) + penalty


def pelt_keep(candidates, F_new, penalty, split_cost):
    """Killick et al. (2012): s can be discarded for ever once
    F[s] + C(s, t+1) + K > F[t+1]; it is kept while <= holds."""
    return candidates - penalty + split_cost <= F_new


def pelt_first_block(cost, m):
    """prefixes of length m .. 2m-1 cannot contain a changepoint: F[T] = C(0, T)"""
    ends = np.arange(m, 2 * m)
    cuts = np.column_stack((np.zeros(m), ends))
    return np.sum(cost.evaluate(cuts), axis=1)


def penalise(savings, alpha, betas):
    """the penalised saving of each candidate row (defined by penalised_saving_row; kept
    uninterpreted in the recursion)"""
    return savings


def capa_collective_candidates(F, S_prev, t, saving, alpha, betas, m):
    """F[s] + penalised saving of the collective anomaly [s, t+1), newest start t+1-m"""
    S = np.concatenate((S_prev, np.array([t]) - m + 1))
    cuts = np.column_stack((S, np.repeat(t + 1, len(S))))
    return F[S] + penalise(saving.evaluate(cuts), alpha, betas)


def capa_point_candidate(F, t, saving, alpha, betas):
    """F[t] + penalised saving of the point anomaly [t, t+1)"""
    T = np.array([t])
    cuts = np.column_stack((T, T + 1))
    return F[T] + penalise(saving.evaluate(cuts), alpha, betas)


def capa_prune(candidates, F_new, alpha, betas):
    """a start s can be discarded once F[s] + S(s, t+1) + alpha + sum(betas) < F[t+1]"""
    return candidates + alpha + betas.sum() < F_new


def penalised_saving_row(s, alpha, betas):
    """best over k >= 1 of the k largest savings minus their k per-component penalties,
    minus the constant penalty (charged once)"""
    order = (-s).argsort()
    v = np.cumsum(s[order] - betas) - alpha
    return v[np.argmax(v)]


def penalised_saving_dense(savings, alpha):
    """all per-component penalties are zero and savings are non-negative: every component
    is included"""
    return savings.sum(axis=1) - alpha


def penalised_saving_const(savings, alpha, beta):
    """all per-component penalties equal beta: a component is included iff its saving
    exceeds beta (equal to the definition whenever the value is >= -alpha)"""
    return np.maximum(savings - beta, 0.0).sum(axis=1) - alpha
