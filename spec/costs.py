"""Specification of the built-in costs (property C01), written in the analysed
subset and normalised by the same engine.

PS1 / PS2 are the zero-initialised column prefix sums of X and X**2 (rule
PREFIX-BUILDER establishes what the builder computes), so
seg_sum(PS, s, e) is the column sum of rows s..e-1.
"""

import numpy as np


def seg_sum(PS, lo, hi):
    return PS[hi] - PS[lo]


def l2_optim(PS1, PS2, s, e):
    """residual sum of squares around the segment mean"""
    S1 = seg_sum(PS1, s, e)
    S2 = seg_sum(PS2, s, e)
    N = e - s
    return S2 - S1**2 / N


def l2_fixed(PS1, PS2, s, e, mu):
    """residual sum of squares around the fixed mean mu"""
    S1 = seg_sum(PS1, s, e)
    S2 = seg_sum(PS2, s, e)
    N = e - s
    return S2 - 2 * mu * S1 + N * mu**2


def gaussian_var_optim(PS1, PS2, s, e):
    """twice the negative Gaussian log-likelihood at the MLE, variance floored at 1e-16"""
    S1 = seg_sum(PS1, s, e)
    S2 = seg_sum(PS2, s, e)
    N = e - s
    var = np.maximum(S2 / N - (S1 / N) ** 2, 1e-16)
    return N * np.log(2 * np.pi * var) + N


def gaussian_var_fixed(PS1, PS2, s, e, mu, var):
    """twice the negative Gaussian log-likelihood at the fixed (mu, var)"""
    S1 = seg_sum(PS1, s, e)
    S2 = seg_sum(PS2, s, e)
    N = e - s
    return N * np.log(2 * np.pi * var) + (S2 - 2 * mu * S1 + N * mu**2) / var


def gaussian_cov_optim(X, s, e, p):
    """twice the negative multivariate Gaussian log-likelihood at the MLE"""
    N = e - s
    sign, logdet = np.linalg.slogdet(np.cov(X[s:e], rowvar=False, ddof=0))
    return N * p * np.log(2 * np.pi) + N * logdet + p * N


def gaussian_cov_fixed(X, s, e, p, mu, cov):
    """twice the negative multivariate Gaussian log-likelihood at the fixed (mu, cov)"""
    N = e - s
    sign, logdet = np.linalg.slogdet(cov)
    centred = X[s:e] - mu
    quad = np.sum(np.sum(centred @ np.linalg.inv(cov) * centred, axis=1))
    return N * p * np.log(2 * np.pi) + N * logdet + quad
