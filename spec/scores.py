"""Specification of the scores derived from costs and of the directly
implemented scores (property C06).  C(i, j) stands for cost.evaluate on the
interval [i, j) of the data the cost was fitted on."""

import numpy as np


def seg_sum(PS, lo, hi):
    return PS[hi] - PS[lo]


def change_score(C_full, C_left, C_right):
    """C(s, e) - C(s, k) - C(k, e)"""
    return C_full - C_left - C_right


def saving(C_baseline, C_optimal):
    """cost at the fixed baseline parameter minus cost at the optimal parameter"""
    return C_baseline - C_optimal


def local_anomaly_score(C_outer, C_inner, C_surrounding):
    """C(s, e) - C(a, b) - C(rows of [s, a) and [b, e) pooled)"""
    return C_outer - C_inner - C_surrounding


def cusum(PS, s, k, e):
    """| sqrt(A / (N B)) * S_before - sqrt(B / (N A)) * S_after |"""
    B = k - s
    A = e - k
    N = e - s
    S_before = seg_sum(PS, s, k)
    S_after = seg_sum(PS, k, e)
    return np.abs(np.sqrt(A / (N * B)) * S_before - np.sqrt(B / (N * A)) * S_after)


def l2_saving(PS, s, e):
    """(sum of the segment)**2 / length"""
    S1 = seg_sum(PS, s, e)
    N = e - s
    return S1**2 / N
