"""Symbolic executor over the Python subset used by skchange (E3 driver).

The executor interprets function bodies on symbolic values (values.py): numbers
and arrays are abstracted elementwise by a rational normal form (nf.py) plus a
symbolic shape.  Branches on symbolic conditions are explored path by path with
a decision oracle (re-execution, no heap copying).  Loops whose trip count is
symbolic are executed once as a *generic iteration* with havocked loop-carried
state; all effects are recorded as events that the rules inspect.

Nothing from /repo is imported or run: this is abstract interpretation of the
syntax tree.
"""

from __future__ import annotations

import ast
from dataclasses import dataclass, field
from fractions import Fraction

from .index import ClassInfo, FuncInfo, ModuleInfo, Program
from .nf import NF, Atom, Undecided, app, atoms_of, lift, nf_equal, subst, sym
from .values import (
    NONE,
    ArrObj,
    BoundExt,
    ClassV,
    ClosureV,
    Cond,
    DictV,
    ExtV,
    FuncV,
    ListV,
    ModV,
    NoneV,
    Num,
    ObjV,
    OpaqueV,
    RangeV,
    SliceV,
    StrV,
    TupleV,
    Val,
    valkey,
)


def _walk_own(fnode):
    """the nodes of a function body, not descending into nested functions / lambdas / classes"""
    stack = list(fnode.body)
    while stack:
        n = stack.pop()
        yield n
        for ch in ast.iter_child_nodes(n):
            if not isinstance(ch, (ast.FunctionDef, ast.AsyncFunctionDef, ast.Lambda, ast.ClassDef)):
                stack.append(ch)


class ReturnSignal(Exception):
    def __init__(self, val):
        self.val = val


class RaiseSignal(Exception):
    def __init__(self, exc_name, exc_val, node, func):
        self.exc_name = exc_name
        self.exc_val = exc_val
        self.node = node
        self.func = func


class BreakSignal(Exception):
    pass


class BodySignal(Exception):
    """a return / break / continue of the body of a `with` statement, on its way out through the frames of a
    generator-based context manager (which must run its `finally` but must not take the signal for its own)"""

    def __init__(self, inner):
        self.inner = inner


class ContinueSignal(Exception):
    pass


@dataclass
class LoopCtx:
    lid: str
    kind: str
    node: ast.AST
    func: FuncInfo
    var: Val | None = None
    info: dict = field(default_factory=dict)

    def __repr__(self):
        return f"<loop {self.lid}>"


@dataclass
class Event:
    kind: str
    node: ast.AST
    func: FuncInfo | None
    loops: tuple
    facts: tuple
    data: dict

    def loc(self):
        if self.func is not None:
            return self.func.loc(self.node)
        return f"?:{getattr(self.node, 'lineno', 0)}"

    def __repr__(self):
        return f"<{self.kind} @{self.loc()} {self.data}>"


@dataclass
class Path:
    outcome: str  # 'return' | 'raise'
    value: Val | None
    exc: RaiseSignal | None
    events: list
    facts: list
    trace: list
    heap: dict


class Frame:
    def __init__(self, func: FuncInfo | None, module: ModuleInfo, env=None, parent=None):
        self.func = func
        self.module = module
        self.env = env if env is not None else {}
        self.parent = parent  # enclosing frame for closures
        self.loop_counter = 0

    def lookup(self, name):
        f = self
        while f is not None:
            if name in f.env:
                return f.env[name]
            f = f.parent
        return None


class Oracle:
    def __init__(self, prefix):
        self.prefix = list(prefix)
        self.trace = []

    def decide(self):
        i = len(self.trace)
        v = self.prefix[i] if i < len(self.prefix) else True
        self.trace.append(v)
        return v


BUILTIN_NAMES = {
    "len", "range", "enumerate", "zip", "int", "float", "bool", "min", "max", "abs", "sum",
    "any", "all", "sorted", "list", "tuple", "isinstance", "callable", "print", "str", "repr",
    "type", "reversed", "round", "map", "dict", "set", "getattr", "hasattr", "super", "id",
    "ValueError", "TypeError", "RuntimeError", "NotImplementedError", "IndexError", "KeyError",
    "AttributeError", "Exception", "AssertionError", "ZeroDivisionError", "StopIteration",
    "slice", "iter", "next", "divmod", "pow", "issubclass", "object", "property", "staticmethod",
    "classmethod", "NotImplemented", "Ellipsis", "frozenset", "bytes", "complex", "format",
}


class Executor:
    def __init__(self, program: Program, summaries=None, max_depth=14, max_paths=64, unroll_limit=12):
        self.P = program
        self.summaries = {"skchange.utils.numba.soft_import.prange": _prange_summary}
        self.summaries.update(summaries or {})
        # a summary registered under `module.name` also applies when the definition lives elsewhere and is imported there
        for k, h in list(self.summaries.items()):
            if isinstance(k, str) and not k.startswith("abstract:"):
                f = program.functions.get(k)
                if f is not None and f.qualname != k:
                    self.summaries.setdefault(f.qualname, h)
        self.max_depth = max_depth
        self.max_paths = max_paths
        self.unroll_limit = unroll_limit
        self.atom_shapes = {}  # atom.key -> shape
        self.atom_meta = {}
        self.max_depth_seen = 0
        self.calls_inlined = 0
        self.functions_seen = set()
        self._reset()
        from . import models  # noqa: F401  (registers library models)

        self.models = models

    # ------------------------------------------------------------- run state
    def _reset(self):
        self.events = []
        self.facts = []
        self.established = []  # conditions a summarised validator guarantees on its returning path (per path)
        self.loops = []
        self.depth = 0
        self.arr_counter = 0
        self.list_counter = 0
        self.obj_counter = 0
        self.fresh_counter = 0
        self.oracle = Oracle([])
        self.arrays = {}
        self.frames = []

    def run_paths(self, thunk):
        """thunk(executor) -> Val ; explores all decision sequences."""
        results = []
        stack = [[]]
        while stack:
            if len(results) >= self.max_paths:
                raise Undecided(f"more than {self.max_paths} paths")
            prefix = stack.pop()
            self._reset()
            self.oracle = Oracle(prefix)
            try:
                try:
                    v = thunk(self)
                except Undecided as u:
                    # keep what was observed before the analysis left its fragment
                    u.partial_events = list(self.events)
                    u.partial_paths = list(results)
                    raise
                p = Path("return", v, None, self.events, list(self.facts), list(self.oracle.trace), dict(self.arrays))
            except ReturnSignal as r:
                p = Path("return", r.val, None, self.events, list(self.facts), list(self.oracle.trace), dict(self.arrays))
            except RaiseSignal as r:
                p = Path("raise", None, r, self.events, list(self.facts), list(self.oracle.trace), dict(self.arrays))
            results.append(p)
            tr = p.trace
            for i in range(len(prefix), len(tr)):
                if tr[i] is True:
                    stack.append(tr[:i] + [False])
        return results

    # --------------------------------------------------------------- helpers
    def emit(self, kind, node, **data):
        f = self.frames[-1].func if self.frames else None
        ev = Event(kind, node, f, tuple(self.loops), tuple(self.facts), data)
        self.events.append(ev)
        return ev

    def fresh(self, tag):
        self.fresh_counter += 1
        return f"{tag}${self.fresh_counter}"

    def new_array(self, init, shape, dtype, node):
        self.arr_counter += 1
        f = self.frames[-1].func if self.frames else None
        a = ArrObj(self.arr_counter, init, shape, dtype, node, f)
        self.arrays[a.aid] = a
        self.emit("alloc", node, arr=a)
        return a

    def arr_value(self, a: ArrObj) -> Num:
        """Current value view of an allocated array."""
        return Num(self.arr_nf(a), a.shape, a.dtype, "ndarray", arr=a)

    def arr_init_nf(self, a: ArrObj):
        if a.init[0] == "zeros":
            return NF.const(0)
        if a.init[0] in ("fill", "copy"):
            return a.init[1]
        if a.init[0] == "concat":
            return getattr(a, "value_nf", None)
        return None

    def arr_nf(self, a: ArrObj) -> NF:
        if not a.stores and a.epoch == 0:
            r = self.arr_init_nf(a)
            if r is not None:
                return r
        if a.stores:
            r = self.clamp_idiom(a)
            if r is not None:
                return r
        return NF.atom(self.arr_atom(a))

    def clamp_idiom(self, a: ArrObj):
        """x[x < b] = b  (whole array, or column by column over all columns) == max(x, b)."""
        from .nf import nf_max, single_atom

        base = self.arr_init_nf(a)
        if base is None or a.init[0] != "copy":
            return None
        bound = None
        for ev in a.stores:
            idx, val = ev.data["index"], ev.data["value"]
            if ev.data.get("aug") or idx is None or not isinstance(val, Num) or val.cond is not None:
                return None
            if val.shape not in ((), None) and val.shape != ():
                return None
            mask = idx[0]
            if not isinstance(mask, Num) or mask.cond is None or mask.cond.t[0] != "cmp":
                return None
            op, d = mask.cond.t[1], mask.cond.t[2]
            if op not in ("<0", "<=0"):
                return None
            if len(idx) == 1:
                target = base
            elif len(idx) == 2 and isinstance(idx[1], Num):
                # column j of the array, inside a loop over all its columns
                if not ev.loops:
                    return None
                ctx = ev.loops[-1]
                rng = ctx.info.get("range")
                ncols = a.shape[1] if a.shape is not None and len(a.shape) == 2 else None
                lv = single_atom(idx[1].nf)
                if rng is None or ncols is None or lv is None or lv.kind != "lv" or lv.args[0] != ctx.lid:
                    return None
                if not (rng[0].as_const() == 0 and nf_equal(rng[1], lift(ncols)) and rng[2].as_const() == 1):
                    return None
                target = app("col", base, idx[1].nf)
            else:
                return None
            # mask: target - val < 0
            if not nf_equal(d, target - val.nf):
                return None
            if bound is not None and not nf_equal(bound, val.nf):
                return None
            bound = val.nf
        if bound is None:
            return None
        r = nf_max(base, bound)
        self.register_atom(r, a.shape)
        return r

    def arr_atom(self, a: ArrObj) -> Atom:
        at = Atom("arr", a.aid, a.epoch, len(a.stores))
        self.atom_shapes[at.key] = a.shape
        self.atom_meta[at.key] = {"arr": a}
        return at

    def register_atom(self, nf: NF, shape):
        from .nf import single_atom

        a = single_atom(nf)
        if a is not None:
            self.atom_shapes.setdefault(a.key, shape)
        return nf

    def set_meta(self, nf, **kw):
        from .nf import single_atom

        a = single_atom(nf)
        if a is not None:
            self.atom_meta.setdefault(a.key, {}).update(kw)

    def get_meta(self, nf_or_atom):
        from .nf import single_atom

        a = nf_or_atom if isinstance(nf_or_atom, Atom) else single_atom(nf_or_atom)
        return self.atom_meta.get(a.key, {}) if a is not None else {}

    def mk(self, fname, *args, shape=(), dtype=None, pytype=None) -> Num:
        """Opaque application value with registered shape."""
        nf = app(fname, *args)
        self.register_atom(nf, shape)
        return Num(nf, shape, dtype, pytype)

    def _entailed(self, cond: Cond) -> bool:
        """the affine facts of the path (branches taken, facts a summarised validator established) imply the condition"""
        from .affine import entails, facts_of_path, from_cond

        goal = from_cond(cond, True)
        if not goal:
            return False
        known = facts_of_path(list(self.facts) + [(c_, True) for c_ in getattr(self, "established", [])])
        try:
            return all(entails(known, g) for g in goal)
        except Exception:
            return False

    def decide(self, cond: Cond, node) -> bool:
        if cond.is_const():
            return cond.value()
        for c in getattr(self, "established", []):
            if c.key == cond.key:
                return True
            if c.key == cond.neg().key:
                return False
        # consult facts of the current path
        for c, v in self.facts:
            if c.key == cond.key:
                return v
            if c.key == cond.neg().key:
                return not v
        # a conjunction with complementary conjuncts (or one already refuted on this path) is false, a disjunction with
        # complementary disjuncts (or one already established) is true: no infeasible path is opened for it
        if cond.t[0] in ("and", "or"):
            kind = cond.t[0]
            parts, todo = [], [cond]
            while todo:
                c = todo.pop()
                if c.t[0] == kind:
                    todo.extend([c.t[2], c.t[1]])
                else:
                    parts.append(c)
            keys = {c.key for c in parts}
            if any(c.neg().key in keys for c in parts):
                return kind == "or"
            known = {c.key: v for c, v in self.facts}
            for c in parts:
                v = known.get(c.key)
                if v is None and c.neg().key in known:
                    v = not known[c.neg().key]
                if v is not None and v == (kind == "or"):
                    return kind == "or"
        v = self.oracle.decide()
        self.facts.append((cond, v))
        self.emit("decide", node, cond=cond, taken=v)
        return v

    # ---------------------------------------------------------- truthiness
    def truth(self, v: Val, node) -> Cond:
        if isinstance(v, Num):
            if v.cond is not None:
                return v.cond
            c = v.nf.as_const()
            if c is not None:
                return Cond.const(c != 0)
            return Cond.cmp("!=", v.nf, NF.const(0))
        if isinstance(v, NoneV):
            return Cond.const(False)
        if isinstance(v, StrV):
            if v.s is not None:
                return Cond.const(bool(v.s))
            return Cond("opq", "truth:" + v.key)
        if isinstance(v, (TupleV,)):
            return Cond.const(bool(v.items))
        if isinstance(v, ListV):
            if not v.opaque:
                return Cond.const(bool(v.items))
            return Cond("opq", f"nonempty:list#{v.lid}")
        if isinstance(v, ObjV) and v.abstract:
            # an arbitrary user-defined object (scorer, detector): its class may define __bool__ / __len__ (a table cost
            # of length 0 before fit), so its truth value is not known - `x or default` is not `default if x is None`
            self.emit("object_truth", node, obj=v)
            return Cond("opq", f"truth:{v.key}")
        if isinstance(v, (ObjV, FuncV, ClassV, ExtV, ClosureV)):
            return Cond.const(True)
        if isinstance(v, OpaqueV):
            return Cond("opq", "truth:" + v.key)
        raise Undecided(f"truth value of {v!r}", node)

    # ------------------------------------------------------------ functions
    def call_function(self, func: FuncInfo, args, kwargs, self_obj=None, node=None):
        if func.qualname in self.summaries:
            r = self.summaries[func.qualname](self, func, args, kwargs, self_obj, node)
            if r is not NotImplemented:
                return r
        if self.depth >= self.max_depth:
            raise Undecided(f"inlining depth {self.max_depth} exceeded at {func.qualname}", node)
        frame = Frame(func, func.module)
        self.bind_args(frame, func.node, args, kwargs, self_obj, func, node)
        self.depth += 1
        self.max_depth_seen = max(self.max_depth_seen, self.depth)
        self.calls_inlined += 1
        self.functions_seen.add(func.qualname)
        self.frames.append(frame)
        saved_loops = self.loops
        # a generator function (other than a context manager being entered by `with`): its yields are collected, in
        # order, into the list that iterating over the call produces - laziness changes WHEN an element is computed, not
        # what the consumer sees (the analysed generators have no side effects between yields that a consumer reads)
        hooks = self.__dict__.get("yield_hooks") or []
        is_gen = any(isinstance(n_, (ast.Yield, ast.YieldFrom)) for n_ in _walk_own(func.node)) and not (hooks and hooks[-1][0] is func and not getattr(hooks[-1][1], "_entered", False))
        if is_gen and not (hooks and hooks[-1][0] is func):
            self.list_counter += 1
            frame.env["$yield"] = ListV([], lid=self.list_counter)
        try:
            self.exec_block(func.node.body, frame)
            return frame.env.get("$yield", NONE)
        except ReturnSignal as r:
            return frame.env["$yield"] if "$yield" in frame.env else r.val
        finally:
            self.loops = saved_loops
            self.frames.pop()
            self.depth -= 1

    def bind_args(self, frame, fnode, args, kwargs, self_obj, func, node):
        a = fnode.args
        params = [x.arg for x in a.posonlyargs + a.args]
        args = list(args)
        if self_obj is not None:
            args = [self_obj] + args
        defaults = a.defaults
        ndef = len(defaults)
        env = frame.env
        if len(args) > len(params):
            if a.vararg is None:
                raise Undecided(f"too many positional arguments for {getattr(func, 'qualname', '?')}", node)
            env[a.vararg.arg] = TupleV(args[len(params):])
            args = args[: len(params)]
        elif a.vararg is not None:
            env[a.vararg.arg] = TupleV([])
        for i, p in enumerate(params):
            if i < len(args):
                env[p] = args[i]
            elif p in kwargs:
                env[p] = kwargs.pop(p)
            else:
                di = i - (len(params) - ndef)
                if di >= 0:
                    env[p] = self.eval_default(defaults[di], frame)
                else:
                    raise Undecided(f"missing argument {p} for {getattr(func, 'qualname', '?')}", node)
        for i, ko in enumerate(a.kwonlyargs):
            if ko.arg in kwargs:
                env[ko.arg] = kwargs.pop(ko.arg)
            elif a.kw_defaults[i] is not None:
                env[ko.arg] = self.eval_default(a.kw_defaults[i], frame)
            else:
                raise Undecided(f"missing keyword argument {ko.arg}", node)
        if kwargs:
            # keyword that matched a positional already bound, or unknown
            for k in list(kwargs):
                if k in params and params.index(k) < len(args):
                    raise Undecided(f"argument {k} given twice for {getattr(func, 'qualname', '?')}", node)
            if a.kwarg is not None:
                env[a.kwarg.arg] = DictV([(StrV(k), v) for k, v in kwargs.items()])
            else:
                raise Undecided(f"unexpected keyword argument(s) {sorted(kwargs)} for {getattr(func, 'qualname', '?')}", node)
        elif a.kwarg is not None:
            env[a.kwarg.arg] = DictV([])

    def eval_default(self, e, frame):
        f2 = Frame(frame.func, frame.module, {}, None)
        self.frames.append(f2)
        try:
            return self.ev(e, f2)
        finally:
            self.frames.pop()

    # -------------------------------------------------------------- objects
    def _dataclass_fields(self, cls: ClassInfo):
        """[(field, default expr | None)] for a class decorated with @dataclass that defines no __init__ of its own"""
        decos = [ast.unparse(d).split("(")[0].split(".")[-1] for d in getattr(cls.node, "decorator_list", [])]
        if "dataclass" not in decos or "__init__" in cls.methods:
            return None
        return [(st.target.id, st.value) for st in cls.node.body if isinstance(st, ast.AnnAssign) and isinstance(st.target, ast.Name)]

    def new_object(self, cls: ClassInfo, args, kwargs, node=None, key=None):
        dc = self._dataclass_fields(cls)
        if dc is not None and cls.qualname not in self.summaries:
            # the generated __init__ of a dataclass stores its arguments under the field names, in field order
            if len(args) > len(dc) or any(k not in {n for n, _ in dc} for k in kwargs):
                raise Undecided(f"arguments of dataclass {cls.name} do not match its fields", node)
            self.obj_counter += 1
            obj = ObjV(cls, key or f"{cls.name}#{self.obj_counter}")
            for k, (name, dflt) in enumerate(dc):
                if k < len(args):
                    obj.fields[name] = args[k]
                elif name in kwargs:
                    obj.fields[name] = kwargs[name]
                elif dflt is not None:
                    f2 = Frame(None, cls.module, {})
                    self.frames.append(f2)
                    try:
                        obj.fields[name] = self.ev(dflt, f2)
                    finally:
                        self.frames.pop()
                else:
                    raise Undecided(f"field {name} of dataclass {cls.name} not given", node)
            self.emit("new", node, obj=obj)
            return obj
        if cls.qualname in self.summaries:
            r = self.summaries[cls.qualname](self, cls, args, kwargs, None, node)
            if r is not NotImplemented:
                return r
        self.obj_counter += 1
        obj = ObjV(cls, key or f"{cls.name}#{self.obj_counter}")
        init = self.P.lookup_method(cls, "__init__")
        if init is not None:
            self.call_function(init, list(args), dict(kwargs), self_obj=obj, node=node)
        self.emit("new", node, obj=obj)
        return obj

    # -------------------------------------------------------------- records
    def _record_fields(self, cls: ClassInfo):
        """[(field name, default expr | None)] for a typing.NamedTuple class (a tuple with named positions), else None"""
        bases = [b if isinstance(b, str) else getattr(b, "qualname", "") for b in cls.bases]
        if not any(str(b).endswith("NamedTuple") for b in bases):
            return None
        out = []
        for st in cls.node.body:
            if isinstance(st, ast.AnnAssign) and isinstance(st.target, ast.Name):
                out.append((st.target.id, st.value))
        return out

    def _new_record(self, cls, fields, args, kwargs, node, frame):
        """a NamedTuple instance is a tuple: positional unpacking / indexing work as for any tuple, the field names are
        aliases of the positions"""
        if len(args) > len(fields) or any(k not in {n for n, _ in fields} for k in kwargs):
            raise Undecided(f"arguments of record {cls.name} do not match its fields", node)
        items = []
        for k, (name, dflt) in enumerate(fields):
            if k < len(args):
                items.append(args[k])
            elif name in kwargs:
                items.append(kwargs[name])
            elif dflt is not None:
                f2 = Frame(None, cls.module, {})
                self.frames.append(f2)
                try:
                    items.append(self.ev(dflt, f2))
                finally:
                    self.frames.pop()
            else:
                raise Undecided(f"field {name} of record {cls.name} not given", node)
        t = TupleV(items)
        t.names = [n for n, _ in fields]
        t.record = cls
        return t

    # ----------------------------------------------------------- statements
    def exec_block(self, stmts, frame):
        i = 0
        while i < len(stmts):
            st = stmts[i]
            if i + 1 < len(stmts):
                comp = self._append_loop_as_comprehension(st, stmts[i + 1])
                if comp is not None:
                    # `v = []; for t in it: [if c:] v.append(e)` is the list comprehension `v = [e for t in it if c]`
                    # (one canonical form for both spellings; the loop variable's leak is not used by the analysed code)
                    self.exec_stmt(comp, frame)
                    i += 2
                    continue
            if i + 1 < len(stmts):
                clamp = self._clamp_returns_as_extremum(st, stmts[i + 1])
                if clamp is not None:
                    # `if x < c: return c` followed by `return x` is `return max(x, c)` (one canonical form; numerically
                    # the same value - which of two EQUAL operands is handed back is not observable in a normal form)
                    self.exec_stmt(clamp, frame)
                    i += 2
                    continue
            self.exec_stmt(st, frame)
            i += 1

    @staticmethod
    def _clamp_returns_as_extremum(guard, ret):
        if not (isinstance(guard, ast.If) and not guard.orelse and len(guard.body) == 1 and isinstance(guard.body[0], ast.Return) and guard.body[0].value is not None):
            return None
        if not (isinstance(ret, ast.Return) and ret.value is not None):
            return None
        t = guard.test
        if not (isinstance(t, ast.Compare) and len(t.ops) == 1 and isinstance(t.ops[0], (ast.Lt, ast.LtE, ast.Gt, ast.GtE))):
            return None
        a, b = ast.unparse(t.left), ast.unparse(t.comparators[0])
        early, late = ast.unparse(guard.body[0].value), ast.unparse(ret.value)
        less = isinstance(t.ops[0], (ast.Lt, ast.LtE))
        fn = None
        # if a < b: return b ; return a   -> max(a, b)        if a > b: return b ; return a   -> min(a, b)
        if early == b and late == a:
            fn = "max" if less else "min"
        # if a < b: return a ; return b   -> min(a, b)        if a > b: return a ; return b   -> max(a, b)
        elif early == a and late == b:
            fn = "min" if less else "max"
        if fn is None:
            return None
        if not (isinstance(t.left, (ast.Name, ast.Constant, ast.Attribute)) and isinstance(t.comparators[0], (ast.Name, ast.Constant, ast.Attribute))):
            return None  # operands with calls could have effects that the rewriting would duplicate
        new = ast.Return(value=ast.Call(func=ast.Name(id=fn, ctx=ast.Load()), args=[t.left, t.comparators[0]], keywords=[]))
        ast.copy_location(new, ret)
        ast.fix_missing_locations(new)
        return new

    @staticmethod
    def _append_loop_as_comprehension(init, loop):
        if not (isinstance(init, ast.Assign) and len(init.targets) == 1 and isinstance(init.targets[0], ast.Name) and isinstance(init.value, ast.List) and not init.value.elts):
            return None
        if not isinstance(loop, ast.For) or loop.orelse:
            return None
        name = init.targets[0].id
        body, conds = loop.body, []
        while len(body) == 1 and isinstance(body[0], ast.If) and not body[0].orelse:
            conds.append(body[0].test)
            body = body[0].body
        if len(body) != 1 or not isinstance(body[0], ast.Expr) or not isinstance(body[0].value, ast.Call):
            return None
        call = body[0].value
        if not (isinstance(call.func, ast.Attribute) and call.func.attr == "append" and isinstance(call.func.value, ast.Name) and call.func.value.id == name and len(call.args) == 1 and not call.keywords):
            return None
        mentioned = {n.id for part in [call.args[0], loop.iter, loop.target] + conds for n in ast.walk(part) if isinstance(n, ast.Name)}
        if name in mentioned:
            return None
        comp = ast.ListComp(elt=call.args[0], generators=[ast.comprehension(target=loop.target, iter=loop.iter, ifs=conds, is_async=0)])
        new = ast.Assign(targets=[ast.Name(id=name, ctx=ast.Store())], value=comp)
        ast.copy_location(new, loop)
        ast.copy_location(comp, loop)
        ast.fix_missing_locations(new)
        return new

    def exec_stmt(self, st, frame):
        m = getattr(self, "st_" + type(st).__name__, None)
        if m is None:
            raise Undecided(f"statement {type(st).__name__} not supported", st)
        return m(st, frame)

    def st_Expr(self, st, frame):
        if isinstance(st.value, ast.Constant):
            return  # docstring / ellipsis
        self.ev(st.value, frame)

    def st_Pass(self, st, frame):
        pass

    def st_Import(self, st, frame):
        for a in st.names:
            local = a.asname or a.name.split(".")[0]
            target = a.name if a.asname else a.name.split(".")[0]
            frame.env[local] = ModV(target) if target in self.P.modules else ExtV(target)

    def st_ImportFrom(self, st, frame):
        base = st.module or ""
        if st.level:
            raise Undecided("relative import inside a function", st)
        for a in st.names:
            r = self.P.resolve_attr_of_module(base, a.name)
            frame.env[a.asname or a.name] = self.ref_to_val(r, a.name, st)

    def st_Return(self, st, frame):
        v = self.ev(st.value, frame) if st.value is not None else NONE
        self.emit("return", st, value=v)
        raise ReturnSignal(v)

    def st_Raise(self, st, frame):
        name = "?"
        val = None
        if st.exc is not None:
            e = st.exc
            if isinstance(e, ast.Call):
                name = ast.unparse(e.func)
                # evaluate the message arguments: an error while building the
                # message is an error of the analysed program (C14.b)
                try:
                    val = [self.ev(a, frame) for a in e.args]
                except Undecided:
                    val = None
            else:
                name = ast.unparse(e)
        self.emit("raise", st, exc=name, args=val)
        raise RaiseSignal(name, val, st, frame.func)

    def st_Assert(self, st, frame):
        c = self.truth(self.ev(st.test, frame), st)
        if not c.is_const() and self._entailed(c):
            return  # the assertion re-states what the path has already established (a guard passed, a validated length)
        if not self.decide(c, st):
            self.emit("raise", st, exc="AssertionError", args=None)
            raise RaiseSignal("AssertionError", None, st, frame.func)

    def st_Assign(self, st, frame):
        v = self.ev(st.value, frame)
        for t in st.targets:
            self.assign(t, v, frame, st)

    def st_AnnAssign(self, st, frame):
        if st.value is None:
            return
        v = self.ev(st.value, frame)
        self.assign(st.target, v, frame, st)

    def st_AugAssign(self, st, frame):
        cur = self.ev(_load(st.target), frame)
        rhs = self.ev(st.value, frame)
        if isinstance(cur, ListV) and isinstance(st.op, ast.Add):
            # list += list mutates in place
            self.list_extend(cur, rhs, st)
            return
        if isinstance(cur, Num) and cur.arr is None and isinstance(st.target, ast.Name) and isinstance(cur.meta.get("index_of"), Num) and cur.meta.get("index") is not None:
            # `view = a[lo:hi]; view op= e` on a basic-indexing view of an array the analysed code allocated: numpy updates
            # the rows of `a` in place - the same store as `a[lo:hi] op= e` - and the name stays bound to the view
            base, idx = cur.meta["index_of"], cur.meta["index"]
            root = base
            while root.arr is None and isinstance(root.meta.get("alias_of"), Num):
                root = root.meta["alias_of"]
            basic = all(isinstance(c, SliceV) or (isinstance(c, Num) and c.shape == () and c.cond is None and c.dtype != "bool") for c in idx)
            if basic and root.arr is not None:
                fresh = self.index_num(base, idx, st)
                v = self.binop(st.op, fresh, rhs, st)
                self.store_sub(base, idx, v, st, frame, aug=True)
                if isinstance(v, Num):
                    v = Num(v.nf, v.shape, v.dtype, v.pytype, cond=v.cond, meta=dict(v.meta, index_of=base, index=idx))
                frame.env[st.target.id] = v
                return
        v = self.binop(st.op, cur, rhs, st)
        if isinstance(cur, Num) and cur.arr is not None and isinstance(st.target, ast.Name):
            # in-place update of a whole allocated array
            self.store_array(cur.arr, None, v, st, frame, aug=True)
            return
        if isinstance(cur, Num) and cur.shape != () and cur.pytype in ("ndarray", "frame", "series") and isinstance(st.target, ast.Name):
            # numpy/pandas augmented assignment mutates the object in place: every alias
            # (a view of an argument or of a fitted field) sees the change
            if self.is_foreign(cur):
                self.emit("store_foreign", st, target=cur, root=cur, index=None, value=v, aug=True)
            self.emit("inplace_aug", st, target=cur, value=v)
        self.emit("augassign", st, target=ast.unparse(st.target), cur=cur, value=v)
        self.assign(st.target, v, frame, st, aug=True)

    def assign(self, t, v, frame, st, aug=False):
        if isinstance(t, ast.Name):
            frame.env[t.id] = v
        elif isinstance(t, (ast.Tuple, ast.List)):
            items = self.unpack(v, len(t.elts), st)
            for el, it in zip(t.elts, items):
                self.assign(el, it, frame, st)
        elif isinstance(t, ast.Attribute):
            base = self.ev(t.value, frame)
            if isinstance(base, ObjV):
                base.fields[t.attr] = v
                self.emit("attr_store", st, obj=base, attr=t.attr, value=v)
            elif isinstance(base, (Num, OpaqueV)):
                self.emit("ext_attr_store", st, recv=base, attr=t.attr, value=v)
            else:
                raise Undecided(f"attribute store on {base!r}", st)
        elif isinstance(t, ast.Subscript):
            base = self.ev(t.value, frame)
            idx = self.ev_index(t.slice, frame)
            self.store_sub(base, idx, v, st, frame, aug)
        elif isinstance(t, ast.Starred):
            raise Undecided("starred assignment", st)
        else:
            raise Undecided(f"assignment target {type(t).__name__}", st)

    def unpack(self, v, n, node):
        if isinstance(v, (TupleV, ListV)) and not getattr(v, "opaque", False):
            if len(v.items) != n:
                raise Undecided(f"cannot unpack {len(v.items)} values into {n}", node)
            return v.items
        if isinstance(v, Num):
            # unpack rows/entries of an array: element i
            if v.shape is not None and len(v.shape) >= 1:
                c = v.shape[0].as_const()
                if c is not None and c != n:
                    raise Undecided(f"cannot unpack array of length {c} into {n}", node)
            out = []
            for i in range(n):
                out.append(self.index_num(v, [Num(NF.const(i), (), "int")], node))
            return out
        if isinstance(v, OpaqueV):
            if v.meta.get("kind") == "rawshape" and n >= 2:
                # `n, p = X.shape` on the un-normalised argument: a 1-D array / a Series has one dimension only
                self.emit("raw_use", node, what=f"unpacking .shape into {n} names (a univariate series or 1-D array has one dimension only)", value=v.meta.get("of"))
            return [OpaqueV(f"{v.key}[{i}]") for i in range(n)]
        if isinstance(v, ListV) and v.opaque:
            return [self.list_elem(v, node) for _ in range(n)]
        raise Undecided(f"cannot unpack {v!r}", node)

    def store_sub(self, base, idx, v, st, frame, aug=False):
        if isinstance(base, Num) and base.arr is not None:
            self.store_array(base.arr, idx, v, st, frame, aug, view=base)
        elif isinstance(base, Num):
            root = base
            while isinstance(root.meta.get("alias_of"), Num) or isinstance(root.meta.get("reshaped_from"), Num):
                root = root.meta.get("alias_of") if isinstance(root.meta.get("alias_of"), Num) else root.meta.get("reshaped_from")
            if root.arr is not None:
                if getattr(root.arr, "foreign_root", False):
                    # a foreign array that an earlier store already materialised: still not the analysed code's own
                    self.emit("store_foreign", st, target=base, root=root, index=idx, value=v, aug=aug)
                self.store_array(root.arr, idx, v, st, frame, aug, view=base)
                return
            foreign = self.is_foreign(root)
            if foreign:
                # store into an array the analysed code did not allocate (argument / fitted field)
                self.emit("store_foreign", st, target=base, root=root, index=idx, value=v, aug=aug)
            # materialise the temporary as a mutable array (shared by reference)
            self.arr_counter += 1
            a = ArrObj(self.arr_counter, ("copy", root.nf), root.shape, root.dtype, st, frame.func)
            a.materialised = True
            a.foreign_root = foreign
            self.arrays[a.aid] = a
            root.arr = a
            if base is not root:
                base.arr = a
            self.store_array(a, idx, v, st, frame, aug, view=base)
        elif isinstance(base, ListV):
            if not base.opaque and len(idx) == 1 and isinstance(idx[0], Num):
                c = idx[0].nf.as_const()
                if c is not None and -len(base.items) <= c < len(base.items):
                    base.items[int(c)] = v
                    self.emit("list_store", st, lst=base, index=idx, value=v)
                    return
            self.emit("list_store", st, lst=base, index=idx, value=v)
            base.opaque = True
        elif isinstance(base, DictV):
            base.items.append((idx[0], v))
        elif isinstance(base, BoundExt) or isinstance(base, OpaqueV):
            self.emit("store_opaque", st, target=base, index=idx, value=v, aug=aug)
        else:
            raise Undecided(f"subscript store on {base!r}", st)

    def is_foreign(self, v: Num) -> bool:
        from .nf import atoms_of

        if v.meta.get("foreign"):
            return True
        if v.meta.get("fresh"):
            return False  # result of an arithmetic operation: a new array
        if v.nf is None:
            return False
        a = None
        from .nf import single_atom

        a = single_atom(v.nf)
        if a is None:
            return False
        if a.kind == "sym":
            return True
        if a.kind == "app" and a.args[0] in ("idx", "col", "colslice", "T", "rowslice"):
            inner = a.args[1]
            if a.args[0] == "idx":
                # basic indexing (slices / scalars) gives a view, fancy indexing a copy
                parts = a.args[2]
                if any(isinstance(p, tuple) and p[0] in ("gather", "mask", "gatherlist", "gatherlist?") for p in parts):
                    return False
            if isinstance(inner, NF):
                return self.is_foreign(Num(inner, None))
        return False

    def store_array(self, a: ArrObj, idx, v, st, frame, aug=False, view=None):
        ev = self.emit("store", st, arr=a, index=idx, value=v, aug=aug, view=view, epoch=a.epoch)
        a.stores.append(ev)

    def decide_test(self, test, frame, node) -> bool:
        """Decide a branch test.  A syntactic `not X` is decided through X, so that `if not X: B else: A` leaves the same
        facts on its paths as `if X: A else: B` (rules read facts in the orientation of the un-negated source test)."""
        if isinstance(test, ast.UnaryOp) and isinstance(test.op, ast.Not):
            return not self.decide_test(test.operand, frame, node)
        c = self.truth(self.ev(test, frame), node)
        return self.decide(c, node)

    def st_If(self, st, frame):
        if self.decide_test(st.test, frame, st):
            self.exec_block(st.body, frame)
        else:
            self.exec_block(st.orelse, frame)

    def st_FunctionDef(self, st, frame):
        frame.env[st.name] = ClosureV(st, frame, frame.func, st.name)

    def st_Break(self, st, frame):
        raise BreakSignal()

    def st_Continue(self, st, frame):
        raise ContinueSignal()

    _EXC_PARENTS = {
        "KeyError": "LookupError", "IndexError": "LookupError", "ZeroDivisionError": "ArithmeticError", "OverflowError": "ArithmeticError",
        "FloatingPointError": "ArithmeticError", "NotImplementedError": "RuntimeError", "RecursionError": "RuntimeError",
        "ModuleNotFoundError": "ImportError", "FileNotFoundError": "OSError", "LinAlgError": "ValueError", "UnicodeError": "ValueError",
    }

    def _handler_names(self, h):
        if h.type is None:
            return None  # bare except: everything
        ts = h.type.elts if isinstance(h.type, ast.Tuple) else [h.type]
        return {ast.unparse(t).split(".")[-1] for t in ts}

    def _handler_for(self, st, exc_name):
        nm = (exc_name or "?").split(".")[-1]
        chain = [nm]
        while chain[-1] in self._EXC_PARENTS:
            chain.append(self._EXC_PARENTS[chain[-1]])
        chain += ["Exception", "BaseException"]
        for h in st.handlers:
            names = self._handler_names(h)
            if names is None or names & set(chain):
                return h
        return None

    def _run_handler(self, h, frame, exc_name):
        self.emit("except", h, exc=exc_name)
        if h.name:
            frame.env[h.name] = OpaqueV(f"exc({exc_name})", {"kind": "exception", "exc": exc_name})
        self.exec_block(h.body, frame)

    def st_Try(self, st, frame):
        """try / except / else / finally.  Explicit raises (of the analysed code, through any depth of calls) are matched
        against the handlers by name and the small built-in hierarchy above.  Library calls can raise too, which the
        engine does not model call by call: when the body completes and there are handlers, one further path per handler
        is explored in which that handler runs after the body's effects (an over-approximation of 'some call in the
        body raised').  `finally` runs on every way out that the engine models (fall-through, return, raise, break,
        continue)."""
        def final():
            if st.finalbody:
                self.exec_block(st.finalbody, frame)

        try:
            try:
                self.exec_block(st.body, frame)
            except RaiseSignal as r:
                h = self._handler_for(st, r.exc_name)
                if h is None:
                    raise
                self._run_handler(h, frame, r.exc_name)
            else:
                taken = None
                for k, h in enumerate(st.handlers):
                    names = self._handler_names(h)
                    label = "|".join(sorted(names)) if names else "any"
                    c = Cond("opq", f"library-raise({label})@{frame.func.qualname if frame.func else '?'}:try{getattr(st, 'lineno', 0)}.{k}")
                    if self.decide(c, st):
                        taken = h
                        break
                if taken is not None:
                    self._run_handler(taken, frame, "|".join(sorted(self._handler_names(taken) or {"Exception"})))
                else:
                    self.exec_block(st.orelse, frame)
        except (ReturnSignal, RaiseSignal, BreakSignal, ContinueSignal, BodySignal):
            final()
            raise
        final()

    def st_With(self, st, frame):
        """with E [as v]: body.  Context managers of the library (np.errstate, warnings.catch_warnings, nullcontext, open
        locks, ...) do not change values: the context expression is evaluated (its calls are recorded like any other),
        the optional target is bound to an opaque handle, and the body runs in the same frame.  A context manager that
        is an object of the analysed code is not modelled."""
        self._with_items(st, frame, 0)

    def _contextmanager_call(self, e, frame):
        """(FuncInfo, args, kwargs, self_obj) if `e` calls a generator function of the analysed code decorated with
        contextlib.contextmanager, else None"""
        if not isinstance(e, ast.Call):
            return None
        try:
            fv = self.ev(e.func, frame)
        except Undecided:
            return None
        if not isinstance(fv, FuncV) or not any(d.split(".")[-1] == "contextmanager" for d in fv.func.decorators):
            return None
        if not any(isinstance(n, (ast.Yield, ast.YieldFrom)) for n in ast.walk(fv.func.node)):
            return None
        args = [self.ev(a, frame) for a in e.args]
        kwargs = {k.arg: self.ev(k.value, frame) for k in e.keywords if k.arg is not None}
        return fv.func, args, kwargs, fv.self_obj

    def _with_items(self, st, frame, k):
        if k == len(st.items):
            return self.exec_block(st.body, frame)
        it = st.items[k]
        gen = self._contextmanager_call(it.context_expr, frame)
        if gen is None:
            v = self.ev(it.context_expr, frame)
            if isinstance(v, ObjV) and not v.abstract:
                raise Undecided("with statement over an object of the analysed code", st)
            self.emit("with_enter", st, ctx=v)
            if it.optional_vars is not None:
                self.assign(it.optional_vars, v if isinstance(v, (OpaqueV, Num)) else OpaqueV(f"ctx({valkey(v)})"), frame, st)
            return self._with_items(st, frame, k + 1)
        # a @contextmanager generator of the analysed code: its body runs up to the yield, then the with-body, then the
        # rest of the generator (its finally included) - the with-body is executed from inside the yield expression
        func, args, kwargs, so = gen
        state = {"ran": False}

        def hook(value):
            if state["ran"]:
                raise Undecided("a context manager yields twice", st)
            state["ran"] = True
            if it.optional_vars is not None:
                self.assign(it.optional_vars, value, frame, st)
            try:
                self._with_items(st, frame, k + 1)
            except (ReturnSignal, BreakSignal, ContinueSignal) as sig:
                raise BodySignal(sig)

        hooks = self.__dict__.setdefault("yield_hooks", [])
        hooks.append((func, hook))
        try:
            self.call_function(func, args, kwargs, so, st)
        except BodySignal as b:
            raise b.inner
        finally:
            hooks.pop()
        if not state["ran"]:
            raise Undecided("a context manager returns without yielding", st)

    def ex_Yield(self, e, frame):
        hooks = self.__dict__.get("yield_hooks") or []
        if "$yield" in frame.env and not (hooks and frame.func is hooks[-1][0]):
            v = self.ev(e.value, frame) if e.value is not None else NONE
            self.models.list_method(self, frame.env["$yield"], "append", [v], {}, e)
            return NONE
        if not hooks or frame.func is not hooks[-1][0]:
            raise Undecided("expression Yield not supported", e)
        v = self.ev(e.value, frame) if e.value is not None else NONE
        hooks[-1][1](v)
        return NONE

    def st_Delete(self, st, frame):
        for t in st.targets:
            if isinstance(t, ast.Name):
                frame.env.pop(t.id, None)

    def st_Global(self, st, frame):
        raise Undecided("global statement", st)

    def st_Nonlocal(self, st, frame):
        raise Undecided("nonlocal statement", st)

    # ---------------------------------------------------------------- loops
    def loop_id(self, st, frame):
        frame.loop_counter += 1
        fn = frame.func.qualname if frame.func else "?"
        # ordinal of this loop statement inside its function (stable under reformatting)
        k = 0
        if frame.func is not None:
            for n in ast.walk(frame.func.node):
                if isinstance(n, (ast.For, ast.While)):
                    k += 1
                    if n is st or n is getattr(st, "_orig", None):
                        break
        return f"{fn}#loop{k}"

    def st_For(self, st, frame):
        it = self.ev(st.iter, frame)
        items = self.concrete_items(it)
        if items is not None and len(items) <= self.unroll_limit and not st.orelse:
            for x in items:
                self.assign(st.target, x, frame, st)
                try:
                    self.exec_block(st.body, frame)
                except BreakSignal:
                    break
                except ContinueSignal:
                    continue
            return
        if st.orelse:
            raise Undecided("for-else", st)
        lid = self.loop_id(st, frame)
        ctx = LoopCtx(lid, "for", st, frame.func)
        elem = self.generic_element(it, ctx, st)
        ctx.var = elem
        ctx.info["iter"] = it
        self.generic_iteration(st, frame, ctx, lambda: self.assign(st.target, elem, frame, st))

    def _canon_while(self, st, frame):
        """Two spellings of loops are reduced to the canonical ones before they are interpreted:
        `while True: if T: break; REST`  ->  `while not T: REST`;
        `while i < B: BODY; i += c` (counter i not otherwise assigned, no break / continue of this loop in BODY, B not
        assigned in BODY, i not read after the loop)  ->  `for i in range(i, B, c): BODY`."""
        cache = self.__dict__.setdefault("_while_canon", {})
        if id(st) in cache:
            return cache[id(st)]
        out = st
        if isinstance(st.test, ast.Constant) and st.test.value is True and st.body and isinstance(st.body[0], ast.If) and not st.body[0].orelse and len(st.body[0].body) == 1 and isinstance(st.body[0].body[0], ast.Break) and len(st.body) > 1:
            t = st.body[0].test
            neg = t.operand if isinstance(t, ast.UnaryOp) and isinstance(t.op, ast.Not) else ast.UnaryOp(op=ast.Not(), operand=t)
            out = ast.While(test=neg, body=st.body[1:], orelse=[])
            ast.copy_location(out, st)
            ast.fix_missing_locations(out)
            out._orig = st
        elif isinstance(st.test, ast.Constant) and st.test.value is True and len(st.body) > 2:
            # `while True: a = PURE; ...; if T(a): break; REST`  ->  `while not T(PURE): a = PURE; ...; REST`
            # (the test sits in the middle of the body behind pure single assignments to fresh locals that are not
            # read after the loop; the assigned expressions are substituted into the test)
            out = self._canon_mid_test(st, frame) or st
        w = out

        def own_jumps(stmts):
            for x in stmts:
                if isinstance(x, (ast.Break, ast.Continue)):
                    return True
                if isinstance(x, (ast.For, ast.While, ast.FunctionDef, ast.AsyncFunctionDef, ast.ClassDef)):
                    continue
                for f in ("body", "orelse", "finalbody"):
                    if own_jumps(getattr(x, f, []) or []):
                        return True
                for h in getattr(x, "handlers", []) or []:
                    if own_jumps(h.body):
                        return True
            return False

        t = w.test
        if isinstance(t, ast.Compare) and len(t.ops) == 1 and isinstance(t.ops[0], (ast.Lt, ast.LtE)) and isinstance(t.left, ast.Name) and len(w.body) >= 2:
            i = t.left.id
            # the increment: a top-level `i += c` of the body; the counter is not read after it inside the body (so it
            # may as well be the last statement) and no break / continue of this loop comes before it
            incs = [k for k, x in enumerate(w.body) if isinstance(x, ast.AugAssign) and isinstance(x.target, ast.Name) and x.target.id == i]
            last = w.body[incs[0]] if len(incs) == 1 else None
            if last is not None and isinstance(last.op, ast.Add) and isinstance(last.value, ast.Constant) and isinstance(last.value.value, int) and last.value.value >= 1:
                k_inc = incs[0]
                body = w.body[:k_inc] + w.body[k_inc + 1:]
                names, mutated = self.assigned_names(body)
                bound_names = {n.id for n in ast.walk(t.comparators[0]) if isinstance(n, ast.Name)}
                read_later_in_body = any(isinstance(n, ast.Name) and n.id == i and isinstance(n.ctx, ast.Load) for x in w.body[k_inc + 1:] for n in ast.walk(x))
                jumps_before = own_jumps(w.body[:k_inc])
                # after the loop the counter differs (B vs. the last element): it must not be read before it is re-assigned
                read_after = False
                fn = frame.func.node if frame.func is not None else None
                end = getattr(st, "end_lineno", None)
                if fn is not None and end is not None:
                    later = sorted((n for n in ast.walk(fn) if isinstance(n, ast.Name) and n.id == i and getattr(n, "lineno", 0) > end), key=lambda n: (n.lineno, n.col_offset))
                    if later:
                        first_line = later[0].lineno
                        on_line = [n for n in later if n.lineno == first_line]
                        read_after = any(isinstance(n.ctx, ast.Load) for n in on_line) or not any(isinstance(n.ctx, ast.Store) for n in on_line)
                if i not in names and not (bound_names & (names | mutated)) and not jumps_before and not read_later_in_body and not read_after:
                    hi = t.comparators[0] if isinstance(t.ops[0], ast.Lt) else ast.BinOp(left=t.comparators[0], op=ast.Add(), right=ast.Constant(value=1))
                    rng = ast.Call(func=ast.Name(id="range", ctx=ast.Load()), args=[ast.Name(id=i, ctx=ast.Load()), hi] + ([ast.Constant(value=last.value.value)] if last.value.value != 1 else []), keywords=[])
                    out = ast.For(target=ast.Name(id=i, ctx=ast.Store()), iter=rng, body=body, orelse=[])
                    ast.copy_location(out, st)
                    ast.fix_missing_locations(out)
                    out._orig = st
        cache[id(st)] = out
        return out

    _PURE_METHODS = {"argmax", "argmin", "max", "min", "sum", "any", "all", "mean", "copy", "item"}
    _PURE_BUILTINS = {"len", "max", "min", "int", "float", "abs", "bool"}

    def _pure_expr(self, e):
        for n in ast.walk(e):
            if isinstance(n, (ast.NamedExpr, ast.Await, ast.Yield, ast.YieldFrom, ast.Lambda, ast.ListComp, ast.SetComp, ast.DictComp, ast.GeneratorExp, ast.Starred)):
                return False
            if isinstance(n, ast.Call):
                f = n.func
                if isinstance(f, ast.Name):
                    if f.id not in self._PURE_BUILTINS:
                        return False
                elif isinstance(f, ast.Attribute):
                    if isinstance(f.value, ast.Name) and f.value.id in ("np", "numpy"):
                        if f.attr not in ("argmax", "argmin", "max", "min", "amax", "amin", "any", "all", "sum", "nanmax", "nanargmax"):
                            return False
                    elif f.attr not in self._PURE_METHODS:
                        return False
                else:
                    return False
                if any(k.arg == "out" for k in n.keywords):
                    return False
        return True

    def _canon_mid_test(self, st, frame):
        k = None
        for j, x in enumerate(st.body):
            if isinstance(x, ast.If) and not x.orelse and len(x.body) == 1 and isinstance(x.body[0], ast.Break):
                k = j
                break
            if not (isinstance(x, ast.Assign) and len(x.targets) == 1 and isinstance(x.targets[0], ast.Name) and self._pure_expr(x.value)):
                return None
        if k is None or k == 0 or k == len(st.body) - 1:
            return None
        pre = st.body[:k]
        names = [x.targets[0].id for x in pre]
        if len(set(names)) != len(names):
            return None
        # the prefix runs once more in the original (in the iteration that breaks): its names must be dead after the loop
        # and must not be read by the prefix itself before they are assigned (no loop-carried use)
        fn = frame.func.node if frame.func is not None else None
        end = getattr(st, "end_lineno", None)
        if fn is None or end is None:
            return None
        for n in ast.walk(fn):
            if isinstance(n, ast.Name) and n.id in names and isinstance(n.ctx, ast.Load) and getattr(n, "lineno", 0) > end:
                return None
        seen = set()
        for x in pre:
            if any(isinstance(n, ast.Name) and n.id in names and n.id not in seen for n in ast.walk(x.value)):
                return None
            seen.add(x.targets[0].id)
        # the rest of the body must not assign the names again before the next test (they would still be fresh: the
        # prefix re-assigns them) - nothing to check; substitute the prefix into the test
        import copy

        env = {}

        class Sub(ast.NodeTransformer):
            def visit_Name(self_, n):
                if isinstance(n.ctx, ast.Load) and n.id in env:
                    return copy.deepcopy(env[n.id])
                return n

        for x in pre:
            env[x.targets[0].id] = Sub().visit(copy.deepcopy(x.value))
        t = Sub().visit(copy.deepcopy(st.body[k].test))
        neg = t.operand if isinstance(t, ast.UnaryOp) and isinstance(t.op, ast.Not) else ast.UnaryOp(op=ast.Not(), operand=t)
        out = ast.While(test=neg, body=pre + st.body[k + 1:], orelse=[])
        ast.copy_location(out, st)
        ast.fix_missing_locations(out)
        out._orig = st
        return out

    def st_While(self, st, frame):
        if st.orelse:
            raise Undecided("while-else", st)
        canon = self._canon_while(st, frame)
        if isinstance(canon, ast.For):
            return self.st_For(canon, frame)
        st = canon
        lid = self.loop_id(st, frame)
        ctx = LoopCtx(lid, "while", st, frame.func)

        def head():
            c = self.truth(self.ev(st.test, frame), st)
            ctx.info["cond"] = c
            self.emit("loop_cond", st, cond=c, loop=ctx)

        self.generic_iteration(st, frame, ctx, head)

    def assigned_names(self, body):
        names = set()
        mutated = set()
        for n in _walk_stmts(body):
            if isinstance(n, (ast.Assign, ast.AugAssign, ast.AnnAssign)):
                targets = n.targets if isinstance(n, ast.Assign) else [n.target]
                for t in targets:
                    for x in ast.walk(t):
                        if isinstance(x, ast.Name) and isinstance(x.ctx, ast.Store):
                            names.add(x.id)
                    if isinstance(t, (ast.Subscript, ast.Attribute)):
                        b = t
                        while isinstance(b, (ast.Subscript, ast.Attribute)):
                            b = b.value
                        if isinstance(b, ast.Name):
                            mutated.add(b.id)
            elif isinstance(n, (ast.For,)):
                for x in ast.walk(n.target):
                    if isinstance(x, ast.Name):
                        names.add(x.id)
            elif isinstance(n, ast.Expr) and isinstance(n.value, ast.Call):
                f = n.value.func
                if isinstance(f, ast.Attribute) and isinstance(f.value, ast.Name):
                    if f.attr in ("append", "pop", "extend", "sort", "insert", "remove", "clear", "fill", "reverse"):
                        mutated.add(f.value.id)
            for x in ast.walk(n) if isinstance(n, ast.stmt) else ():
                if isinstance(x, ast.Call) and isinstance(x.func, ast.Attribute) and isinstance(x.func.value, ast.Name):
                    if x.func.attr in ("append", "pop", "extend", "sort", "insert", "remove", "clear", "fill", "reverse"):
                        mutated.add(x.func.value.id)
                if isinstance(x, ast.NamedExpr) and isinstance(x.target, ast.Name):
                    names.add(x.target.id)
        return names, mutated

    def generic_iteration(self, st, frame, ctx: LoopCtx, head):
        names, mutated = self.assigned_names(st.body)
        if "$yield" in frame.env and any(isinstance(n_, (ast.Yield, ast.YieldFrom)) for x_ in st.body for n_ in ast.walk(x_)):
            mutated = set(mutated) | {"$yield"}  # the list of yielded values grows in the loop
        carried = [n for n in sorted(names) if frame.lookup(n) is not None]
        ctx.info["carried"] = carried
        ctx.info["assigned"] = sorted(names)
        ctx.info["mutated"] = sorted(mutated)
        pre = {n: frame.lookup(n) for n in carried}
        ctx.info["pre"] = pre
        self.emit("loop_enter", st, loop=ctx, pre=dict(pre))
        # havoc loop-carried state: it now stands for "the value at the start of
        # an arbitrary iteration"
        for n in carried:
            frame.env[n] = self.havoc(pre[n], ctx, n, "in", st)
        touched = set()
        for n in sorted(mutated):
            v = frame.lookup(n)
            self.bump(v, ctx, st, touched)
        # arrays reachable from any variable may be mutated by the body through
        # aliases: bump every array stored to in the body after the fact (below).
        self.loops = self.loops + [ctx]
        n_events = len(self.events)
        body_env_before = dict(frame.env)
        try:
            head()
            try:
                self.exec_block(st.body, frame)
                ctx.info["exit"] = "fallthrough"
            except ContinueSignal:
                ctx.info["exit"] = "continue"
            except BreakSignal:
                ctx.info["exit"] = "break"
        finally:
            self.loops = self.loops[:-1]
        ctx.info["body_env"] = {n: frame.env.get(n) for n in names}
        ctx.info["events"] = self.events[n_events:]
        self.emit("loop_exit", st, loop=ctx, post={n: frame.env.get(n) for n in names})
        # after the loop: unknown number of iterations has happened
        for n in sorted(names):
            cur = frame.env.get(n)
            ref = pre.get(n, cur)
            if ref is None:
                continue
            frame.env[n] = self.havoc(ref if n in pre else cur, ctx, n, "out", st)
        for ev in ctx.info["events"]:
            if ev.kind == "store":
                a = ev.data["arr"]
                if id(a) not in touched:
                    touched.add(id(a))
                a.epoch += 1
        for n in sorted(mutated):
            v = frame.lookup(n)
            self.bump(v, ctx, st, set())

    def bump(self, v, ctx, st, touched):
        if isinstance(v, Num) and v.arr is not None:
            if id(v.arr) not in touched:
                touched.add(id(v.arr))
                v.arr.epoch += 1
        elif isinstance(v, ListV):
            if not v.opaque:
                v.meta_pre = list(v.items)
            v.opaque = True

    def havoc(self, v, ctx: LoopCtx, name, phase, st):
        tag = f"{ctx.lid}.{name}.{phase}"
        if isinstance(v, Num):
            if v.arr is not None:
                return v  # identity kept; contents tracked by epoch
            shape = v.shape
            if shape is not None and len(shape) >= 1:
                # array whose length may change between iterations
                shape = tuple([sym(f"len({tag})")] + list(shape[1:]))
            nf = NF.atom(Atom("lc", tag))
            self.atom_shapes[Atom("lc", tag).key] = shape
            self.atom_meta[Atom("lc", tag).key] = {"loop": ctx, "name": name, "phase": phase, "pre": v}
            return Num(nf, shape, v.dtype, v.pytype, meta={"lc": tag})
        if isinstance(v, ListV):
            v.opaque = True
            return v
        if isinstance(v, TupleV):
            return TupleV([self.havoc(x, ctx, f"{name}.{i}", phase, st) for i, x in enumerate(v.items)])
        if isinstance(v, NoneV):
            return OpaqueV(tag, {"maybe_none": True})
        if isinstance(v, (ObjV, FuncV, ClassV, ExtV, ClosureV, StrV, OpaqueV, RangeV, DictV, BoundExt, SliceV)):
            return v
        return OpaqueV(tag)

    def concrete_items(self, it):
        if isinstance(it, (TupleV,)):
            return list(it.items)
        if isinstance(it, ListV) and not it.opaque:
            return list(it.items)
        if isinstance(it, RangeV):
            lo, hi, step = (x.nf.as_const() for x in (it.lo, it.hi, it.step))
            if lo is not None and hi is not None and step is not None and step != 0:
                vals = list(range(int(lo), int(hi), int(step)))
                if len(vals) <= self.unroll_limit:
                    return [Num(NF.const(i), (), "int") for i in vals]
        if isinstance(it, DictV):
            if getattr(it, "opaque", False):
                return None
            return [k for k, _ in it.items]
        if getattr(self, "unroll_zip", False) and isinstance(it, OpaqueV) and it.meta.get("kind") == "zip":
            # zip stops at its shortest part: with a part of known length m the loop runs at most m times.  The
            # symbolic parts are assumed at least that long (event zip_unroll records them so a rule can demand
            # the path facts entail it).
            parts = it.meta["parts"]
            lens = [len(q.items) for q in parts if isinstance(q, TupleV) or (isinstance(q, ListV) and not q.opaque)]
            if lens and min(lens) <= self.unroll_limit:
                m = min(lens)
                self.emit("zip_unroll", None, parts=parts, length=m)
                out = []
                for k in range(m):
                    idx = Num(NF.const(k), (), "int")
                    out.append(TupleV([self._elem_at(q, idx, None, None) for q in parts]))
                return out
        return None

    def generic_element(self, it, ctx: LoopCtx, node):
        tag = ctx.lid
        if isinstance(it, RangeV):
            nf = NF.atom(Atom("lv", tag))
            ctx.info["range"] = (it.lo.nf, it.hi.nf, it.step.nf)
            self.atom_shapes[Atom("lv", tag).key] = ()
            return Num(nf, (), "int", meta={"loopvar": ctx})
        if isinstance(it, Num):
            if it.shape is None or len(it.shape) == 0:
                raise Undecided("iteration over a value of unknown shape", node)
            elem = self.index_num(it, [Num(NF.atom(Atom("lv", tag)), (), "int", meta={"loopvar": ctx})], node)
            ctx.info["over"] = it
            ctx.info["range"] = (NF.const(0), it.shape[0], NF.const(1))
            self.atom_shapes[Atom("lv", tag).key] = ()
            return elem
        if isinstance(it, ListV):
            ctx.info["over"] = it
            comp = getattr(it, "comp", None)
            if comp is not None and not comp["conds"] and getattr(it, "version", 0) == 0 and comp.get("ctx") is not None:
                # the list an unfiltered comprehension built, iterated in order: element k is the comprehension's element
                # for ITS k-th item - the comprehension's position variable becomes this loop's
                lvc = Atom("lv", comp["ctx"].lid)
                lvl = NF.atom(Atom("lv", tag))
                self.atom_shapes[Atom("lv", tag).key] = ()

                def rebase(v):
                    if isinstance(v, Num) and v.nf is not None and lvc.key in atoms_of(v.nf, deep=True):
                        return Num(subst(v.nf, {lvc.key: lvl}), v.shape, v.dtype, v.pytype, meta=dict(v.meta))
                    if isinstance(v, TupleV):
                        t = TupleV([rebase(x) for x in v.items])
                        for a_ in ("names", "record"):
                            if hasattr(v, a_):
                                setattr(t, a_, getattr(v, a_))
                        return t
                    return v

                el = comp["elem"]
                if isinstance(el, (Num, TupleV)):
                    src_rng = comp["ctx"].info.get("range")
                    if src_rng is not None:
                        ctx.info["range"] = src_rng
                    ctx.info["comp_of"] = comp
                    return rebase(el)
            return self.list_elem(it, node)
        if isinstance(it, OpaqueV) and it.meta.get("kind") in ("enumerate", "zip"):
            idx = Num(NF.atom(Atom("lv", tag)), (), "int", meta={"loopvar": ctx})
            self.atom_shapes[Atom("lv", tag).key] = ()
            ctx.info["over"] = it
            rng = self._seq_len(it)
            if rng is not None:
                ctx.info["range"] = (NF.const(0), rng, NF.const(1))
            return self._elem_at(it, idx, ctx, node)
        if isinstance(it, OpaqueV):
            ctx.info["over"] = it
            return OpaqueV(f"elem({it.key})", {"elem_of": it})
        if isinstance(it, BoundExt) or isinstance(it, DictV):
            return OpaqueV(f"elem({valkey(it)})")
        raise Undecided(f"iteration over {it!r}", node)

    def _at(self, v, pos):
        if isinstance(v, Num):
            m = {}
            for k, a in atoms_of(v.nf).items():
                if k in self.elem_atoms:
                    m[k] = app("at", NF.atom(a), pos)
            return Num(subst(v.nf, m), v.shape, v.dtype, v.pytype) if m else v
        if isinstance(v, TupleV):
            return TupleV([self._at(x, pos) for x in v.items])
        return v

    def _list_len_nf(self, l):
        """length of a list value as a normal form (None if unknown): concrete lists, opaque lists, and slices
        L[a:], L[:-b], L[a:-b] of them with constant a >= 0, b >= 0"""
        if isinstance(l, TupleV) or (isinstance(l, ListV) and not l.opaque):
            return NF.const(len(l.items))
        if not isinstance(l, ListV):
            return None
        so = getattr(l, "slice_of", None)
        if so is not None:
            base, sl = so
            n = self._list_len_nf(base)
            if n is None or not isinstance(sl.step, NoneV):
                return None
            lo = 0 if isinstance(sl.lo, NoneV) else (sl.lo.nf.as_const() if isinstance(sl.lo, Num) else None)
            hi = 0 if isinstance(sl.hi, NoneV) else (sl.hi.nf.as_const() if isinstance(sl.hi, Num) else None)
            if lo is None or hi is None or lo < 0 or hi > 0:
                return None
            return n - lo + hi  # hi <= 0 counts elements dropped at the end (assumes the list is at least that long)
        if getattr(l, "parts", None) is not None and getattr(self, "exact_list_len", False):
            # a concatenation a + b + c bound to a NEW name: its length is the sum of the parts' lengths (scenarios that ask
            # for exact list lengths)
            from .models import exact_list_len

            r = exact_list_len(self, l)
            if r is not None:
                return r
        return app("listlen", l.lid, getattr(l, "version", 0))

    def _seq_len(self, p):
        if isinstance(p, (ListV, TupleV)):
            return self._list_len_nf(p)
        if isinstance(p, Num) and p.shape is not None and len(p.shape) >= 1:
            return lift(p.shape[0])
        if isinstance(p, RangeV):
            return p.hi.nf - p.lo.nf if p.step.nf.as_const() == 1 else app("rangelen", p.lo.nf, p.hi.nf, p.step.nf)
        if isinstance(p, OpaqueV) and p.meta.get("kind") in ("enumerate", "zip"):
            for q in p.meta["parts"]:
                r = self._seq_len(q)
                if r is not None:
                    return r
        return None

    def _elem_at(self, p, idx: Num, ctx, node):
        """element number idx of an iterable (shared position variable for zip/enumerate)"""
        if isinstance(p, RangeV):
            return Num(p.lo.nf + idx.nf * p.step.nf, (), "int")
        if isinstance(p, Num):
            return self.index_num(p, [idx], node)
        if isinstance(p, TupleV) or (isinstance(p, ListV) and not p.opaque):
            c = idx.nf.as_const()
            if c is not None and 0 <= c < len(p.items):
                return p.items[int(c)]
        if isinstance(p, ListV):
            so = getattr(p, "slice_of", None)
            if p.opaque and so is not None and isinstance(so[0], ListV) and isinstance(so[1].lo, (Num, NoneV)) and (isinstance(so[1].step, NoneV)):
                base, sl = so
                lo = NF.const(0) if isinstance(sl.lo, NoneV) else sl.lo.nf
                if (getattr(base, "numeric", False) or getattr(base, "parts", None) is not None) and lo.as_const() is not None and lo.as_const() >= 0:
                    return Num(app("listitem", base.lid, lo + idx.nf), (), None, meta={"list_item": (base, idx)})
            if p.opaque and (getattr(p, "numeric", False) or getattr(p, "parts", None) is not None) and p.elem is None:
                return Num(app("listitem", p.lid, idx.nf), (), None, meta={"list_item": (p, idx)})
            if p.opaque and p.elem is not None and getattr(self, "elem_atoms", None):
                # positional view of a homogeneous list: element atoms become at(atom, position)
                off = NF.const(0)
                q = p
                while getattr(q, "slice_of", None) is not None:
                    base, sl = q.slice_of
                    if not isinstance(sl.step, NoneV) or not isinstance(sl.lo, (Num, NoneV)):
                        return self.list_elem(p, node)
                    off = off + (NF.const(0) if isinstance(sl.lo, NoneV) else sl.lo.nf)
                    q = base
                return self._at(p.elem, off + idx.nf)
            return self.list_elem(p, node)
        if isinstance(p, OpaqueV) and p.meta.get("kind") == "zip":
            return TupleV([self._elem_at(q, idx, ctx, node) for q in p.meta["parts"]])
        if isinstance(p, OpaqueV) and p.meta.get("kind") == "enumerate":
            start = p.meta.get("start", Num(NF.const(0), (), "int"))
            return TupleV([Num(idx.nf + start.nf, (), "int", meta={"loopvar": ctx}), self._elem_at(p.meta["parts"][0], idx, ctx, node)])
        if isinstance(p, TupleV):
            return OpaqueV(f"elem({valkey(p)})")
        return OpaqueV(f"elem({valkey(p)})", {"elem_of": p})

    def list_elem(self, lst: ListV, node):
        if lst.elem is not None:
            return lst.elem
        if lst.items:
            # generic element modelled after the first known element
            first = lst.items[0]
            return self.generalise(first, f"elem(list#{lst.lid})")
        return OpaqueV(f"elem(list#{lst.lid})", {"elem_of": lst})

    def generalise(self, v, tag):
        if isinstance(v, Num):
            nf = NF.atom(Atom("ge", tag))
            self.atom_shapes[Atom("ge", tag).key] = v.shape
            return Num(nf, v.shape, v.dtype, v.pytype)
        if isinstance(v, TupleV):
            return TupleV([self.generalise(x, f"{tag}.{i}") for i, x in enumerate(v.items)])
        return OpaqueV(tag)

    def list_extend(self, lst: ListV, rhs, node):
        self.emit("list_extend", node, lst=lst, value=rhs)
        lst.extended = getattr(lst, "extended", []) + [rhs]
        if isinstance(rhs, (ListV, TupleV)) and not getattr(rhs, "opaque", False) and not lst.opaque:
            lst.items.extend(rhs.items)
        else:
            if isinstance(rhs, ListV) and rhs.items and not lst.items:
                lst.items.extend(rhs.items)
            lst.opaque = True

    # ---------------------------------------------------------- expressions
    def ev(self, e, frame) -> Val:
        m = getattr(self, "ex_" + type(e).__name__, None)
        if m is None:
            raise Undecided(f"expression {type(e).__name__} not supported", e)
        return m(e, frame)

    def ex_Constant(self, e, frame):
        v = e.value
        if v is None:
            return NONE
        if isinstance(v, bool):
            return Num(NF.const(int(v)), (), "bool", cond=Cond.const(v))
        if isinstance(v, int):
            return Num(NF.const(v), (), "int")
        if isinstance(v, float):
            return Num(lift(v), (), "float")
        if isinstance(v, str):
            return StrV(v)
        if v is Ellipsis:
            return OpaqueV("...")
        raise Undecided(f"constant {v!r}", e)

    def ex_JoinedStr(self, e, frame):
        # evaluate the interpolated expressions (they may fail in the program)
        parts = []
        for v in e.values:
            if isinstance(v, ast.FormattedValue):
                try:
                    parts.append(valkey(self.ev(v.value, frame)))
                except Undecided:
                    parts.append("?")
            elif isinstance(v, ast.Constant):
                parts.append(str(v.value))
        return StrV(None, key="f" + repr("".join(parts)))

    def ex_Name(self, e, frame):
        v = frame.lookup(e.id)
        if v is not None:
            return v
        r = self.P.resolve_name(frame.module, e.id)
        if r is not None:
            return self.ref_to_val(r, e.id, e)
        if e.id in BUILTIN_NAMES:
            return ExtV("builtins." + e.id)
        if e.id in ("__name__", "__file__", "__doc__", "__package__", "__qualname__", "__module__"):
            # module attributes: strings that never reach a numeric result (logger names, messages)
            mod = getattr(frame.module, "name", None) or "?"
            return StrV(mod if e.id in ("__name__", "__module__") else None, key=f"{mod}.{e.id}")
        raise Undecided(f"unbound name {e.id}", e)

    def ref_to_val(self, r, name, node):
        if isinstance(r, FuncInfo):
            return FuncV(r)
        if isinstance(r, ClassInfo):
            return ClassV(r)
        if isinstance(r, tuple):
            if r[0] == "module":
                return ModV(r[1])
            if r[0] == "external":
                return self.ext_ref(r[1])
            if r[0] == "const":
                _, mod, expr = r
                f2 = Frame(None, mod, {})
                self.frames.append(f2)
                try:
                    return self.ev(expr, f2)
                except Undecided:
                    return OpaqueV(f"{mod.name}.{name}")
                finally:
                    self.frames.pop()
        if r is None:
            raise Undecided(f"name {name} does not resolve", node)
        raise Undecided(f"reference {r!r}", node)

    def ext_ref(self, dotted):
        c = self.models.ext_constant(self, dotted)
        if c is not None:
            return c
        return ExtV(dotted)

    def ex_Tuple(self, e, frame):
        return TupleV(self.ev_elts(e.elts, frame))

    def ex_List(self, e, frame):
        self.list_counter += 1
        return ListV(self.ev_elts(e.elts, frame), lid=self.list_counter)

    def ev_elts(self, elts, frame):
        out = []
        for x in elts:
            if isinstance(x, ast.Starred):
                v = self.ev(x.value, frame)
                if isinstance(v, (TupleV, ListV)) and not getattr(v, "opaque", False):
                    out.extend(v.items)
                else:
                    raise Undecided("starred element of unknown length", x)
            else:
                out.append(self.ev(x, frame))
        return out

    def ex_Dict(self, e, frame):
        items = []
        for k, v in zip(e.keys, e.values):
            if k is None:
                raise Undecided("dict unpacking", e)
            items.append((self.ev(k, frame), self.ev(v, frame)))
        return DictV(items)

    def ex_Set(self, e, frame):
        return OpaqueV("set")

    def ex_Lambda(self, e, frame):
        return ClosureV(e, frame, frame.func, "<lambda>")

    def ex_IfExp(self, e, frame):
        if self.decide_test(e.test, frame, e):
            return self.ev(e.body, frame)
        return self.ev(e.orelse, frame)

    def ex_NamedExpr(self, e, frame):
        v = self.ev(e.value, frame)
        frame.env[e.target.id] = v
        return v

    def ex_Starred(self, e, frame):
        raise Undecided("starred expression", e)

    def ex_UnaryOp(self, e, frame):
        v = self.ev(e.operand, frame)
        if isinstance(e.op, ast.Not):
            c = self.truth(v, e).neg()
            return Num(None, (), "bool", cond=c)
        if isinstance(v, StrV):
            # unary +/- on a string is a TypeError at run time (C14.b)
            self.emit("type_error", e, what=f"unary {type(e.op).__name__} applied to a string")
            raise RaiseSignal("TypeError", None, e, frame.func)
        if isinstance(v, Num):
            if isinstance(e.op, ast.USub):
                if v.cond is not None:
                    raise Undecided("negation of a boolean", e)
                return Num(-v.nf, v.shape, v.dtype, v.pytype)
            if isinstance(e.op, ast.UAdd):
                return v
            if isinstance(e.op, ast.Invert):
                if v.cond is not None:
                    return Num(None, v.shape, "bool", v.pytype, cond=v.cond.neg())
                r = self.mk("invert", v.nf, shape=v.shape, dtype="bool" if (v.dtype == "bool" or v.meta.get("boolarr")) else v.dtype)
                r.meta["boolarr"] = True
                return r
        if isinstance(v, OpaqueV):
            return OpaqueV(f"{type(e.op).__name__}({v.key})")
        raise Undecided(f"unary {type(e.op).__name__} on {v!r}", e)

    def ex_BoolOp(self, e, frame):
        # short-circuit evaluation with value semantics for `x or default`
        vals = e.values
        cur = self.ev(vals[0], frame)
        for nxt in vals[1:]:
            c = self.truth(cur, e)
            if c.is_const():
                if isinstance(e.op, ast.And):
                    if not c.value():
                        return cur
                    cur = self.ev(nxt, frame)
                else:
                    if c.value():
                        return cur
                    cur = self.ev(nxt, frame)
                continue
            # symbolic: both operands are evaluated as conditions
            rhs = self.ev(nxt, frame)
            c2 = self.truth(rhs, e)
            cc = (c & c2) if isinstance(e.op, ast.And) else (c | c2)
            cur = Num(None, (), "bool", cond=cc)
        return cur

    def ex_Compare(self, e, frame):
        left = self.ev(e.left, frame)
        result = None
        for op, rn in zip(e.ops, e.comparators):
            right = self.ev(rn, frame)
            c = self.compare(op, left, right, e)
            result = c if result is None else self.and_vals(result, c)
            left = right
        return result

    def and_vals(self, a: Num, b: Num):
        return Num(None, self.bshape(a.shape, b.shape, None), "bool", cond=a.cond & b.cond)

    def compare(self, op, a, b, node) -> Num:
        if isinstance(op, (ast.Is, ast.IsNot)):
            res = self.is_same(a, b, node)
            if res is None:
                c = Cond("opq", f"is({valkey(a)},{valkey(b)})")
            else:
                c = Cond.const(res)
            if isinstance(op, ast.IsNot):
                c = c.neg()
            return Num(None, (), "bool", cond=c)
        if isinstance(op, (ast.In, ast.NotIn)):
            c = self.contains(b, a, node)
            if isinstance(op, ast.NotIn):
                c = c.neg()
            return Num(None, (), "bool", cond=c)
        sym_op = {ast.Lt: "<", ast.LtE: "<=", ast.Gt: ">", ast.GtE: ">=", ast.Eq: "==", ast.NotEq: "!="}[type(op)]
        if sym_op in ("==", "!="):
            # `x.dtype.kind == "i"` is the membership test `x.dtype.kind in "i"` (one canonical form for both)
            for u, w in ((a, b), (b, a)):
                if isinstance(u, OpaqueV) and u.meta.get("attr") == "kind" and isinstance(u.meta.get("recv"), OpaqueV) and u.meta["recv"].meta.get("kind") == "dtype" and isinstance(w, StrV) and w.s is not None and len(w.s) == 1:
                    c = self.contains(w, u, node)
                    return Num(None, (), "bool", cond=c if sym_op == "==" else c.neg())
        if isinstance(a, Num) and isinstance(b, Num) and a.cond is None and b.cond is None:
            shape = self.bshape(a.shape, b.shape, node)
            return Num(None, shape, "bool", cond=Cond.cmp(sym_op, self.as_nf(a, node), self.as_nf(b, node)))
        if isinstance(a, StrV) and isinstance(b, StrV) and sym_op in ("==", "!="):
            if a.s is not None and b.s is not None:
                r = (a.s == b.s) if sym_op == "==" else (a.s != b.s)
                return Num(None, (), "bool", cond=Cond.const(r))
            c = Cond("opq", f"streq({a.key},{b.key})")
            return Num(None, (), "bool", cond=c if sym_op == "==" else c.neg())
        if isinstance(a, NoneV) or isinstance(b, NoneV):
            if isinstance(a, NoneV) and isinstance(b, NoneV):
                return Num(None, (), "bool", cond=Cond.const(sym_op == "=="))
            if sym_op in ("==", "!="):
                other = b if isinstance(a, NoneV) else a
                if isinstance(other, (Num, StrV, TupleV, ListV, ObjV)):
                    return Num(None, (), "bool", cond=Cond.const(sym_op == "!="))
            # ordering comparison with None is a TypeError in Python 3
            self.emit("type_error", node, what="ordering comparison with None")
            raise RaiseSignal("TypeError", None, node, self.frames[-1].func if self.frames else None)
        if isinstance(a, Num) and isinstance(b, Num):
            # comparison involving boolean arrays (e.g. mask == True)
            ka, kb = valkey(a), valkey(b)
            c = Cond("opq", _opq_cmp(sym_op, ka, kb))
            return Num(None, self.bshape(a.shape, b.shape, node), "bool", cond=c)
        if isinstance(a, (TupleV, ListV)) and isinstance(b, (TupleV, ListV)) and sym_op in ("==", "!="):
            conc = not getattr(a, "opaque", False) and not getattr(b, "opaque", False)
            if conc and type(a) is type(b) and all(isinstance(x, Num) and x.cond is None and x.shape == () for x in list(a.items) + list(b.items)):
                # element-wise: sequences of scalars are equal iff they have the same length and equal elements
                if len(a.items) != len(b.items):
                    c = Cond.const(False)
                else:
                    c = Cond.const(True)
                    for x, y in zip(a.items, b.items):
                        c = c & Cond.cmp("==", x.nf, y.nf)
                return Num(None, (), "bool", cond=c if sym_op == "==" else c.neg())
            c = Cond("opq", f"seqeq({valkey(a)},{valkey(b)})")
            return Num(None, (), "bool", cond=c if sym_op == "==" else c.neg())
        c = Cond("opq", _opq_cmp(sym_op, valkey(a), valkey(b)))
        return Num(None, (), "bool", cond=c)

    def is_same(self, a, b, node):
        if isinstance(a, NoneV) and isinstance(b, NoneV):
            return True
        if isinstance(a, NoneV) or isinstance(b, NoneV):
            other = b if isinstance(a, NoneV) else a
            if isinstance(other, OpaqueV):
                return None
            if isinstance(other, Num) and other.meta.get("maybe_none"):
                return None
            return False
        if isinstance(a, ObjV) and isinstance(b, ObjV):
            return a is b
        if isinstance(a, ExtV) and isinstance(b, ExtV):
            # two references into libraries: the same dotted name is the same object; a builtin type is no other object;
            # two different library names may still be aliases of one object (numpy.double / numpy.float64): undecided
            if a.dotted == b.dotted:
                return True
            return False if (a.dotted.startswith("builtins.") or b.dotted.startswith("builtins.")) else None
        if isinstance(a, Num) and isinstance(b, Num) and a.cond is not None and b.cond is not None:
            if a.cond.is_const() and b.cond.is_const():
                return a.cond.value() == b.cond.value()
        return None

    def contains(self, container, item, node) -> Cond:
        # `a.dtype.kind in "iu"`: numpy's one-letter dtype kinds.  "iu" is the exact test for a plain integer array (it
        # excludes bool, float, object AND timedelta64, which np.issubdtype(., np.integer) lets through); it is given the
        # key of the integer test plus the marker [kind:...] so that rules reading the dtype fact see one condition
        if isinstance(item, OpaqueV) and item.meta.get("attr") == "kind" and isinstance(item.meta.get("recv"), OpaqueV) and item.meta["recv"].meta.get("kind") == "dtype":
            chars = None
            if isinstance(container, StrV) and container.s is not None:
                chars = set(container.s)
            elif isinstance(container, (TupleV, ListV)) and not getattr(container, "opaque", False) and all(isinstance(x, StrV) and x.s is not None and len(x.s) == 1 for x in container.items):
                chars = {x.s for x in container.items}
            of = item.meta["recv"].meta.get("of")
            if chars is not None:
                kd = of.dtype if isinstance(of, Num) else None
                if kd == "float":
                    return Cond.const("f" in chars)
                if kd == "bool":
                    return Cond.const("b" in chars)
                if kd == "int" and {"i", "u"} <= chars:
                    return Cond.const(True)
                if kd == "int" and not ({"i", "u"} & chars):
                    return Cond.const(False)
                tag = "".join(sorted(chars))
                if chars == {"i", "u"}:
                    return Cond("opq", f"issubdtype({valkey(of)},numpy.integer)[kind:{tag}]")
                if chars == {"i"}:
                    return Cond("opq", f"issubdtype({valkey(of)},numpy.signedinteger)[kind:{tag}]")
                return Cond("opq", f"dtypekind({valkey(of)},{tag})")
        if isinstance(container, (TupleV, ListV)) and not getattr(container, "opaque", False):
            if isinstance(item, StrV) and item.s is not None and all(isinstance(x, StrV) and x.s is not None for x in container.items):
                return Cond.const(item.s in [x.s for x in container.items])
            if isinstance(item, Num) and item.nf is not None and item.nf.as_const() is not None and all(
                isinstance(x, Num) and x.nf is not None and x.nf.as_const() is not None for x in container.items
            ):
                return Cond.const(item.nf.as_const() in [x.nf.as_const() for x in container.items])
        r = self.models.contains(self, container, item, node)
        if r is not None:
            return r
        return Cond("opq", f"in({valkey(item)},{valkey(container)})")

    def ex_BinOp(self, e, frame):
        a = self.ev(e.left, frame)
        b = self.ev(e.right, frame)
        return self.binop(e.op, a, b, e)

    def binop(self, op, a, b, node) -> Val:
        if isinstance(a, StrV) or isinstance(b, StrV):
            if isinstance(op, ast.Add) and isinstance(a, StrV) and isinstance(b, StrV):
                s = a.s + b.s if (a.s is not None and b.s is not None) else None
                return StrV(s, key=f"({a.key}+{b.key})")
            if isinstance(op, ast.Mod) and isinstance(a, StrV):
                return StrV(None, key=f"({a.key}%{valkey(b)})")
            if isinstance(op, ast.Mult):
                return StrV(None, key=f"({valkey(a)}*{valkey(b)})")
            self.emit("type_error", node, what=f"{type(op).__name__} between str and non-str")
            raise RaiseSignal("TypeError", None, node, self.frames[-1].func if self.frames else None)
        if isinstance(a, (ListV, TupleV)) and isinstance(b, (ListV, TupleV)) and isinstance(op, ast.Add):
            if type(a) is not type(b):
                self.emit("type_error", node, what="list + tuple")
                raise RaiseSignal("TypeError", None, node, None)
            opaque = getattr(a, "opaque", False) or getattr(b, "opaque", False)
            if isinstance(a, TupleV):
                return TupleV(a.items + b.items)
            self.list_counter += 1
            r = ListV(a.items + b.items, opaque=opaque, lid=self.list_counter)
            r.parts = (a, b)
            r.numeric = True
            return r
        if isinstance(a, (ListV, TupleV)) and isinstance(b, Num) and isinstance(op, ast.Mult) or (
            isinstance(b, (ListV, TupleV)) and isinstance(a, Num) and isinstance(op, ast.Mult)
        ):
            seq, k = (a, b) if isinstance(a, (ListV, TupleV)) else (b, a)
            c = k.nf.as_const()
            self.list_counter += 1
            if c is not None and not getattr(seq, "opaque", False) and 0 <= c <= 16:
                items = seq.items * int(c)
                return TupleV(items) if isinstance(seq, TupleV) else ListV(items, lid=self.list_counter)
            r = ListV(list(seq.items), opaque=True, lid=self.list_counter, elem=seq.items[0] if len(seq.items) == 1 else getattr(seq, "elem", None))
            r.repeat = (seq, k)
            return r
        if isinstance(a, Num) and isinstance(b, Num):
            return self.num_binop(op, a, b, node)
        if isinstance(a, OpaqueV) or isinstance(b, OpaqueV):
            return OpaqueV(f"{type(op).__name__}({valkey(a)},{valkey(b)})")
        if isinstance(a, NoneV) or isinstance(b, NoneV):
            self.emit("type_error", node, what=f"{type(op).__name__} with None")
            raise RaiseSignal("TypeError", None, node, self.frames[-1].func if self.frames else None)
        raise Undecided(f"binary {type(op).__name__} on {a!r}, {b!r}", node)

    def num_binop(self, op, a: Num, b: Num, node) -> Num:
        if isinstance(op, ast.MatMult):
            x_, y_ = self.as_nf(a, node), self.as_nf(b, node)
            # exact identity for A = L L^T (L = cholesky(A)):  inv(L)^T @ inv(L) = inv(A).  The other orientation,
            # inv(L) @ inv(L)^T, is a different matrix unless A is diagonal and is left un-simplified.
            ia = _inv_chol_arg(y_)
            ta = _transpose_arg(x_)
            if ia is not None and ta is not None and nf_equal(ta, y_):
                r = app("inv", ia)
                shape = _matmul_shape(a.shape, b.shape)
                self.register_atom(r, shape)
                return Num(r, shape, "float", "ndarray")
            r = app("matmul", x_, y_)
            shape = _matmul_shape(a.shape, b.shape)
            self.register_atom(r, shape)
            return Num(r, shape, "float", "ndarray")
        shape = self.bshape(a.shape, b.shape, node)
        pytype = _join_pytype(a, b, shape)
        if isinstance(op, (ast.BitAnd, ast.BitOr)):
            ca = a.cond if a.cond is not None else None
            cb = b.cond if b.cond is not None else None
            if ca is not None and cb is not None:
                c = (ca & cb) if isinstance(op, ast.BitAnd) else (ca | cb)
                return Num(None, shape, "bool", pytype, cond=c)
            ka, kb = valkey(a), valkey(b)
            r = self.mk("and" if isinstance(op, ast.BitAnd) else "or", *sorted([ka, kb]), shape=shape, dtype="bool")
            r.meta["boolarr"] = True
            return r
        x = self.as_nf(a, node)
        y = self.as_nf(b, node)
        dt = "float" if "float" in (a.dtype, b.dtype) else ("int" if a.dtype == b.dtype == "int" else None)
        if isinstance(op, ast.Add):
            r = x + y
        elif isinstance(op, ast.Sub):
            r = x - y
        elif isinstance(op, ast.Mult):
            r = x * y
        elif isinstance(op, ast.Div):
            if y.is_zero():
                self.emit("zero_division", node)
                raise Undecided("division by the constant zero", node)
            r = x / y
            dt = "float"
        elif isinstance(op, ast.Pow):
            c = y.as_const()
            if c is None:
                r = app("pow", x, y)
            else:
                r = x ** c
        elif isinstance(op, ast.FloorDiv):
            cx, cy = x.as_const(), y.as_const()
            if cx is not None and cy is not None and cy != 0:
                r = NF.const(cx // cy)
            else:
                r = app("floordiv", x, y)
            dt = dt or None
        elif isinstance(op, ast.Mod):
            cx, cy = x.as_const(), y.as_const()
            if cx is not None and cy is not None and cy != 0:
                r = NF.const(cx % cy)
            else:
                r = app("mod", x, y)
        elif isinstance(op, ast.MatMult):
            r = app("matmul", x, y)
            shape = _matmul_shape(a.shape, b.shape)
            self.register_atom(r, shape)
            return Num(r, shape, "float", "ndarray")
        else:
            raise Undecided(f"operator {type(op).__name__}", node)
        return Num(r, shape, dt, pytype, meta={"fresh": True})

    def cur_nf(self, v: Num) -> NF:
        """Normal form of the *current* contents of a (possibly mutated) array value."""
        if v.arr is not None and (v.arr.stores or v.arr.epoch) and not v.meta.get("snapshot"):
            base = self.arr_nf(v.arr)
            if v.meta.get("view") is not None:
                return v.nf
            return base
        return v.nf

    def as_nf(self, v: Num, node) -> NF:
        if v.arr is not None and v.cond is None:
            return self.cur_nf(v)
        if v.cond is not None:
            if v.cond.is_const():
                return NF.const(int(v.cond.value()))
            nf = app("ind", v.cond.key)
            self.set_meta(nf, cond=v.cond)
            return nf
        return v.nf

    def bshape(self, s1, s2, node):
        if s1 is None or s2 is None:
            return None
        n = max(len(s1), len(s2))
        a = (NF.const(1),) * (n - len(s1)) + tuple(s1)
        b = (NF.const(1),) * (n - len(s2)) + tuple(s2)
        out = []
        for x, y in zip(a, b):
            x, y = lift(x), lift(y)
            cx, cy = x.as_const(), y.as_const()
            if nf_equal(x, y):
                out.append(x)
            elif cx is not None and cx == 1:
                out.append(y)
            elif cy is not None and cy == 1:
                out.append(x)
            else:
                if node is not None:
                    self.emit("broadcast_mismatch", node, left=s1, right=s2)
                out.append(x)
        return tuple(out)

    # ------------------------------------------------------------ attribute
    def ex_Attribute(self, e, frame):
        base = self.ev(e.value, frame)
        return self.getattr(base, e.attr, e, frame)

    def getattr(self, base, attr, node, frame=None):
        if isinstance(base, TupleV) and attr in (getattr(base, "names", None) or ()):
            return base.items[base.names.index(attr)]
        if isinstance(base, ObjV):
            if attr in base.fields:
                if base.abstract and attr == "min_size" and node is not None:
                    # the minimum size of a scorer may depend on the data it was fitted on (p + 1 for a covariance cost)
                    self.emit("scorer_min_size", node, obj=base, fitted_on=base.meta.get("fitted_on"))
                return base.fields[attr]
            if base.abstract:
                r = self.models.obj_attr(self, base, attr, node)
                if r is not None:
                    return r
                return BoundExt(base, attr)
            if base.cls is not None:
                f = self.P.lookup_method(base.cls, attr)
                if f is not None:
                    if f.is_property:
                        return self.call_function(f, [], {}, self_obj=base, node=node)
                    if f.is_static:
                        return FuncV(f)
                    if f.is_classmethod:
                        return FuncV(f, ClassV(base.cls))
                    return FuncV(f, base)
                ca = self.P.lookup_class_attr(base.cls, attr)
                if ca is not None:
                    k, expr = ca
                    f2 = Frame(None, k.module, {})
                    self.frames.append(f2)
                    try:
                        return self.ev(expr, f2)
                    finally:
                        self.frames.pop()
            r = self.models.obj_attr(self, base, attr, node)
            if r is not None:
                return r
            return BoundExt(base, attr)
        if isinstance(base, ClassV):
            f = self.P.lookup_method(base.cls, attr)
            if f is not None:
                if f.is_classmethod:
                    return FuncV(f, base)
                return FuncV(f)
            ca = self.P.lookup_class_attr(base.cls, attr)
            if ca is not None:
                k, expr = ca
                f2 = Frame(None, k.module, {})
                self.frames.append(f2)
                try:
                    return self.ev(expr, f2)
                finally:
                    self.frames.pop()
            return BoundExt(base, attr)
        if isinstance(base, ModV):
            r = self.P.resolve_attr_of_module(base.name, attr)
            return self.ref_to_val(r, attr, node)
        if isinstance(base, ExtV):
            return self.ext_ref(base.dotted + "." + attr)
        if isinstance(base, Num):
            r = self.models.num_attr(self, base, attr, node)
            if r is not None:
                return r
            return BoundExt(base, attr)
        if isinstance(base, (ListV, TupleV, StrV, DictV, RangeV, BoundExt, ClosureV, FuncV)):
            return BoundExt(base, attr)
        if isinstance(base, OpaqueV):
            r = self.models.opaque_attr(self, base, attr, node)
            if r is not None:
                return r
            return OpaqueV(f"{base.key}.{attr}", {"recv": base, "attr": attr})
        if isinstance(base, NoneV):
            self.emit("attribute_error", node, what=f"None.{attr}")
            raise RaiseSignal("AttributeError", None, node, frame.func if frame else None)
        raise Undecided(f"attribute {attr} of {base!r}", node)

    # ------------------------------------------------------------ subscript
    def ex_Subscript(self, e, frame):
        base = self.ev(e.value, frame)
        idx = self.ev_index(e.slice, frame)
        return self.getitem(base, idx, e)

    def ex_Slice(self, e, frame):
        return SliceV(
            self.ev(e.lower, frame) if e.lower is not None else NONE,
            self.ev(e.upper, frame) if e.upper is not None else NONE,
            self.ev(e.step, frame) if e.step is not None else NONE,
        )

    def ev_index(self, s, frame):
        """-> list of index components (one per axis)."""
        if isinstance(s, ast.Tuple):
            return [self.ev(x, frame) for x in s.elts]
        return [self.ev(s, frame)]

    def getitem(self, base, idx, node):
        if isinstance(base, (TupleV, ListV)):
            return self.index_seq(base, idx, node)
        if isinstance(base, Num):
            return self.index_num(base, idx, node)
        if isinstance(base, DictV):
            k = idx[0]
            if getattr(base, "opaque", False):
                return OpaqueV(f"dictitem({valkey(base)},{valkey(k)})")
            for kk, v in base.items:
                if valkey(kk) == valkey(k):
                    return v
            return OpaqueV(f"dictitem({valkey(k)})")
        if isinstance(base, StrV):
            return StrV(None, key=f"{base.key}[{valkey(idx[0])}]")
        if isinstance(base, (BoundExt, OpaqueV, ExtV)):
            r = self.models.opaque_getitem(self, base, idx, node)
            if r is not None:
                return r
            return OpaqueV(f"{valkey(base)}[{','.join(valkey(i) for i in idx)}]", {"recv": base, "index": idx})
        if isinstance(base, ClassV):
            return base  # generic alias e.g. list[int]
        raise Undecided(f"subscript of {base!r}", node)

    def index_seq(self, base, idx, node):
        if len(idx) != 1:
            raise Undecided("multi-axis index of a python sequence", node)
        i = idx[0]
        opaque = getattr(base, "opaque", False)
        if isinstance(i, SliceV):
            lo, hi, st = (None if isinstance(x, NoneV) else x.nf.as_const() for x in (i.lo, i.hi, i.step))
            if not opaque and all(isinstance(x, NoneV) or x.nf.as_const() is not None for x in (i.lo, i.hi, i.step)):
                items = base.items[slice(
                    None if lo is None else int(lo), None if hi is None else int(hi), None if st is None else int(st)
                )]
                if isinstance(base, TupleV):
                    return TupleV(items)
                self.list_counter += 1
                r = ListV(items, lid=self.list_counter)
                return r
            self.list_counter += 1
            r = ListV([], opaque=True, lid=self.list_counter, elem=self.list_elem(base, node) if isinstance(base, ListV) else None)
            r.slice_of = (base, i)
            return r
        if isinstance(i, Num) and i.cond is None:
            c = i.nf.as_const()
            if c is not None and not opaque:
                c = int(c)
                if -len(base.items) <= c < len(base.items):
                    if isinstance(base, ListV):
                        self.emit("list_read", node, lst=base, index=i)
                    return base.items[c]
                self.emit("index_error", node, what=f"index {c} out of range for a sequence of length {len(base.items)}")
                raise RaiseSignal("IndexError", None, node, None)
            if isinstance(base, ListV):
                self.emit("list_read", node, lst=base, index=i)
                el = base.elem
                if el is None and not base.items and getattr(base, "numeric", False) or (el is None and getattr(base, "parts", None) is not None):
                    # a list of numbers whose contents are unknown: keep the position
                    r = Num(app("listitem", base.lid, i.nf), (), None, meta={"list_item": (base, i)})
                    return r
                if opaque and el is not None and getattr(self, "elem_atoms", None) and (c is None or c >= 0):
                    # positional mode (opt-in): L[i] for a symbolic position i is the same element a zip / enumerate
                    # loop over L yields at position i
                    return self._elem_at(base, i, None, node)
                return self.list_elem(base, node)
            return OpaqueV(f"{valkey(base)}[{valkey(i)}]")
        raise Undecided(f"sequence index {i!r}", node)

    def index_num(self, base: Num, idx, node) -> Val:
        return self.models.index_num(self, base, idx, node)

    # ----------------------------------------------------------------- call
    def ex_Call(self, e, frame):
        fv = self.ev(e.func, frame)
        args = []
        for a in e.args:
            if isinstance(a, ast.Starred):
                v = self.ev(a.value, frame)
                if isinstance(v, (TupleV, ListV)) and not getattr(v, "opaque", False):
                    args.extend(v.items)
                else:
                    raise Undecided("*args of unknown length", e)
            else:
                args.append(self.ev(a, frame))
        kwargs = {}
        for k in e.keywords:
            if k.arg is None:
                v = self.ev(k.value, frame)
                if isinstance(v, DictV) and not getattr(v, "opaque", False) and all(isinstance(kk, StrV) and kk.s is not None for kk, _ in v.items):
                    for kk, vv in v.items:
                        kwargs[kk.s] = vv
                else:
                    raise Undecided("**kwargs of unknown keys", e)
            else:
                kwargs[k.arg] = self.ev(k.value, frame)
        return self.call(fv, args, kwargs, e, frame)

    def call(self, fv, args, kwargs, node, frame=None):
        self.models.watch_labels(self, fv, args, kwargs, node)
        if isinstance(fv, FuncV):
            so = fv.self_obj
            if isinstance(so, ClassV):
                return self.call_function(fv.func, [so] + list(args), kwargs, None, node)
            return self.call_function(fv.func, args, kwargs, so, node)
        if isinstance(fv, ClassV):
            rec = self._record_fields(fv.cls)
            if rec is not None:
                return self._new_record(fv.cls, rec, args, kwargs, node, frame)
            return self.new_object(fv.cls, args, kwargs, node)
        if isinstance(fv, ClosureV):
            return self.call_closure(fv, args, kwargs, node)
        if isinstance(fv, ExtV):
            return self.models.call_ext(self, fv.dotted, args, kwargs, node, frame)
        if isinstance(fv, BoundExt):
            return self.models.call_method(self, fv.recv, fv.name, args, kwargs, node, frame)
        if isinstance(fv, OpaqueV) and "attr" in fv.meta and "recv" in fv.meta:
            return self.models.call_method(self, fv.meta["recv"], fv.meta["attr"], args, kwargs, node, frame)
        if isinstance(fv, OpaqueV) and fv.meta.get("kind") == "vectorize":
            return self.models.call_method(self, fv, "__call__", args, kwargs, node, frame)
        if isinstance(fv, OpaqueV):
            self.emit("opaque_call", node, callee=fv, args=args, kwargs=kwargs)
            return OpaqueV(f"{fv.key}({','.join(valkey(a) for a in args)})", {"call": fv, "args": args, "kwargs": kwargs})
        if isinstance(fv, Num) and fv.meta.get("callable"):
            self.emit("opaque_call", node, callee=fv, args=args, kwargs=kwargs)
            return OpaqueV(f"{valkey(fv)}({','.join(valkey(a) for a in args)})", {"call": fv, "args": args, "kwargs": kwargs})
        raise Undecided(f"call of {fv!r}", node)

    def call_closure(self, cv: ClosureV, args, kwargs, node):
        if self.depth >= self.max_depth:
            raise Undecided("inlining depth exceeded (closure)", node)
        fn = cv.node
        frame = Frame(cv.func, cv.env.module, {}, parent=cv.env)
        self.bind_args(frame, fn, args, dict(kwargs), None, cv, node)
        self.depth += 1
        self.frames.append(frame)
        saved = self.loops
        try:
            if isinstance(fn, ast.Lambda):
                return self.ev(fn.body, frame)
            self.exec_block(fn.body, frame)
            return NONE
        except ReturnSignal as r:
            return r.val
        finally:
            self.loops = saved
            self.frames.pop()
            self.depth -= 1

    # --------------------------------------------------------- comprehension
    def ex_ListComp(self, e, frame):
        return self.comprehension(e, frame, "list")

    def ex_GeneratorExp(self, e, frame):
        return self.comprehension(e, frame, "gen")

    def ex_SetComp(self, e, frame):
        return self.comprehension(e, frame, "set")

    def ex_DictComp(self, e, frame):
        """{k: v for t in it if c} over an iterable with known items (a dict's items / keys, a literal tuple or list, a
        constant range) is built item by item, in order, like the dict display it abbreviates"""
        if len(e.generators) != 1:
            raise Undecided("nested dict comprehension", e)
        g = e.generators[0]
        it = self.ev(g.iter, frame)
        items = self.concrete_items(it)
        if items is None or len(items) > self.unroll_limit:
            # an iterable of unknown length: the generic entry (key, value) of an arbitrary element, like a list
            # comprehension's generic element - equal keys of different elements collapse, which the entry's key tells
            inner = Frame(frame.func, frame.module, {}, parent=frame)
            lid = f"{frame.func.qualname if frame.func else '?'}#dcomp{getattr(e, 'lineno', 0)}_{getattr(e, 'col_offset', 0)}"
            ctx = LoopCtx(lid, "comp", e, frame.func)
            elem = self.generic_element(it, ctx, e)
            ctx.var = elem
            ctx.info["iter"] = it
            self.assign(g.target, elem, inner, e)
            self.loops = self.loops + [ctx]
            try:
                conds = [self.truth(self.ev(cnd, inner), e) for cnd in g.ifs]
                k = self.ev(e.key, inner)
                v = self.ev(e.value, inner)
            finally:
                self.loops = self.loops[:-1]
            r = DictV([])
            r.opaque = True
            r.comp = {"ctx": ctx, "key": k, "value": v, "conds": conds, "iter": it}
            self.emit("comprehension", e, result=r, loop=ctx, elem=v, conds=conds, iter=it)
            return r
        inner = Frame(frame.func, frame.module, {}, parent=frame)
        out = []
        for x in items:
            self.assign(g.target, x, inner, e)
            keep = True
            for cnd in g.ifs:
                if not self.decide(self.truth(self.ev(cnd, inner), e), e):
                    keep = False
                    break
            if keep:
                k = self.ev(e.key, inner)
                v = self.ev(e.value, inner)
                out = [(kk, vv) for kk, vv in out if valkey(kk) != valkey(k)] + [(k, v)]
        return DictV(out)

    def comprehension(self, e, frame, kind):
        if len(e.generators) != 1:
            raise Undecided("nested comprehension", e)
        g = e.generators[0]
        it = self.ev(g.iter, frame)
        items = self.concrete_items(it)
        inner = Frame(frame.func, frame.module, {}, parent=frame)
        self.list_counter += 1
        if items is not None and len(items) <= self.unroll_limit:
            out = []
            for x in items:
                self.assign(g.target, x, inner, e)
                keep = True
                for cnd in g.ifs:
                    c = self.truth(self.ev(cnd, inner), e)
                    if not self.decide(c, e):
                        keep = False
                        break
                if keep:
                    out.append(self.ev(e.elt, inner))
            return ListV(out, lid=self.list_counter)
        lid = f"{frame.func.qualname if frame.func else '?'}#comp{getattr(e, 'lineno', 0)}_{getattr(e, 'col_offset', 0)}"
        ctx = LoopCtx(lid, "comp", e, frame.func)
        elem = self.generic_element(it, ctx, e)
        ctx.var = elem
        ctx.info["iter"] = it
        self.assign(g.target, elem, inner, e)
        self.loops = self.loops + [ctx]
        try:
            conds = []
            for cnd in g.ifs:
                conds.append(self.truth(self.ev(cnd, inner), e))
            val = self.ev(e.elt, inner)
        finally:
            self.loops = self.loops[:-1]
        r = ListV([], opaque=True, lid=self.list_counter, elem=val)
        r.comp = {"ctx": ctx, "elem": val, "conds": conds, "iter": it}
        self.emit("comprehension", e, result=r, loop=ctx, elem=val, conds=conds, iter=it)
        return r


# ------------------------------------------------------------------ utilities


def _single(nf):
    from .nf import single_atom

    return single_atom(nf) if isinstance(nf, NF) else None


def _inv_chol_arg(nf):
    """A if nf is inv(chol(A))"""
    a = _single(nf)
    if a is not None and a.kind == "app" and a.args[0] == "inv":
        b = _single(a.args[1]) if isinstance(a.args[1], NF) else None
        if b is not None and b.kind == "app" and b.args[0] == "chol":
            return b.args[1]
    return None


def _transpose_arg(nf):
    a = _single(nf)
    if a is not None and a.kind == "app" and a.args[0] == "T":
        return a.args[1]
    return None


_FLIP_OP = {"<": ">", ">": "<", "<=": ">=", ">=": "<=", "==": "==", "!=": "!="}


def _opq_cmp(op, ka, kb):
    """key of an un-interpreted comparison, oriented canonically: `a > b` and `b < a` are one condition"""
    if ka > kb:
        ka, kb, op = kb, ka, _FLIP_OP[op]
    return f"cmp{op}({ka},{kb})"


def _prange_summary(ex, func, args, kwargs, self_obj, node):
    # numba.prange degrades to range (soft_import.define_prange)
    return ex.models.EXT["builtins.range"](ex, args, kwargs, node)


def _load(t):
    import copy

    t2 = copy.deepcopy(t)
    for n in ast.walk(t2):
        if hasattr(n, "ctx"):
            n.ctx = ast.Load()
    return t2


def _walk_stmts(body):
    for st in body:
        yield st
        for f in ("body", "orelse", "finalbody"):
            sub = getattr(st, f, None)
            if sub and not isinstance(st, (ast.FunctionDef, ast.ClassDef, ast.Lambda)):
                yield from _walk_stmts(sub)


def _join_pytype(a: Num, b: Num, shape):
    for t in ("frame", "series", "index"):
        if a.pytype == t or b.pytype == t:
            return t
    if shape == ():
        return "number"
    return "ndarray"


def _matmul_shape(s1, s2):
    if s1 is None or s2 is None:
        return None
    if len(s1) == 2 and len(s2) == 2:
        return (s1[0], s2[1])
    if len(s1) == 1 and len(s2) == 2:
        return (s2[1],)
    if len(s1) == 2 and len(s2) == 1:
        return (s1[0],)
    if len(s1) == 1 and len(s2) == 1:
        return ()
    return None
