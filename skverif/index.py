"""E1/E2 - program index, name resolver, class hierarchy, call graph.

Parses every non-test module under <repo>/skchange with `ast` (nothing is
imported or executed) and answers:
  * which definition a name in a module refers to (through imports, aliases and
    re-exports in package __init__ files);
  * the MRO of repository classes and method lookup through it;
  * the registry lists (COSTS, CHANGE_DETECTORS, ...) as lists of classes;
  * a resolved call graph (see callgraph()).
"""

from __future__ import annotations

import ast
import hashlib
import os
from dataclasses import dataclass, field

from .nf import Undecided

PKG = "skchange"


@dataclass(repr=False)
class FuncInfo:
    qualname: str  # module.func or module.Class.func
    name: str
    node: ast.FunctionDef
    module: "ModuleInfo"
    cls: "ClassInfo | None" = None
    decorators: list = field(default_factory=list)

    def __repr__(self):
        return f"<func {self.qualname}>"

    @property
    def is_static(self):
        return "staticmethod" in self.decorators

    @property
    def is_classmethod(self):
        return "classmethod" in self.decorators

    @property
    def is_property(self):
        return "property" in self.decorators

    @property
    def is_njit(self):
        return any(d in ("njit", "jit") for d in self.decorators)

    @property
    def params(self):
        a = self.node.args
        return [x.arg for x in a.posonlyargs + a.args]

    def loc(self, node=None):
        n = node if node is not None else self.node
        return f"{self.module.relpath}:{getattr(n, 'lineno', 0)}"


@dataclass(repr=False)
class ClassInfo:
    qualname: str
    name: str
    node: ast.ClassDef
    module: "ModuleInfo"
    base_exprs: list = field(default_factory=list)
    bases: list = field(default_factory=list)  # resolved: ClassInfo | str (external dotted)
    methods: dict = field(default_factory=dict)
    attrs: dict = field(default_factory=dict)  # class-level simple assignments name -> ast expr
    _mro: list | None = None

    def __repr__(self):
        return f"<class {self.qualname}>"


@dataclass(repr=False)
class ModuleInfo:
    name: str
    path: str
    relpath: str
    tree: ast.Module
    source: str
    is_pkg: bool
    imports: dict = field(default_factory=dict)  # local name -> ("mod", dotted) | ("attr", dotted_mod, attr)
    functions: dict = field(default_factory=dict)
    classes: dict = field(default_factory=dict)
    assigns: dict = field(default_factory=dict)  # module-level NAME = expr

    def __repr__(self):
        return f"<module {self.name}>"


class _FuncTable(dict):
    """qualname -> FuncInfo.  A lookup of `module.name` that is not a definition of that module falls back to the NAME in
    the module's namespace: a function that was moved to another module and imported back is found under its old
    address (iteration still yields every definition exactly once, under the qualname of where it lives)."""

    def __init__(self, program):
        super().__init__()
        self._P = program

    def _resolve(self, q):
        if isinstance(q, str) and "." in q:
            modname, name = q.rsplit(".", 1)
            if modname in self._P.modules:
                try:
                    r = self._P.resolve_attr_of_module(modname, name)
                except Exception:  # noqa: BLE001
                    return None
                if isinstance(r, FuncInfo):
                    return r
        return None

    def __contains__(self, q):
        return dict.__contains__(self, q) or self._resolve(q) is not None

    def __missing__(self, q):
        r = self._resolve(q)
        if r is None:
            raise KeyError(q)
        return r

    def get(self, q, default=None):
        if dict.__contains__(self, q):
            return dict.__getitem__(self, q)
        r = self._resolve(q)
        return r if r is not None else default


class Program:
    def __init__(self, repo):
        self.repo = os.path.abspath(repo)
        self.modules: dict[str, ModuleInfo] = {}
        self.functions: dict[str, FuncInfo] = _FuncTable(self)
        self.classes: dict[str, ClassInfo] = {}
        self.digest = ""
        self._load()

    # ------------------------------------------------------------------ load
    def _load(self):
        root = os.path.join(self.repo, PKG)
        if not os.path.isdir(root):
            raise Undecided(f"package directory {root} not found")
        h = hashlib.sha256()
        files = []
        for dp, dn, fn in os.walk(root):
            dn[:] = sorted(d for d in dn if d not in ("tests", "__pycache__"))
            for f in sorted(fn):
                if f.endswith(".py"):
                    files.append(os.path.join(dp, f))
        for path in files:
            rel = os.path.relpath(path, self.repo)
            parts = rel[:-3].split(os.sep)
            is_pkg = parts[-1] == "__init__"
            if is_pkg:
                parts = parts[:-1]
            name = ".".join(parts)
            with open(path, "rb") as fh:
                raw = fh.read()
            h.update(rel.encode())
            h.update(raw)
            src = raw.decode("utf-8")
            try:
                tree = ast.parse(src, filename=path)
            except SyntaxError as e:
                raise Undecided(f"syntax error in {rel}: {e}")
            m = ModuleInfo(name, path, rel, tree, src, is_pkg)
            self.modules[name] = m
        self.digest = h.hexdigest()
        for m in self.modules.values():
            self._index_module(m)
        for c in self.classes.values():
            c.bases = [self._resolve_base(c, b) for b in c.base_exprs]
        self._adopt_formatters()

    def _adopt_formatters(self):
        """The output formatter of a detector base class is found by WHAT IT DOES when it does not carry its usual name:
        a function of the class's module that builds the sparse frame (a dict display with the key "ilocs" - plus
        "icolumns" for the subset type, without it for the others).  It is entered in the class's method table under the
        usual name, with `owner_cls` set, so that the rules (which summarise / analyse "the formatter of class C") find
        it whether it is a static method or a module-level function."""
        for c in self.classes.values():
            if not c.name.endswith("Detector") or "_format_sparse_output" in c.methods:
                continue
            if not any(isinstance(b, ClassInfo) and b.name == "BaseDetector" for b in c.bases):
                continue
            want_icols = "Subset" in c.name
            cands = []
            for f in c.module.functions.values():
                keys = set()
                for n in ast.walk(f.node):
                    if isinstance(n, ast.Dict):
                        keys |= {k.value for k in n.keys if isinstance(k, ast.Constant) and isinstance(k.value, str)}
                if "ilocs" in keys and (("icolumns" in keys) == want_icols):
                    cands.append(f)
            if len(cands) == 1:
                f = cands[0]
                f.owner_cls = c
                c.methods["_format_sparse_output"] = f

    def _index_module(self, m: ModuleInfo):
        for st in m.tree.body:
            self._index_stmt(m, st)

    def _index_stmt(self, m, st):
        if isinstance(st, ast.Import):
            for a in st.names:
                local = a.asname or a.name.split(".")[0]
                target = a.name if a.asname else a.name.split(".")[0]
                m.imports[local] = ("mod", target)
        elif isinstance(st, ast.ImportFrom):
            base = st.module or ""
            if st.level:
                pkg_parts = m.name.split(".") if m.is_pkg else m.name.split(".")[:-1]
                if st.level > 1:
                    pkg_parts = pkg_parts[: len(pkg_parts) - (st.level - 1)]
                base = ".".join(pkg_parts + ([st.module] if st.module else []))
            for a in st.names:
                m.imports[a.asname or a.name] = ("attr", base, a.name)
        elif isinstance(st, (ast.FunctionDef, ast.AsyncFunctionDef)):
            f = FuncInfo(f"{m.name}.{st.name}", st.name, st, m, None, _decos(st))
            m.functions[st.name] = f
            self.functions[f.qualname] = f
        elif isinstance(st, ast.ClassDef):
            c = ClassInfo(f"{m.name}.{st.name}", st.name, st, m, list(st.bases))
            for b in st.body:
                if isinstance(b, (ast.FunctionDef, ast.AsyncFunctionDef)):
                    f = FuncInfo(f"{c.qualname}.{b.name}", b.name, b, m, c, _decos(b))
                    c.methods[b.name] = f
                    self.functions[f.qualname] = f
                elif isinstance(b, ast.Assign) and len(b.targets) == 1 and isinstance(b.targets[0], ast.Name):
                    c.attrs[b.targets[0].id] = b.value
                elif isinstance(b, ast.AnnAssign) and isinstance(b.target, ast.Name) and b.value is not None:
                    c.attrs[b.target.id] = b.value
            m.classes[st.name] = c
            self.classes[c.qualname] = c
        elif isinstance(st, ast.Assign):
            for t in st.targets:
                if isinstance(t, ast.Name):
                    m.assigns[t.id] = st.value
        elif isinstance(st, ast.AnnAssign) and isinstance(st.target, ast.Name) and st.value is not None:
            m.assigns[st.target.id] = st.value
        elif isinstance(st, (ast.If, ast.Try)):
            # conditional imports (soft_import): index both arms
            for sub in ast.iter_child_nodes(st):
                if isinstance(sub, ast.stmt):
                    self._index_stmt(m, sub)
                elif isinstance(sub, ast.ExceptHandler):
                    for s2 in sub.body:
                        self._index_stmt(m, s2)

    def add_file(self, modname, path):
        """Index an extra file (a specification written in the analysed subset)."""
        with open(path, "rb") as fh:
            src = fh.read().decode("utf-8")
        tree = ast.parse(src, filename=path)
        m = ModuleInfo(modname, path, os.path.relpath(path), tree, src, False)
        self.modules[modname] = m
        self._index_module(m)
        for c in m.classes.values():
            c.bases = [self._resolve_base(c, b) for b in c.base_exprs]
        return m

    # --------------------------------------------------------------- resolve
    def resolve_name(self, m: ModuleInfo, name: str, _depth=0):
        """-> FuncInfo | ClassInfo | ("module", dotted) | ("external", dotted) | ("const", ModuleInfo, expr) | None"""
        if _depth > 12:
            return None
        if name in m.functions:
            return m.functions[name]
        if name in m.classes:
            return m.classes[name]
        if name in m.imports:
            imp = m.imports[name]
            if imp[0] == "mod":
                return self._module_ref(imp[1])
            _, modname, attr = imp
            return self.resolve_attr_of_module(modname, attr, _depth + 1)
        if name in m.assigns:
            return ("const", m, m.assigns[name])
        return None

    def _module_ref(self, dotted):
        if dotted in self.modules:
            return ("module", dotted)
        return ("external", dotted)

    def resolve_attr_of_module(self, modname, attr, _depth=0):
        if modname in self.modules:
            mm = self.modules[modname]
            r = self.resolve_name(mm, attr, _depth + 1)
            if r is not None:
                return r
            sub = f"{modname}.{attr}"
            if sub in self.modules:
                return ("module", sub)
            return None
        if modname.split(".")[0] == PKG:
            return None
        return ("external", f"{modname}.{attr}")

    def resolve_expr(self, m: ModuleInfo, e: ast.expr):
        """Resolve a Name / dotted Attribute expression used as a reference."""
        if isinstance(e, ast.Name):
            return self.resolve_name(m, e.id)
        if isinstance(e, ast.Attribute):
            base = self.resolve_expr(m, e.value)
            if base is None:
                return None
            if isinstance(base, tuple) and base[0] == "module":
                return self.resolve_attr_of_module(base[1], e.attr)
            if isinstance(base, tuple) and base[0] == "external":
                return ("external", base[1] + "." + e.attr)
            if isinstance(base, ClassInfo):
                f = self.lookup_method(base, e.attr)
                if f is not None:
                    return f
                a = self.lookup_class_attr(base, e.attr)
                if a is not None:
                    return ("const", a[0].module, a[1])
            return None
        return None

    def _resolve_base(self, c: ClassInfo, b: ast.expr):
        r = self.resolve_expr(c.module, b)
        if isinstance(r, ClassInfo):
            return r
        if isinstance(r, tuple) and r[0] == "external":
            return r[1]
        return ast.unparse(b)

    # -------------------------------------------------------------- classes
    def mro(self, c: ClassInfo):
        if c._mro is not None:
            return c._mro
        seqs = []
        for b in c.bases:
            if isinstance(b, ClassInfo):
                seqs.append(list(self.mro(b)))
            else:
                seqs.append([b])
        seqs.append(list(c.bases))
        res = [c]
        seqs = [s for s in seqs if s]
        while seqs:
            cand = None
            for s in seqs:
                h = s[0]
                if not any(_in_tail(h, t) for t in seqs):
                    cand = h
                    break
            if cand is None:
                raise Undecided(f"inconsistent MRO for {c.qualname}")
            res.append(cand)
            seqs = [[x for x in s if not _same(x, cand)] for s in seqs]
            seqs = [s for s in seqs if s]
        c._mro = res
        return res

    def lookup_method(self, c: ClassInfo, name: str):
        for k in self.mro(c):
            if isinstance(k, ClassInfo) and name in k.methods:
                return k.methods[name]
        return None

    def lookup_class_attr(self, c: ClassInfo, name: str):
        for k in self.mro(c):
            if isinstance(k, ClassInfo) and name in k.attrs:
                return k, k.attrs[name]
        return None

    def is_subclass(self, c, base) -> bool:
        if isinstance(base, ClassInfo):
            return any(isinstance(k, ClassInfo) and k.qualname == base.qualname for k in self.mro(c))
        return any((k == base) or (isinstance(k, ClassInfo) and k.qualname == base) for k in self.mro(c))

    def subclasses(self, base: ClassInfo, strict=False):
        out = []
        for c in self.classes.values():
            if self.is_subclass(c, base) and not (strict and c.qualname == base.qualname):
                out.append(c)
        return sorted(out, key=lambda c: c.qualname)

    def external_bases(self, c: ClassInfo):
        return [k for k in self.mro(c) if not isinstance(k, ClassInfo)]

    # ------------------------------------------------------------ registries
    def registry(self, modname: str, listname: str):
        """Evaluate a registry list literal (possibly a + of other registries) to classes."""
        m = self.modules.get(modname)
        if m is None or listname not in m.assigns:
            raise Undecided(f"registry {modname}.{listname} not found")
        return self._eval_registry(m, m.assigns[listname])

    def _eval_registry(self, m, e):
        if isinstance(e, (ast.List, ast.Tuple)):
            out = []
            for el in e.elts:
                r = self.resolve_expr(m, el)
                if isinstance(r, (ClassInfo, FuncInfo)):
                    out.append(r)
                else:
                    raise Undecided(f"registry element {ast.unparse(el)} in {m.name} does not resolve")
            return out
        if isinstance(e, ast.BinOp) and isinstance(e.op, ast.Add):
            return self._eval_registry(m, e.left) + self._eval_registry(m, e.right)
        if isinstance(e, ast.Name):
            r = self.resolve_name(m, e.id)
            if isinstance(r, tuple) and r[0] == "const":
                return self._eval_registry(r[1], r[2])
        raise Undecided(f"registry expression {ast.unparse(e)} in {m.name} not understood")

    # ------------------------------------------------------------- utilities
    def func(self, qualname) -> FuncInfo:
        f = self.functions.get(qualname)
        if f is None and "." in qualname:
            # the function may have moved to another module and be imported back under its name: the anchor is the NAME
            # in that module's namespace, wherever the definition lives
            modname, name = qualname.rsplit(".", 1)
            if modname in self.modules:
                r = self.resolve_attr_of_module(modname, name)
                if isinstance(r, FuncInfo):
                    return r
        if f is None:
            raise Undecided(f"anchor function {qualname} not found")
        return f

    def cls(self, qualname) -> ClassInfo:
        c = self.classes.get(qualname)
        if c is None and "." in qualname:
            modname, name = qualname.rsplit(".", 1)
            if modname in self.modules:
                r = self.resolve_attr_of_module(modname, name)
                if isinstance(r, ClassInfo):
                    return r
        if c is None:
            raise Undecided(f"anchor class {qualname} not found")
        return c

    def public_class(self, pkgmod: str, name: str) -> ClassInfo:
        r = self.resolve_attr_of_module(pkgmod, name)
        if not isinstance(r, ClassInfo):
            raise Undecided(f"public class {pkgmod}.{name} not found")
        return r

    def public_func(self, pkgmod: str, name: str) -> FuncInfo:
        r = self.resolve_attr_of_module(pkgmod, name)
        if not isinstance(r, FuncInfo):
            raise Undecided(f"public function {pkgmod}.{name} not found")
        return r


def _decos(fn):
    out = []
    for d in fn.decorator_list:
        if isinstance(d, ast.Call):
            d = d.func
        if isinstance(d, ast.Name):
            out.append(d.id)
        elif isinstance(d, ast.Attribute):
            out.append(d.attr)
    return out


def _same(a, b):
    if isinstance(a, ClassInfo) and isinstance(b, ClassInfo):
        return a.qualname == b.qualname
    return a is b or (isinstance(a, str) and isinstance(b, str) and a == b)


def _in_tail(h, seq):
    return any(_same(h, x) for x in seq[1:])


_CACHE = {}


def load_program(repo) -> Program:
    repo = os.path.abspath(repo)
    p = Program(repo)
    return p
