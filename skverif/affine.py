"""E5 - affine facts over normal-form atoms and a small Fourier-Motzkin prover.

Constraints are  sum(c_a * a) + c0  >= 0  over atoms treated as integer-valued
variables.  Strict inequalities d < 0 between integer quantities are tightened
to d <= -1.  `entails` decides whether a set of constraints implies another one
by refutation (add the negation, eliminate all variables, look for a
contradiction).  This is a polyhedral abstract domain written in the engine, not
an external solver; it is complete over the rationals and sound over the
integers.
"""

from __future__ import annotations

from fractions import Fraction

from .nf import NF, Atom, as_linear, lift
from .values import Cond


class Lin:
    """c0 + sum coeffs[a]*a  (>= 0 when used as a constraint)"""

    __slots__ = ("c0", "co")

    def __init__(self, c0, co):
        self.c0 = Fraction(c0)
        self.co = {k: Fraction(v) for k, v in co.items() if v != 0}

    @staticmethod
    def of(nf):
        r = as_linear(lift(nf))
        if r is None:
            return None
        c0, lin = r
        return Lin(c0, {a.key: c for a, c in lin.items()})

    def neg(self):
        return Lin(-self.c0, {k: -v for k, v in self.co.items()})

    def add(self, o, k=1):
        co = dict(self.co)
        for a, c in o.co.items():
            co[a] = co.get(a, 0) + k * c
        return Lin(self.c0 + k * o.c0, co)

    def scale(self, k):
        return Lin(self.c0 * k, {a: c * k for a, c in self.co.items()})

    def __repr__(self):
        return " + ".join([f"{c}*{a}" for a, c in self.co.items()] + [str(self.c0)]) + " >= 0"


def ge0(nf):
    """constraint nf >= 0"""
    return Lin.of(nf)


def from_cond(c: Cond, value=True, integer=True):
    """list of Lin constraints (conjunction) equivalent to the condition, or None"""
    if not value:
        c = c.neg()
    t = c.t
    if t[0] == "const":
        return [] if t[1] else [Lin(-1, {})]
    if t[0] == "and":
        a, b = from_cond(t[1], True, integer), from_cond(t[2], True, integer)
        if a is None or b is None:
            return None
        return a + b
    if t[0] == "cmp":
        op, d = t[1], t[2]
        l = Lin.of(d)
        if l is None:
            return None
        if op == "<=0":
            return [l.neg()]
        if op == "<0":
            n = l.neg()
            if integer:
                n = Lin(n.c0 - 1, n.co)  # -d >= 1
                return [n]
            return None  # strict over the reals is not representable
        if op == "==0":
            return [l, l.neg()]
    return None


def _eliminate(cons, var):
    pos, neg, rest = [], [], []
    for c in cons:
        k = c.co.get(var, 0)
        if k > 0:
            pos.append(c)
        elif k < 0:
            neg.append(c)
        else:
            rest.append(c)
    for p in pos:
        for n in neg:
            kp, kn = p.co[var], -n.co[var]
            rest.append(p.scale(kn).add(n.scale(kp)))
    return rest


def satisfiable(cons, limit=4000):
    cons = [c for c in cons if c is not None]
    vars_ = set()
    for c in cons:
        vars_ |= set(c.co)
    for v in sorted(vars_):
        cons = _eliminate(cons, v)
        if len(cons) > limit:
            return True  # give up: assume satisfiable (sound for refutation use)
        # prune trivial
        cons = [c for c in cons if c.co or c.c0 < 0]
    return not any((not c.co) and c.c0 < 0 for c in cons)


def entails(assumptions, goal: Lin, integer=True):
    """assumptions |= goal (goal: Lin >= 0)"""
    if goal is None:
        return False
    g = goal.neg()
    g = Lin(g.c0 - 1, g.co) if integer else g  # not(goal>=0)  <=>  -goal >= 1
    return not satisfiable(list(assumptions) + [g])


def prove_ge(assumptions, lhs, rhs, integer=True):
    """assumptions |= lhs >= rhs  (NF arguments)"""
    return entails(assumptions, Lin.of(lift(lhs) - lift(rhs)), integer)


def prove_gt(assumptions, lhs, rhs):
    return entails(assumptions, Lin.of(lift(lhs) - lift(rhs) - 1))


def prove_eq(assumptions, lhs, rhs):
    return prove_ge(assumptions, lhs, rhs) and prove_ge(assumptions, rhs, lhs)


def facts_of_path(facts, integer=True):
    """affine constraints contributed by the decisions taken on a path"""
    out = []
    for c, v in facts:
        r = from_cond(c, v, integer)
        if r:
            out.extend(r)
    return out


def find_model_hint(cons):
    """very small witness search used only to *describe* an emptiness finding"""
    return None


def dnf_of_cond(c: Cond, val=True):
    """disjunction (list) of conjunctions (lists of Lin >= 0) equivalent over the integers to `c is val`; None if not
    expressible.  any(c)/all(c) are read at the generic element (witness / instance)."""
    if not val:
        c = c.neg()
    t = c.t
    if t[0] == "const":
        return [[]] if t[1] else []
    if t[0] in ("any", "all"):
        return dnf_of_cond(t[1], True)
    if t[0] == "not":
        inner = t[1]
        if inner.t[0] in ("opq",):
            return None
        return dnf_of_cond(inner, False)
    if t[0] == "and":
        a, b = dnf_of_cond(t[1]), dnf_of_cond(t[2])
        if a is None or b is None:
            return None
        return [x + y for x in a for y in b]
    if t[0] == "or":
        a, b = dnf_of_cond(t[1]), dnf_of_cond(t[2])
        if a is None or b is None:
            return None
        return a + b
    if t[0] == "cmp":
        l = Lin.of(t[2])
        if l is None:
            return None
        op = t[1]
        if op == "<=0":
            return [[l.neg()]]
        if op == "<0":
            n_ = l.neg()
            return [[Lin(n_.c0 - 1, n_.co)]]
        if op == "==0":
            return [[l, l.neg()]]
        if op == "!=0":
            n_ = l.neg()
            return [[Lin(l.c0 - 1, l.co)], [Lin(n_.c0 - 1, n_.co)]]
    return None


def path_cases(facts, limit=256):
    """the facts of a path as a disjunction of conjunctions of Lin constraints (dis-equalities and `or` are split);
    facts outside the affine fragment are dropped (the result is then weaker than the path) and reported in the second value"""
    cases = [[]]
    unknown = []
    for c, v in facts:
        d = dnf_of_cond(c, v)
        if d is None:
            unknown.append(c)
            continue
        cases = [x + y for x in cases for y in d]
        if len(cases) > limit:
            break
    return cases, unknown


def split_extremum(nf, kind):
    """affine forms f_1..f_k with  nf == kind(f_1, ..., f_k)  (kind 'min' or 'max'), for nf = affine, or an extremum atom of
    that kind with coefficient +1 plus an affine rest (recursively); None if nf has another shape"""
    from .nf import single_atom as _sa

    nf = lift(nf)
    if as_linear(nf) is not None and not any(a.kind in ("min", "max") for a in as_linear(nf)[1]):
        return [nf]
    lin = as_linear(nf)
    if lin is None:
        return None
    c0, co = lin
    ext = [(a, k) for a, k in co.items() if a.kind in ("min", "max")]
    if len(ext) != 1:
        return None
    a, k = ext[0]
    # k * min(f, g) = min(k f, k g) for k > 0,  = max(k f, k g) for k < 0 (and symmetrically)
    if not ((a.kind == kind and k > 0) or (a.kind != kind and k < 0)):
        return None
    rest = nf - NF.atom(a) * k
    out = []
    for arg in a.args:
        sub = split_extremum(lift(arg) * k + rest, kind)
        if sub is None:
            return None
        out.extend(sub)
    return out


def range_constraints(v, lo, hi):
    """Lin constraints equivalent to  lo <= v <= hi - 1  for integer v, with min(...) allowed in hi and max(...) in lo;
    None if a bound has another shape"""
    ups = split_extremum(hi, "min")
    lows = split_extremum(lo, "max")
    if ups is None or lows is None:
        return None
    out = []
    for u in ups:
        l = Lin.of(u - 1 - lift(v))
        if l is None:
            return None
        out.append(l)
    for w in lows:
        l = Lin.of(lift(v) - w)
        if l is None:
            return None
        out.append(l)
    return out
