"""Symbolic values of the executor (E3/E3s): numbers/arrays with a normal form and a
symbolic shape, conditions, containers, objects, references."""

from __future__ import annotations

from fractions import Fraction

from .nf import NF, Atom, Undecided, app, keyof, lift, nf_equal, sym


class Val:
    pass


# ----------------------------------------------------------------- conditions


class Cond:
    """Boolean expression tree.
    ('cmp', op, nf)   op in {'<0','<=0','==0','!=0'}    meaning  nf op
    ('and', a, b) ('or', a, b) ('not', a) ('const', bool) ('opq', key)
    ('all', c) ('any', c)  - reductions of an elementwise condition
    """

    __slots__ = ("t", "key")

    def __init__(self, *t):
        self.t = t
        self.key = "C" + keyof(tuple(x.key if isinstance(x, Cond) else x for x in t))

    @staticmethod
    def const(b):
        return Cond("const", bool(b))

    @staticmethod
    def cmp(op, lhs: NF, rhs: NF):
        d = lift(lhs) - lift(rhs)
        if op == "<":
            return Cond._norm("<0", d)
        if op == "<=":
            return Cond._norm("<=0", d)
        if op == ">":
            return Cond._norm("<0", -d)
        if op == ">=":
            return Cond._norm("<=0", -d)
        if op == "==":
            return Cond._norm("==0", d)
        if op == "!=":
            return Cond._norm("!=0", d)
        raise Undecided(f"comparison operator {op}")

    @staticmethod
    def _norm(op, d: NF):
        c = d.as_const()
        if c is not None:
            if op == "<0":
                return Cond.const(c < 0)
            if op == "<=0":
                return Cond.const(c <= 0)
            if op == "==0":
                return Cond.const(c == 0)
            return Cond.const(c != 0)
        d = d.reduced()
        if op in ("==0", "!=0"):
            # canonical sign
            from .nf import p_lead

            _, lc = p_lead(d.num)
            if lc < 0:
                d = -d
        return Cond("cmp", op, d)

    def is_const(self):
        return self.t[0] == "const"

    def value(self):
        return self.t[1]

    def __and__(self, o):
        if self.is_const():
            return o if self.value() else self
        if o.is_const():
            return self if o.value() else o
        return Cond("and", self, o)

    def __or__(self, o):
        if self.is_const():
            return self if self.value() else o
        if o.is_const():
            return o if o.value() else self
        return Cond("or", self, o)

    def neg(self):
        t = self.t
        if t[0] == "const":
            return Cond.const(not t[1])
        if t[0] == "not":
            return t[1]
        if t[0] == "cmp":
            op, d = t[1], t[2]
            if op == "<0":
                return Cond._norm("<=0", -d)
            if op == "<=0":
                return Cond._norm("<0", -d)
            if op == "==0":
                return Cond("cmp", "!=0", d)
            if op == "!=0":
                return Cond("cmp", "==0", d)
        if t[0] == "and":
            return t[1].neg() | t[2].neg()
        if t[0] == "or":
            return t[1].neg() & t[2].neg()
        if t[0] == "all":
            return Cond("any", t[1].neg())
        if t[0] == "any":
            return Cond("all", t[1].neg())
        return Cond("not", self)

    def __repr__(self):
        t = self.t
        if t[0] == "cmp":
            return f"{t[2]!r} {t[1][:-1]} 0"
        if t[0] in ("and", "or"):
            return f"({t[1]!r} {t[0]} {t[2]!r})"
        if t[0] == "not":
            return f"not {t[1]!r}"
        if t[0] in ("all", "any"):
            return f"{t[0]}({t[1]!r})"
        return str(t[1])


# --------------------------------------------------------------------- values


class Num(Val):
    """A number or an ndarray / pandas object abstracted elementwise.

    nf      normal form of the generic element
    shape   tuple of NF dims, () for scalars, None if unknown
    dtype   'int' | 'float' | 'bool' | None
    pytype  'number' | 'ndarray' | 'frame' | 'series' | 'index'
    arr     ArrObj when the value is (a view of) a mutable allocated array
    cond    Cond when dtype == 'bool'
    """

    __slots__ = ("nf", "shape", "dtype", "pytype", "arr", "cond", "meta")

    def __init__(self, nf, shape=(), dtype=None, pytype=None, arr=None, cond=None, meta=None):
        self.nf = lift(nf) if nf is not None else None
        self.shape = shape
        self.dtype = dtype
        self.pytype = pytype or ("number" if shape == () else "ndarray")
        self.arr = arr
        self.cond = cond
        self.meta = meta or {}

    def with_(self, **kw):
        d = dict(nf=self.nf, shape=self.shape, dtype=self.dtype, pytype=self.pytype, arr=self.arr, cond=self.cond, meta=dict(self.meta))
        d.update(kw)
        return Num(**d)

    @property
    def ndim(self):
        return None if self.shape is None else len(self.shape)

    def __repr__(self):
        sh = "?" if self.shape is None else "(" + ",".join(repr(d) for d in self.shape) + ")"
        if self.cond is not None:
            return f"Num<{self.cond!r} {sh}>"
        return f"Num<{self.nf!r} {sh}>"


class NoneV(Val):
    def __repr__(self):
        return "None"


NONE = NoneV()


class StrV(Val):
    def __init__(self, s=None, key=None):
        self.s = s  # concrete string or None (opaque)
        self.key = key or (repr(s) if s is not None else "str?")

    def __repr__(self):
        return f"Str({self.key})"


class TupleV(Val):
    def __init__(self, items):
        self.items = list(items)

    def __repr__(self):
        return "(" + ", ".join(map(repr, self.items)) + ")"


class ListV(Val):
    """Python list with identity.  `opaque` = contents unknown (havocked in a loop)."""

    _n = 0

    def __init__(self, items=(), opaque=False, lid=None, elem=None):
        self.items = list(items)
        self.opaque = opaque
        self.lid = lid
        self.elem = elem  # generic element when opaque

    def __repr__(self):
        return ("List?" if self.opaque else "List") + f"#{self.lid}[" + ", ".join(map(repr, self.items)) + "]"


class DictV(Val):
    def __init__(self, items):
        self.items = items  # list of (keyval, val)


class RangeV(Val):
    def __init__(self, lo, hi, step):
        self.lo, self.hi, self.step = lo, hi, step

    def __repr__(self):
        return f"range({self.lo!r},{self.hi!r},{self.step!r})"


class SliceV(Val):
    def __init__(self, lo, hi, step):
        self.lo, self.hi, self.step = lo, hi, step


class ObjV(Val):
    """Instance of a repository class (cls) or of a declared abstract role."""

    def __init__(self, cls, key, fields=None, abstract=False, role=None):
        self.cls = cls
        self.key = key
        self.fields = fields if fields is not None else {}
        self.abstract = abstract
        self.role = role
        self.meta = {}

    def __repr__(self):
        return f"Obj<{self.cls.name if self.cls else '?'}:{self.key}>"


class FuncV(Val):
    def __init__(self, func, self_obj=None):
        self.func = func
        self.self_obj = self_obj

    def __repr__(self):
        return f"Func<{self.func.qualname}>"


class ClassV(Val):
    def __init__(self, cls):
        self.cls = cls

    def __repr__(self):
        return f"Class<{self.cls.qualname}>"


class ExtV(Val):
    """Reference into an external library (numpy, pandas, scipy, numbers, ...)."""

    def __init__(self, dotted):
        self.dotted = dotted

    def __repr__(self):
        return f"Ext<{self.dotted}>"


class ModV(Val):
    def __init__(self, name):
        self.name = name


class ClosureV(Val):
    def __init__(self, node, env, func, name):
        self.node = node
        self.env = env
        self.func = func  # enclosing FuncInfo
        self.name = name


class BoundExt(Val):
    """A method of a symbolic value: (receiver, method name)."""

    def __init__(self, recv, name):
        self.recv = recv
        self.name = name

    def __repr__(self):
        return f"Bound<{self.recv!r}.{self.name}>"


class OpaqueV(Val):
    def __init__(self, key, meta=None):
        self.key = key
        self.meta = meta or {}

    def __repr__(self):
        return f"Opaque<{self.key}>"


# ---------------------------------------------------------------- array heap


class ArrObj:
    """A mutable array allocated by the analysed code.

    init   ('zeros',) | ('fill', nf) | ('concat', [Num...]) | ('copy', Num) | ('param', name) | ('opaque', key)
    """

    def __init__(self, aid, init, shape, dtype, node, func):
        self.aid = aid
        self.init = init
        self.shape = shape
        self.dtype = dtype
        self.node = node
        self.func = func
        self.stores = []  # list of Event
        self.epoch = 0
        self.escaped = False

    def __repr__(self):
        return f"Arr#{self.aid}"


def dim_eq(a, b):
    if a is None or b is None:
        return False
    return nf_equal(lift(a), lift(b))


def is_one(d):
    c = lift(d).as_const()
    return c is not None and c == 1


def valkey(v) -> str:
    """Stable key of a value (for value numbering of opaque applications)."""
    if isinstance(v, Num):
        if v.cond is not None:
            return v.cond.key
        return v.nf.key
    if isinstance(v, NoneV):
        return "None"
    if isinstance(v, StrV):
        return v.key
    if isinstance(v, (TupleV, ListV)):
        return "(" + ",".join(valkey(x) for x in v.items) + ")"
    if isinstance(v, ObjV):
        return "obj:" + v.key
    if isinstance(v, FuncV):
        return "fn:" + v.func.qualname
    if isinstance(v, ClassV):
        return "cls:" + v.cls.qualname
    if isinstance(v, ExtV):
        return "ext:" + v.dotted
    if isinstance(v, OpaqueV):
        return "opq:" + v.key
    if isinstance(v, RangeV):
        return f"range({valkey(v.lo)},{valkey(v.hi)},{valkey(v.step)})"
    if isinstance(v, SliceV):
        return f"slice({valkey(v.lo)},{valkey(v.hi)},{valkey(v.step)})"
    if isinstance(v, ClosureV):
        return f"closure:{v.name}"
    if isinstance(v, BoundExt):
        return f"bound:{valkey(v.recv)}.{v.name}"
    if isinstance(v, DictV) and getattr(v, "comp", None) is not None:
        return "{" + valkey(v.comp["key"]) + ":" + valkey(v.comp["value"]) + " for elem(" + valkey(v.comp["iter"]) + ")}"
    if isinstance(v, DictV):
        return "{" + ",".join(valkey(k) + ":" + valkey(x) for k, x in v.items) + "}"
    if v is None:
        return "none"
    return repr(v)
