"""Homogeneity degree of a normal form in one atom (rule SCALE-LINEAR)."""

from __future__ import annotations

from fractions import Fraction

from .nf import NF, Atom, poly_of_P

LINEAR_OPS = {"cumsum", "diff", "sum", "idx", "col", "vec", "concat", "colstack", "rows", "T", "repeat", "colslice", "rowslice", "prefix0", "prefix", "sumlist", "mean", "quantile", "maxall", "minall"}
ANY = "any"  # the zero expression has every degree


def degree(x, target_key):
    """Fraction d if x is homogeneous of degree d in the atom, ANY for 0, None otherwise."""
    if isinstance(x, NF):
        dn = _poly_degree(x.num, target_key)
        dd = _poly_degree(x.den, target_key)
        if dn is None or dd is None:
            return None
        if dn == ANY:
            return ANY
        if dd == ANY:
            return None
        return dn - dd
    if isinstance(x, Atom):
        return _atom_degree(x, target_key)
    return Fraction(0)


def _poly_degree(p, tk):
    if not p:
        return ANY
    deg = None
    for m in p:
        d = Fraction(0)
        zero_term = False
        for a, e in m:
            ad = _atom_degree(a, tk)
            if ad is None:
                return None
            if ad == ANY:
                zero_term = True  # a linear operator applied to 0: the term vanishes
                break
            d += ad * e
        if zero_term:
            continue
        if deg is None:
            deg = d
        elif deg != d:
            return None
    return deg if deg is not None else ANY


def _join(ds):
    cur = ANY
    for d in ds:
        if d is None:
            return None
        if d == ANY:
            continue
        if cur == ANY:
            cur = d
        elif cur != d:
            return None
    return cur


def _args_degrees(args, tk):
    out = []
    for a in args:
        if isinstance(a, (NF, Atom)):
            out.append(degree(a, tk))
        elif isinstance(a, (tuple, list)):
            out.extend(_args_degrees(a, tk))
    return out


def _atom_degree(a: Atom, tk):
    if a.key == tk:
        return Fraction(1)
    k = a.kind
    if k in ("sym", "Q", "logq", "lv", "lc", "arr", "ge"):
        return Fraction(0)
    if k == "P":
        d = _poly_degree(poly_of_P(a), tk)
        return d
    if k == "log":
        d = _atom_degree(a.args[0], tk)
        if d is None or (d != ANY and d != 0):
            return None
        return Fraction(0)
    if k == "abs":
        return degree(a.args[0], tk)
    if k in ("max", "min"):
        return _join(_args_degrees(a.args, tk))
    if k == "app":
        fname = a.args[0]
        ds = _args_degrees(a.args[1:], tk)
        if fname in LINEAR_OPS:
            if fname in ("idx", "col", "colslice", "rowslice", "repeat"):
                # only the first argument carries the value, the rest are positions
                first = [x for x in a.args[1:2] if isinstance(x, (NF, Atom))]
                rest = _args_degrees(a.args[2:], tk)
                if any(d is None or (d != ANY and d != 0) for d in rest):
                    return None
                return degree(first[0], tk) if first else Fraction(0)
            return _join(ds)
        if any(d is None or (d != ANY and d != 0) for d in ds):
            return None
        return Fraction(0)
    return Fraction(0)
