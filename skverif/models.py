"""Library model table (DESIGN Appendix C): numpy / pandas / scipy / sktime / builtins.

Each model states the documented behaviour it encodes.  A call into a library
function that has no model returns an OpaqueV and emits an 'unmodelled' event;
when such a value reaches a normal form a rule depends on, the rule reports
UNDECIDED (never a silent pass).
"""

from __future__ import annotations

import ast
import os
from fractions import Fraction

from .nf import (
    NF,
    Atom,
    Undecided,
    app,
    lift,
    nf_abs,
    nf_equal,
    nf_log,
    nf_max,
    nf_min,
    nf_sqrt,
    single_atom,
    sym,
)
from .values import (
    NONE,
    ArrObj,
    BoundExt,
    ClassV,
    ClosureV,
    Cond,
    DictV,
    ExtV,
    FuncV,
    ListV,
    ModV,
    NoneV,
    Num,
    ObjV,
    OpaqueV,
    RangeV,
    SliceV,
    StrV,
    TupleV,
    valkey,
)

PI = NF.atom(Atom("sym", "pi"))
INF = NF.atom(Atom("sym", "inf"))
NAN = NF.atom(Atom("sym", "nan"))

ALIASES = {"np": "numpy", "pd": "pandas"}


def norm_dotted(d):
    return d


def cint(v):
    """constant int value of a Num or None"""
    if isinstance(v, Num) and v.cond is None and v.nf is not None:
        c = v.nf.as_const()
        if c is not None and c.denominator == 1:
            return int(c)
    return None


def num(nf, shape=(), dtype=None, pytype=None, **meta):
    return Num(nf, shape, dtype, pytype, meta=meta or None)


def scalar_int(n):
    return Num(NF.const(n), (), "int")


# ------------------------------------------------------------------ constants


def ext_constant(ex, dotted):
    if dotted == "numpy.pi":
        return Num(PI, (), "float")
    if dotted == "numpy.inf":
        return Num(INF, (), "float")
    if dotted == "numpy.nan":
        return Num(NAN, (), "float")
    return None


# --------------------------------------------------------------- containment


def contains(ex, container, item, node):
    if isinstance(container, OpaqueV) and container.meta.get("kind") == "interval":
        lo, hi, closed = container.meta["lo"], container.meta["hi"], container.meta["closed"]
        if isinstance(item, Num) and isinstance(lo, Num) and isinstance(hi, Num):
            lc = Cond.cmp(">=" if closed in ("left", "both") else ">", item.nf, lo.nf)
            hc = Cond.cmp("<=" if closed in ("right", "both") else "<", item.nf, hi.nf)
            return lc & hc
    return None


# ----------------------------------------------------------------- attributes


def obj_attr(ex, obj: ObjV, attr, node):
    if attr == "is_fitted":
        v = obj.fields.get("_is_fitted")
        if v is not None:
            return v
        return Num(None, (), "bool", cond=Cond("opq", f"is_fitted({obj.key})"))
    if attr == "__class__":
        return ClassV(obj.cls) if obj.cls else OpaqueV(f"type({obj.key})")
    return None


def num_attr(ex, v: Num, attr, node):
    if attr == "shape":
        if v.shape is None:
            return OpaqueV(f"shape({valkey(v)})", {"kind": "shape", "of": v})
        return TupleV([Num(d, (), "int", meta={"kind": "COUNT"}) for d in v.shape])
    if attr == "ndim":
        if v.shape is None:
            return Num(app("ndim", v.nf), (), "int")
        return scalar_int(len(v.shape))
    if attr == "size":
        if v.shape is None:
            return Num(app("size", v.nf), (), "int")
        r = NF.const(1)
        for d in v.shape:
            r = r * lift(d)
        return Num(r, (), "int", meta={"kind": "SIZE"})
    if attr == "T":
        if v.shape is not None and len(v.shape) == 2:
            return ex.mk("T", v.nf, shape=(v.shape[1], v.shape[0]), dtype=v.dtype)
        return v
    if attr == "values":
        return Num(v.nf, v.shape, v.dtype, "ndarray", arr=v.arr, cond=v.cond, meta={"alias_of": v})
    if attr == "dtype":
        return OpaqueV(f"dtype({valkey(v)})", {"kind": "dtype", "of": v})
    if attr in ("index", "columns"):
        n = None
        if v.shape is not None and len(v.shape) >= 1:
            n = v.shape[0] if attr == "index" else (v.shape[1] if len(v.shape) > 1 else NF.const(1))
        r = Num(app(attr, v.nf if v.nf is not None else (v.cond.key if v.cond is not None else "?")), (n,) if n is not None else None, None, "index", meta={"kind": "LABEL", "of": v})
        ex.register_atom(r.nf, r.shape)
        return r
    if attr in ("iloc", "loc", "at", "iat"):
        return OpaqueV(f"{attr}({valkey(v)})", {"kind": attr, "of": v})
    if attr == "array":
        return Num(v.nf, v.shape, v.dtype, "ndarray", meta={"alias_of": v, "array": True})
    if attr in ("left", "right", "closed", "name", "names", "str", "dt"):
        return OpaqueV(f"{attr}({valkey(v)})", {"kind": attr, "of": v})
    if attr in ("real",):
        return v
    return None


def is_label(v):
    return isinstance(v, Num) and v.meta.get("kind") == "LABEL"


def watch_labels(ex, fv, args, kwargs, node):
    """KIND rule: a value of kind LABEL (an index handed in by the caller) may only flow into
    len() and into the index= argument of a pandas constructor; anything else is recorded."""
    lab_pos = [i for i, a in enumerate(args) if is_label(a)]
    lab_kw = [k for k, a in kwargs.items() if is_label(a)]
    if isinstance(fv, BoundExt) and is_label(fv.recv) and fv.name in LABEL_LOOKUPS:
        # positions (or anything else) looked up IN the labels: `columns.get_indexer(icolumns)` treats positions as labels
        ex.emit("label_use", node, callee=f"{valkey(fv.recv)[:60]}.{fv.name}", args=[valkey(a)[:40] for a in args])
        return
    if not lab_pos and not lab_kw:
        return
    if isinstance(fv, (FuncV, ClassV, ClosureV)):
        return  # flows into repository code, which is analysed itself
    if isinstance(fv, ExtV) and fv.dotted == "pandas.Index" and lab_pos == [0] and not lab_kw:
        return  # pd.Index(labels): the same labels
    name = fv.dotted if isinstance(fv, ExtV) else (f"{valkey(fv.recv)[:60]}.{fv.name}" if isinstance(fv, BoundExt) else valkey(fv)[:80])
    if isinstance(fv, ExtV) and fv.dotted in ("builtins.len", "builtins.isinstance", "builtins.type"):
        return
    if isinstance(fv, ExtV) and fv.dotted in ("pandas.DataFrame", "pandas.Series"):
        if lab_kw == ["index"] and not lab_pos:
            return
        if lab_pos == [1] and not lab_kw:
            return
    ex.emit("label_use", node, callee=name, args=[valkey(a)[:40] for a in args])


LABEL_LOOKUPS = {"get_indexer", "get_indexer_for", "get_indexer_non_unique", "get_loc", "isin", "searchsorted", "slice_indexer", "slice_locs", "reindex", "intersection", "difference", "union", "map"}
RAW_COMMON_ATTRS = {"shape", "ndim"}  # available on ndarray, Series and DataFrame alike


def is_raw(v):
    return isinstance(v, OpaqueV) and v.meta.get("kind") == "raw"


def contains_raw(v):
    if is_raw(v):
        return True
    if isinstance(v, (ListV, TupleV)):
        return any(contains_raw(x) for x in v.items)
    return False


def opaque_attr(ex, v: OpaqueV, attr, node):
    if v.meta.get("kind") == "raw":
        if attr == "shape":
            return OpaqueV(f"shape({v.key})", {"kind": "rawshape", "of": v})
        if attr == "ndim":
            return Num(app("ndim", v.key), (), "int")
        ex.emit("raw_use", node, what=f".{attr}", value=v)
        return OpaqueV(f"{v.key}.{attr}", {"recv": v, "attr": attr})
    if v.meta.get("kind") == "interval":
        if attr == "left":
            return v.meta["lo"]
        if attr == "right":
            return v.meta["hi"]
        if attr == "closed":
            return StrV(v.meta["closed"])
    return None


def opaque_getitem(ex, base, idx, node):
    if isinstance(base, OpaqueV) and base.meta.get("kind") == "rawshape":
        c = cint(idx[0]) if idx and isinstance(idx[0], Num) else None
        if c == 0:
            return Num(sym("n"), (), "int", meta={"kind": "COUNT"})
        # shape[k], k >= 1, of the un-normalised argument: a 1-D array / a Series has no second dimension (IndexError)
        ex.emit("raw_use", node, what=f".shape[{c if c is not None else '?'}] (a univariate series or 1-D array has one dimension only)", value=base.meta.get("of"))
        return Num(app("dim", base.key, c if c is not None else valkey(idx[0])), (), "int")
    if is_raw(base):
        ex.emit("raw_use", node, what="[...] subscript", value=base)
        return OpaqueV(f"{base.key}[...]")
    if isinstance(base, OpaqueV) and base.meta.get("kind") in ("iloc",):
        of = base.meta["of"]
        if isinstance(of, Num):
            r = index_num(ex, of, idx, node)
            if isinstance(r, Num):
                r.meta["positional"] = True
            return r
    return None


# ------------------------------------------------------------------- indexing


def _dim(shape, i):
    if shape is None or i >= len(shape):
        return None
    return lift(shape[i])


def slice_bounds(s: SliceV, dimlen):
    """(lo, hi, step) as NFs; negative constant bounds are counted from the end."""
    step = NF.const(1) if isinstance(s.step, NoneV) else (s.step.nf if isinstance(s.step, Num) and s.step.nf is not None else app("opq", valkey(s.step)))
    sc = step.as_const()

    def fix(b, default):
        if isinstance(b, NoneV):
            return default
        if not isinstance(b, Num) or b.nf is None:
            return app("opq", valkey(b))
        c = b.nf.as_const()
        if c is not None and c < 0 and dimlen is not None:
            return dimlen + c
        return b.nf

    if sc is not None and sc < 0:
        lo = fix(s.lo, (dimlen - 1) if dimlen is not None else None)
        hi = fix(s.hi, NF.const(-1))
    else:
        lo = fix(s.lo, NF.const(0))
        hi = fix(s.hi, dimlen)
    return lo, hi, step


def index_num(ex, base: Num, idx, node):
    shape = base.shape
    # x[..., k]: the Ellipsis stands for as many full slices as are needed to address every axis
    if any(isinstance(c, OpaqueV) and c.key == "..." for c in idx):
        if shape is None or sum(1 for c in idx if isinstance(c, OpaqueV) and c.key == "...") != 1:
            raise Undecided("Ellipsis in the subscript of an array of unknown rank", node)
        n_fill = len(shape) - (len(idx) - 1)
        if n_fill < 0:
            raise Undecided("too many indices", node)
        full = SliceV(NONE, NONE, NONE)
        new_idx = []
        for c in idx:
            if isinstance(c, OpaqueV) and c.key == "...":
                new_idx.extend([full] * n_fill)
            else:
                new_idx.append(c)
        idx = new_idx
    # an element of a broadcast scalar (np.asarray(number).reshape(-1), np.full(k, number)): the scalar itself
    if base.nf is not None and base.arr is None and base.cond is None and shape is not None and len(idx) == len(shape) and idx and all(isinstance(c, Num) and c.shape == () and c.cond is None and c.dtype != "bool" for c in idx):
        from .nf import atoms_of as _atoms_of

        ats = _atoms_of(base.nf, deep=False).values()
        if ats and all(ex.atom_shapes.get(x.key) == () for x in ats):
            return Num(base.nf, (), base.dtype)
    # a COLSTACK projected on columns
    a = single_atom(base.nf) if base.nf is not None else None
    if base.cond is not None and base.nf is None:
        # indexing a boolean array: keep it a boolean with opaque condition
        key = valkey(base) + "[" + ",".join(valkey(i) for i in idx) + "]"
        return Num(None, None, "bool", cond=Cond("opq", key))
    if len(idx) == 2 and isinstance(idx[0], SliceV) and _is_full(idx[0]):
        col = idx[1]
        rows = _dim(shape, 0)
        if isinstance(col, Num) and col.cond is None and (col.shape == () or col.shape is None):
            return _column(ex, base, col, rows, node)
        if isinstance(col, (ListV, TupleV)) and not getattr(col, "opaque", False):
            cols = [_column(ex, base, c, rows, node) for c in col.items]
            return colstack(ex, cols, node)
        if isinstance(col, SliceV):
            ncols = _dim(shape, 1)
            lo, hi, st = slice_bounds(col, ncols)
            clo, chi, cst = lo.as_const(), (hi.as_const() if hi is not None else None), st.as_const()
            if clo is not None and chi is not None and cst == 1 and chi - clo <= 8:
                cols = [_column(ex, base, scalar_int(int(j)), rows, node) for j in range(int(clo), int(chi))]
                return colstack(ex, cols, node)
            r = ex.mk("colslice", base.nf, lo, hi, st, shape=(rows, hi - lo if hi is not None else None) if rows is not None else None)
            return r
    out_shape = []
    parts = []
    axis = 0
    nd = len(shape) if shape is not None else None
    for comp in idx:
        d = _dim(shape, axis)
        if isinstance(comp, SliceV):
            if _is_full(comp):
                out_shape.append(d)
                parts.append("full")
            else:
                lo, hi, st = slice_bounds(comp, d)
                parts.append(("slice", lo, hi, st))
                if hi is None or lo is None:
                    out_shape.append(None)
                else:
                    stc = st.as_const()
                    if stc == 1:
                        out_shape.append(hi - lo)
                    elif stc == -1:
                        out_shape.append(lo - hi)
                    else:
                        out_shape.append(app("slicelen", lo, hi, st))
            axis += 1
        elif isinstance(comp, Num):
            if comp.cond is not None or comp.dtype == "bool" or comp.meta.get("boolarr"):
                k = valkey(comp)
                cnt = app("count", k)
                parts.append(("mask", k))
                out_shape.append(cnt)
                ex.set_meta(cnt, mask=comp)
                axis += max(1, len(comp.shape) if comp.shape else 1)
            elif comp.shape == ():
                parts.append(("at", comp.nf))
                axis += 1
            elif comp.shape is None:
                parts.append(("at?", comp.nf))
                out_shape.append(None)
                axis += 1
            else:
                parts.append(("gather", comp.nf))
                out_shape.extend(comp.shape)
                axis += 1
        elif isinstance(comp, (ListV, TupleV)) and not getattr(comp, "opaque", False) and comp.items and all(isinstance(x, StrV) for x in comp.items):
            ex.emit("name_access", node, base=base, name=comp.items[0])
            return OpaqueV(f"{valkey(base)}[{valkey(comp)}]", {"kind": "frame", "by_name": comp})
        elif isinstance(comp, (ListV, TupleV)) and not getattr(comp, "opaque", False):
            parts.append(("gatherlist", tuple(valkey(x) for x in comp.items)))
            out_shape.append(NF.const(len(comp.items)))
            axis += 1
        elif isinstance(comp, NoneV):
            parts.append("newaxis")
            out_shape.append(NF.const(1))
        elif isinstance(comp, StrV):
            ex.emit("name_access", node, base=base, name=comp)
            return OpaqueV(f"{valkey(base)}[{comp.key}]", {"kind": "series", "by_name": comp})
        elif isinstance(comp, OpaqueV):
            parts.append(("opq", comp.key))
            out_shape.append(None)
            axis += 1
        elif isinstance(comp, ListV):
            parts.append(("gatherlist?", valkey(comp)))
            out_shape.append(None)
            axis += 1
        else:
            raise Undecided(f"index component {comp!r}", node)
    if shape is not None:
        out_shape.extend(shape[axis:])
        res_shape = None if any(x is None for x in out_shape) else tuple(out_shape)
    else:
        res_shape = None
    # value
    c = base.nf.as_const() if base.nf is not None else None
    if c is not None and base.arr is None:
        return Num(base.nf, res_shape, base.dtype)
    if base.arr is not None:
        fwd = _forward_store(ex, base.arr, idx, res_shape)
        if fwd is not None:
            return fwd
        if not base.arr.stores and base.arr.epoch == 0 and base.arr.init[0] in ("zeros", "fill"):
            nf0 = NF.const(0) if base.arr.init[0] == "zeros" else base.arr.init[1]
            return Num(nf0, res_shape, base.dtype)
        if base.arr.init[0] == "concat" and not base.arr.stores and base.arr.epoch == 0:
            r = _concat_read(ex, base.arr, idx, res_shape)
            if r is not None:
                return r
    if len(parts) == 1 and parts[0] == "full":
        return base
    comp = _compose_index(ex, base, parts, res_shape, node)
    if comp is not None:
        return comp
    ar = base.meta.get("arange")
    if ar is None and base.nf is not None:
        a0 = single_atom(base.nf)
        if a0 is not None and a0.kind == "app" and a0.args[0] == "arange":
            ar = (a0.args[1], a0.args[2], NF.const(1))
    if ar is not None and ar[2].as_const() == 1 and len(parts) >= 1 and isinstance(parts[0], tuple) and parts[0][0] == "at" and all(p == "full" or (isinstance(p, tuple) and p[0] == "at" and p[1].as_const() == 0) for p in parts[1:]):
        # element i of arange(lo, hi) is lo + i
        r = Num(ar[0] + parts[0][1], res_shape, "int")
        r.meta["arange_elem"] = (ar, parts[0][1])
        return r
    key = tuple(_pkey(p) for p in parts)
    r = ex.mk("idx", ex.cur_nf(base), key, shape=res_shape, dtype=base.dtype)
    r.meta["index_of"] = base
    r.meta["index"] = idx
    ex.set_meta(r.nf, base=base, index=idx, parts=parts)
    ex.emit("read", node, base=base, index=idx, parts=parts, result=r)
    return r


def _compose_index(ex, base: Num, parts, res_shape, node):
    """Canonical element access: cuts[i][j], cuts[i, j], cuts[:, j][i] and
    cuts[i][lo:hi][j] all denote idx(col(cuts, j'), at i)."""
    a = single_atom(ex.cur_nf(base)) if base.nf is not None else None
    # direct (at i, at j) on a 2-D array
    if len(parts) == 2 and all(isinstance(p, tuple) and p[0] == "at" for p in parts) and base.shape is not None and len(base.shape) == 2:
        colv = _column(ex, base, Num(parts[1][1], (), "int"), base.shape[0], node)
        return index_num(ex, colv, [Num(parts[0][1], (), "int")], node)
    if a is not None and a.kind == "app" and a.args[0] == "rowslice" and len(parts) == 1 and isinstance(parts[0], tuple) and parts[0][0] == "at":
        inner_base, i_nf, lo, hi = ex.atom_meta[a.key]["rowslice"]
        colv = _column(ex, inner_base, Num(lo + parts[0][1], (), "int"), inner_base.shape[0], node)
        return index_num(ex, colv, [Num(i_nf, (), "int")], node)
    if a is None or a.kind != "app" or a.args[0] != "idx":
        return None
    inner_nf, inner_parts = a.args[1], a.args[2]
    meta = ex.atom_meta.get(a.key, {})
    inner_base = meta.get("base")
    if not isinstance(inner_base, Num):
        return None
    if len(parts) != 1 or not isinstance(parts[0], tuple):
        return None
    p = parts[0]
    ib_shape = inner_base.shape
    # row i of a 2-D array, then element j  -> canonical column form
    if len(inner_parts) == 1 and inner_parts[0][0] == "at" and ib_shape is not None and len(ib_shape) == 2:
        i_nf = inner_parts[0][1]
        if p[0] == "at":
            colv = _column(ex, inner_base, Num(p[1], (), "int"), ib_shape[0], node)
            return index_num(ex, colv, [Num(i_nf, (), "int")], node)
        if p[0] == "slice" and p[3].as_const() == 1:
            r = ex.mk("rowslice", inner_nf, i_nf, p[1], p[2], shape=res_shape, dtype=base.dtype)
            ex.set_meta(r.nf, rowslice=(inner_base, i_nf, p[1], p[2]))
            return r
    # slice lo:hi of a 1-D array, then element j -> element lo + j
    if len(inner_parts) == 1 and inner_parts[0][0] == "slice" and inner_parts[0][3].as_const() == 1 and p[0] == "at" and ib_shape is not None and len(ib_shape) == 1:
        lo = inner_parts[0][1]
        return index_num(ex, inner_base, [Num(lo + p[1], (), "int")], node)
    return None


def _pkey(p):
    if isinstance(p, tuple):
        return tuple(p)
    return p


def _is_full(s: SliceV):
    return isinstance(s.lo, NoneV) and isinstance(s.hi, NoneV) and isinstance(s.step, NoneV)


def _column(ex, base: Num, col: Num, rows, node):
    a = single_atom(ex.cur_nf(base))
    j = cint(col)
    if a is not None and a.kind == "app" and a.args[0] == "colstack" and j is not None:
        cols = a.args[1]
        if -len(cols) <= j < len(cols):
            nf = cols[j]
            return Num(nf, (rows,) if rows is not None else None, base.dtype)
        ex.emit("index_error", node, what=f"column {j} of a {len(cols)}-column stack")
        raise Undecided(f"column {j} out of range of a column stack", node)
    ncols = _dim(base.shape, 1)
    if j is not None and j < 0 and ncols is not None and ncols.as_const() is not None:
        j = int(ncols.as_const()) + j
        col = scalar_int(j)
    # column j of the differences along the rows of a matrix: A[:, j+1] - A[:, j]
    if a is not None and a.kind == "app" and a.args[0] == "diff" and len(a.args) >= 5 and a.args[4] in (1, -1) and isinstance(a.args[2], str) and isinstance(a.args[3], str) and j is not None and j >= 0:
        src = base.meta.get("diff_of")
        if isinstance(src, Num) and src.shape is not None and len(src.shape) == 2:
            c1 = _column(ex, src, scalar_int(j + 1), rows, node)
            c0 = _column(ex, src, scalar_int(j), rows, node)
            return Num(c1.nf - c0.nf, (rows,) if rows is not None else None, base.dtype)
    r = ex.mk("col", ex.cur_nf(base), col.nf, shape=(rows,) if rows is not None else None, dtype=base.dtype)
    r.meta["col_of"] = base
    if base.arr is not None:
        r.meta["view_of"] = base.arr
    return r


def colstack(ex, cols, node):
    rows = None
    for c in cols:
        if isinstance(c, Num) and c.shape is not None and len(c.shape) >= 1:
            rows = c.shape[0]
            break
    nfs = []
    for c in cols:
        if not isinstance(c, Num):
            raise Undecided("column_stack of a non-numeric value", node)
        nfs.append(ex.as_nf(c, node))
    dt = "int" if all(c.dtype == "int" for c in cols) else None
    if len(cols) == 1 and rows is not None:
        # a one-column matrix is its column (element-wise abstraction): A[:, [j]] is A[:, j] with shape (rows, 1)
        return Num(nfs[0], (rows, NF.const(1)), dt or cols[0].dtype, meta={"cols": cols})
    r = ex.mk("colstack", tuple(nfs), shape=(rows, NF.const(len(cols))) if rows is not None else None, dtype=dt)
    r.meta["cols"] = cols
    return r


def _idxkey(idx):
    return tuple(valkey(i) for i in idx)


def _forward_store(ex, a: ArrObj, idx, res_shape):
    """Store-to-load forwarding inside one epoch: the most recent store with an
    equal index is the value read, provided no later store may alias it."""
    k = _idxkey(idx)
    for ev in reversed(a.stores):
        if ev.data.get("epoch", 0) != a.epoch:
            break
        if ev.data["index"] is None:
            return None
        if _idxkey(ev.data["index"]) == k and not ev.data.get("aug"):
            v = ev.data["value"]
            if isinstance(v, Num):
                return Num(v.nf, res_shape if res_shape is not None else v.shape, v.dtype, cond=v.cond, meta={"forwarded": ev})
            return None
        return None  # a different (possibly aliasing) store intervenes
    return None


def _concat_read(ex, a: ArrObj, idx, res_shape):
    parts = a.init[1]
    if len(idx) == 1 and isinstance(idx[0], Num):
        c = cint(idx[0])
        if c is not None and c >= 0:
            off = 0
            for p in parts:
                n = p.shape[0].as_const() if p.shape else None
                if n is None:
                    return None
                if c < off + n:
                    return Num(p.nf, res_shape, p.dtype)
                off += int(n)
    return None


# =============================================================== external calls

EXT = {}


def model(*names):
    def deco(f):
        for n in names:
            EXT[n] = f
        return f

    return deco


RAW_OK_CALLEES = {"builtins.len", "builtins.isinstance", "builtins.type", "builtins.id", "pandas.DataFrame", "numpy.asarray", "numpy.array", "sktime.utils.validation.series.check_series", "builtins.print", "builtins.str", "builtins.repr"}


def call_ext(ex, dotted, args, kwargs, node, frame):
    if dotted not in RAW_OK_CALLEES and (any(contains_raw(a) for a in args) or any(contains_raw(a) for a in kwargs.values())):
        ex.emit("raw_use", node, what=f"operand of {dotted}", value=None)
    out = kwargs.get("out")
    if dotted.startswith("numpy.") and out is not None and not isinstance(out, NoneV):
        # out=: the result is written INTO an existing array (an in-place update of whatever else refers to it)
        ex.emit("out_write", node, target=out, callee=dotted)
        if isinstance(out, Num):
            if out.meta.get("foreign") or (isinstance(out.meta.get("alias_of"), Num) and out.meta["alias_of"].meta.get("foreign")):
                ex.emit("store_foreign", node, target=out, root=out, index=None, value=None, aug=True)
            if out.arr is not None:
                out.arr.epoch += 1
        kwargs = {k: v for k, v in kwargs.items() if k != "out"}
    f = EXT.get(dotted)
    if f is not None:
        try:
            return f(ex, args, kwargs, node)
        except (AttributeError, TypeError):
            # a model written for numeric operands met an un-interpreted value: the result is un-interpreted too
            if any(isinstance(a, OpaqueV) and not is_raw(a) for a in list(args) + list(kwargs.values())):
                ex.emit("unmodelled", node, callee=dotted, args=args, kwargs=kwargs)
                return OpaqueV(f"{dotted}({','.join(valkey(a) for a in args)})", {"call": dotted, "args": args, "kwargs": kwargs})
            raise
    if dotted.startswith("builtins.") and dotted.split(".")[1] in (
        "ValueError", "TypeError", "RuntimeError", "NotImplementedError", "IndexError", "KeyError",
        "AttributeError", "Exception", "AssertionError",
    ):
        return OpaqueV(f"exc:{dotted}", {"kind": "exception", "name": dotted.split(".")[1], "args": args})
    ex.emit("unmodelled", node, callee=dotted, args=args, kwargs=kwargs)
    return OpaqueV(f"{dotted}({','.join(valkey(a) for a in args)})", {"call": dotted, "args": args, "kwargs": kwargs})


def _kw(args, kwargs, i, name, default=None):
    if len(args) > i:
        return args[i]
    return kwargs.get(name, default)


def _shape_from(v, node):
    """shape argument of np.zeros etc -> tuple of NF dims"""
    if isinstance(v, Num):
        return (v.nf,)
    if isinstance(v, (TupleV, ListV)) and not getattr(v, "opaque", False):
        out = []
        for x in v.items:
            if not isinstance(x, Num):
                raise Undecided("non-numeric dimension", node)
            out.append(x.nf)
        return tuple(out)
    raise Undecided(f"shape argument {v!r}", node)


def _dtype_of(v):
    if v is None or isinstance(v, NoneV):
        return None
    if isinstance(v, StrV) and v.s:
        s = v.s
    elif isinstance(v, ExtV):
        s = v.dotted.split(".")[-1]
    else:
        return None
    if s.startswith("int") or s.startswith("uint") or s in ("long", "longlong", "short", "byte", "ulong", "ulonglong"):
        return "int"
    if s.startswith("float"):
        return "float"
    if s.startswith("bool"):
        return "bool"
    return None


# ----------------------------------------------------------------- builtins


def exact_list_len(ex, v):
    """length of a derived list in terms of the lists it was built from (opt-in: ex.exact_list_len):
    an unfiltered comprehension has the length of its iterable, seq * k has len(seq) * k"""
    if isinstance(v, (TupleV,)) or (isinstance(v, ListV) and not v.opaque):
        return NF.const(len(v.items))
    if getattr(v, "version", 0) or getattr(v, "extended", None):
        return None
    comp = getattr(v, "comp", None)
    if comp is not None and not comp["conds"]:
        it = comp["iter"]
        if isinstance(it, (ListV, TupleV)):
            return exact_list_len(ex, it)
        if isinstance(it, RangeV) and it.step.nf.as_const() == 1:
            return None
        return None
    rp = getattr(v, "repeat", None)
    if rp is not None:
        seq, k = rp
        ln = exact_list_len(ex, seq)
        if ln is None or not isinstance(k, Num):
            return None
        c = ln.as_const()
        if c is None:
            # a decided `len(seq) == c` on the current path pins the factor
            for cond, val in ex.facts:
                t = cond.t
                if t[0] == "cmp" and t[1] == "==0" and val:
                    for sgn in (1, -1):
                        d = (ln - t[2] * sgn).as_const()
                        if d is not None:
                            c = d
                    if c is not None:
                        break
        if c is None:
            return None
        return k.nf * c
    if getattr(v, "slice_of", None) is not None:
        return None
    if getattr(v, "parts", None) is not None:
        # a + b + c: the lengths add up
        tot = NF.const(0)
        for q in v.parts:
            ln = exact_list_len(ex, q) if isinstance(q, (ListV, TupleV)) else None
            if ln is None:
                return None
            tot = tot + ln
        return tot
    return app("listlen", v.lid, getattr(v, "version", 0))


@model("builtins.len")
def _len(ex, args, kwargs, node):
    v = args[0]
    if isinstance(v, (TupleV,)) or (isinstance(v, ListV) and not v.opaque):
        return Num(NF.const(len(v.items)), (), "int", meta={"kind": "COUNT"})
    if isinstance(v, ListV):
        if getattr(ex, "exact_list_len", False):
            nf = exact_list_len(ex, v)
            if nf is not None:
                return Num(nf, (), "int", meta={"kind": "COUNT", "len_of": v})
        r = ex.mk("listlen", v.lid, getattr(v, "version", 0), shape=(), dtype="int")
        r.meta["len_of"] = v
        return r
    if isinstance(v, Num):
        if v.shape is not None and len(v.shape) >= 1:
            return Num(v.shape[0], (), "int", meta={"kind": "COUNT", "len_of": v})
        if v.shape == ():
            ex.emit("type_error", node, what="len() of a scalar")
            raise Undecided("len() of a scalar", node)
        r = ex.mk("len", v.nf, shape=(), dtype="int")
        r.meta["kind"] = "COUNT"
        return r
    if isinstance(v, StrV):
        return Num(NF.const(len(v.s)) if v.s is not None else app("len", v.key), (), "int")
    if isinstance(v, OpaqueV) and v.meta.get("kind") == "shape" and isinstance(v.meta.get("of"), Num) and v.meta["of"].nf is not None:
        return Num(app("ndim", v.meta["of"].nf), (), "int")  # len(x.shape) is x.ndim
    if isinstance(v, OpaqueV) and v.meta.get("kind") == "rawshape":
        return Num(app("ndim", v.meta["of"].key), (), "int")
    if isinstance(v, RangeV):
        return Num(app("rangelen", v.lo.nf, v.hi.nf, v.step.nf), (), "int")
    if isinstance(v, DictV):
        if getattr(v, "opaque", False):
            return Num(app("dictlen", valkey(v)), (), "int")
        return Num(NF.const(len(v.items)), (), "int")
    if is_raw(v):
        return Num(sym("n"), (), "int", meta={"kind": "COUNT", "len_of": v})
    if isinstance(v, (OpaqueV, BoundExt)):
        r = ex.mk("len", valkey(v), shape=(), dtype="int")
        r.meta["kind"] = "COUNT"
        r.meta["len_of"] = v
        return r
    raise Undecided(f"len of {v!r}", node)


@model("builtins.range", "skchange.utils.numba.soft_import.prange")
def _range(ex, args, kwargs, node):
    z, o = scalar_int(0), scalar_int(1)
    if len(args) == 1:
        return RangeV(z, args[0], o)
    if len(args) == 2:
        return RangeV(args[0], args[1], o)
    return RangeV(args[0], args[1], args[2])


@model("builtins.enumerate")
def _enumerate(ex, args, kwargs, node):
    it = args[0]
    start = _kw(args, kwargs, 1, "start", scalar_int(0))
    items = ex.concrete_items(it)
    if items is not None and cint(start) is not None:
        return TupleV([TupleV([scalar_int(i + cint(start)), x]) for i, x in enumerate(items)])
    return OpaqueV(f"enumerate({valkey(it)})", {"kind": "enumerate", "parts": [it], "start": start})


@model("builtins.zip")
def _zip(ex, args, kwargs, node):
    # `a.tolist()` of a 1-D array iterates like the array itself (a fresh list of its elements) as long as nothing was
    # appended to / stored into that list: one form for both spellings
    def _as_array(a):
        src = getattr(a, "from_array", None)
        if isinstance(a, ListV) and isinstance(src, Num) and not a.items:
            touched = any(e.kind in ("list_append", "list_extend", "list_store", "list_sort") and (e.data.get("lst") is a or e.data.get("target") is a) for e in ex.events)
            if not touched:
                return src
        return a

    args = [_as_array(a) for a in args]
    conc = [ex.concrete_items(a) for a in args]
    if all(c is not None for c in conc):
        if getattr(ex, "unroll_zip", False):
            ex.emit("zip_unroll", node, parts=list(args), length=min((len(c) for c in conc), default=0))
        return TupleV([TupleV(list(t)) for t in zip(*conc)])
    return OpaqueV("zip(" + ",".join(valkey(a) for a in args) + ")", {"kind": "zip", "parts": list(args)})


@model("builtins.int")
def _int(ex, args, kwargs, node):
    v = args[0]
    if isinstance(v, Num) and v.cond is None:
        c = v.nf.as_const()
        if c is not None:
            return Num(NF.const(int(c)), (), "int")
        if v.dtype == "int":
            return Num(v.nf, (), "int", meta=dict(v.meta))
        a = single_atom(v.nf)
        if a is not None and a.kind == "app" and a.args[0] in ("ceil", "floor", "round"):
            return Num(v.nf, (), "int", meta=dict(v.meta))
        return ex.mk("int", v.nf, shape=(), dtype="int")
    if isinstance(v, Num):
        return Num(ex.as_nf(v, node), (), "int")
    return OpaqueV(f"int({valkey(v)})")


@model("builtins.float")
def _float(ex, args, kwargs, node):
    v = args[0]
    if isinstance(v, Num) and v.cond is None:
        return Num(v.nf, (), "float")
    if isinstance(v, StrV) and v.s in ("inf", "-inf"):
        return Num(INF if v.s == "inf" else -INF, (), "float")
    return OpaqueV(f"float({valkey(v)})")


@model("builtins.bool")
def _bool(ex, args, kwargs, node):
    return Num(None, (), "bool", cond=ex.truth(args[0], node))


@model("builtins.str", "builtins.repr", "builtins.format")
def _str(ex, args, kwargs, node):
    return StrV(None, key="str(" + ",".join(valkey(a) for a in args) + ")")


@model("builtins.print")
def _print(ex, args, kwargs, node):
    return NONE


@model("builtins.abs")
def _abs(ex, args, kwargs, node):
    v = args[0]
    if isinstance(v, Num) and v.cond is None:
        return Num(nf_abs(v.nf), v.shape, v.dtype, v.pytype)
    return OpaqueV(f"abs({valkey(v)})")


def _minmax(ex, args, kwargs, node, which):
    if len(args) == 1:
        v = args[0]
        items = ex.concrete_items(v)
        if items is None:
            if isinstance(v, Num):
                return ex.mk(which + "all", v.nf, shape=(), dtype=v.dtype)
            r = OpaqueV(f"{which}({valkey(v)})", {"kind": which, "of": v})
            ex.emit("reduce_seq", node, op=which, seq=v)
            return r
        args = items
    if all(isinstance(a, Num) and a.cond is None for a in args):
        f = nf_max if which == "max" else nf_min
        dt = "int" if all(a.dtype == "int" for a in args) else ("float" if any(a.dtype == "float" for a in args) else None)
        return Num(f(*[a.nf for a in args]), (), dt)
    return OpaqueV(f"{which}(" + ",".join(valkey(a) for a in args) + ")")


@model("builtins.min")
def _min(ex, args, kwargs, node):
    return _minmax(ex, args, kwargs, node, "min")


@model("builtins.max")
def _max(ex, args, kwargs, node):
    return _minmax(ex, args, kwargs, node, "max")


@model("builtins.sum")
def _sum(ex, args, kwargs, node):
    v = args[0]
    items = ex.concrete_items(v)
    if items is not None and all(isinstance(x, Num) for x in items):
        r = NF.const(0)
        for x in items:
            r = r + ex.as_nf(x, node)
        return Num(r, (), None)
    if isinstance(v, Num):
        return reduce_sum(ex, v, None, node)
    if isinstance(v, ListV) and v.elem is not None and isinstance(v.elem, Num):
        return ex.mk("sumlist", v.lid, ex.as_nf(v.elem, node), shape=())
    return OpaqueV(f"sum({valkey(v)})")


def _anyall(ex, args, kwargs, node, which):
    v = args[0]
    items = ex.concrete_items(v)
    if items is not None:
        c = Cond.const(which == "all")
        for x in items:
            cx = ex.truth(x, node)
            c = (c & cx) if which == "all" else (c | cx)
        return Num(None, (), "bool", cond=c)
    if isinstance(v, Num):
        c = v.cond if v.cond is not None else Cond.cmp("!=", v.nf, NF.const(0))
        if v.shape == ():
            return Num(None, (), "bool", cond=c)
        if c.is_const():
            return Num(None, (), "bool", cond=c)
        return Num(None, (), "bool", cond=Cond(which, c), meta={"reduced_from": v})
    if isinstance(v, ListV) and getattr(v, "comp", None) is not None:
        el = v.comp["elem"]
        c = ex.truth(el, node)
        r = Num(None, (), "bool", cond=Cond(which, c), meta={"comp": v.comp})
        return r
    return Num(None, (), "bool", cond=Cond("opq", f"{which}({valkey(v)})"))


@model("builtins.any")
def _any(ex, args, kwargs, node):
    return _anyall(ex, args, kwargs, node, "any")


@model("builtins.all")
def _all(ex, args, kwargs, node):
    return _anyall(ex, args, kwargs, node, "all")


@model("builtins.sorted")
def _sorted(ex, args, kwargs, node):
    v = args[0]
    ex.list_counter += 1
    r = ListV(list(getattr(v, "items", [])), opaque=True, lid=ex.list_counter, elem=getattr(v, "elem", None))
    r.sorted_from = v
    r.is_sorted = True
    ex.emit("sorted", node, src=v, result=r)
    return r


@model("builtins.list", "builtins.tuple")
def _list(ex, args, kwargs, node):
    if not args:
        ex.list_counter += 1
        return ListV([], lid=ex.list_counter)
    v = args[0]
    items = ex.concrete_items(v)
    ex.list_counter += 1
    if items is not None:
        return ListV(list(items), lid=ex.list_counter)
    r = ListV([], opaque=True, lid=ex.list_counter, elem=getattr(v, "elem", None))
    r.list_of = v
    if isinstance(v, OpaqueV) and v.meta.get("kind") == "zip":
        parts = v.meta["parts"]
        r.zip_parts = parts
    return r


def _operator_models():
    cmps = {"lt": ast.Lt, "le": ast.LtE, "gt": ast.Gt, "ge": ast.GtE, "eq": ast.Eq, "ne": ast.NotEq, "is_": ast.Is, "is_not": ast.IsNot}
    bins = {"add": ast.Add, "sub": ast.Sub, "mul": ast.Mult, "truediv": ast.Div, "floordiv": ast.FloorDiv, "mod": ast.Mod, "pow": ast.Pow}
    for nm, op in cmps.items():
        EXT[f"operator.{nm}"] = (lambda ex, args, kwargs, node, op=op: ex.compare(op(), args[0], args[1], node))
    for nm, op in bins.items():
        EXT[f"operator.{nm}"] = (lambda ex, args, kwargs, node, op=op: ex.binop(op(), args[0], args[1], node))
    EXT["operator.not_"] = lambda ex, args, kwargs, node: Num(None, (), "bool", cond=ex.truth(args[0], node).neg())
    EXT["operator.neg"] = lambda ex, args, kwargs, node: ex.binop(ast.Sub(), scalar_int(0), args[0], node)
    # typing.cast(T, x) is x
    EXT["typing.cast"] = lambda ex, args, kwargs, node: args[1]


_operator_models()


@model("builtins.slice")
def _slice_obj(ex, args, kwargs, node):
    # slice(stop) / slice(start, stop[, step]): the object a[start:stop:step] builds
    a = list(args) + [NONE] * (3 - len(args))
    if len(args) == 1:
        return SliceV(NONE, a[0], NONE)
    return SliceV(a[0], a[1], a[2])


@model("collections.deque")
def _deque(ex, args, kwargs, node):
    # a deque used as a FIFO (append / popleft / len / iteration) behaves like a list with pop(0); a bounded deque
    # (maxlen) silently drops elements and is not modelled
    if kwargs.get("maxlen") is not None and not isinstance(kwargs.get("maxlen"), NoneV) or len(args) > 1:
        raise Undecided("collections.deque with maxlen", node)
    return _list(ex, args[:1], {}, node)


@model("builtins.reversed")
def _reversed(ex, args, kwargs, node):
    v = args[0]
    items = ex.concrete_items(v)
    if items is not None:
        return TupleV(list(reversed(items)))
    return OpaqueV(f"reversed({valkey(v)})", {"kind": "reversed", "of": v})


@model("builtins.isinstance")
def _isinstance(ex, args, kwargs, node):
    v, t = args
    ts = t.items if isinstance(t, TupleV) else [t]
    res = False
    unknown = False
    for tt in ts:
        r = _isinst(ex, v, tt)
        if r is True:
            res = True
        elif r is None:
            unknown = True
    if res:
        return Num(None, (), "bool", cond=Cond.const(True))
    if unknown:
        return Num(None, (), "bool", cond=Cond("opq", f"isinstance({valkey(v)},{valkey(t)})"))
    return Num(None, (), "bool", cond=Cond.const(False))


def _isinst(ex, v, t):
    if isinstance(t, ClassV):
        if isinstance(v, ObjV) and v.cls is not None:
            if getattr(v, "abstract", False) and t.cls is not v.cls and ex.P.is_subclass(t.cls, v.cls) and not ex.P.is_subclass(v.cls, t.cls):
                # an arbitrary object of the base class may well be an instance of this particular subclass
                ex.emit("abstract_isinstance", None, obj=v, cls=t.cls)
                return None
            return ex.P.is_subclass(v.cls, t.cls)
        if isinstance(v, OpaqueV):
            return None
        return False
    if isinstance(t, ExtV):
        d = t.dotted
        if d == "builtins.object":
            return True
        if isinstance(v, Num):
            decl = v.meta.get("pytype_decl")
            if d in ("numbers.Number", "numbers.Real", "numbers.Integral", "builtins.int", "builtins.float"):
                if v.pytype == "number" and v.shape == ():
                    if v.meta.get("maybe_array"):
                        return None
                    if d in ("builtins.int", "numbers.Integral"):
                        return True if v.dtype == "int" else (False if v.dtype == "float" else None)
                    if d == "builtins.float":
                        return True if v.dtype == "float" else (False if v.dtype == "int" else None)
                    return True
                return False
            if v.pytype == "arraylike" and d in ("numpy.ndarray", "pandas.DataFrame", "pandas.Series", "builtins.tuple", "builtins.list"):
                # some array-like container (list, tuple, ndarray, frame): which one is not known
                return None
            if d == "numpy.ndarray":
                return v.pytype == "ndarray"
            if d == "pandas.DataFrame":
                return v.pytype == "frame"
            if d == "pandas.Series":
                return v.pytype == "series"
            if d in ("builtins.tuple", "builtins.list", "builtins.str"):
                return False
            return None
        if isinstance(v, TupleV):
            return d == "builtins.tuple"
        if isinstance(v, ListV):
            return d == "builtins.list"
        if isinstance(v, StrV):
            return d == "builtins.str"
        if isinstance(v, NoneV):
            return False
        if isinstance(v, ObjV):
            if v.cls is not None and d in ex.P.external_bases(v.cls):
                return True
            return False
        return None
    return None


@model("builtins.callable")
def _callable(ex, args, kwargs, node):
    v = args[0]
    if isinstance(v, (FuncV, ClassV, ClosureV, ExtV, BoundExt)):
        return Num(None, (), "bool", cond=Cond.const(True))
    if isinstance(v, (Num, StrV, NoneV, TupleV, ListV)) and not (isinstance(v, Num) and v.meta.get("callable")):
        return Num(None, (), "bool", cond=Cond.const(False))
    return Num(None, (), "bool", cond=Cond("opq", f"callable({valkey(v)})"))


@model("builtins.type")
def _type(ex, args, kwargs, node):
    v = args[0]
    if isinstance(v, ObjV) and v.cls is not None:
        return ClassV(v.cls)
    # the exact type of a Python-level container is known: `type(x) is np.ndarray` is False for a list / tuple / str / None
    for k_, nm_ in ((ListV, "builtins.list"), (TupleV, "builtins.tuple"), (StrV, "builtins.str"), (NoneV, "builtins.NoneType"), (DictV, "builtins.dict")):
        if isinstance(v, k_):
            return ExtV(nm_)
    return OpaqueV(f"type({valkey(v)})")


@model("builtins.super")
def _super(ex, args, kwargs, node):
    fr = ex.frames[-1]
    if fr.func is None or fr.func.cls is None:
        raise Undecided("super() outside a method", node)
    selfname = fr.func.params[0] if fr.func.params else None
    obj = fr.env.get(selfname)
    return OpaqueV("super", {"kind": "super", "cls": fr.func.cls, "obj": obj})


@model("builtins.getattr")
def _getattr(ex, args, kwargs, node):
    if isinstance(args[1], StrV) and args[1].s is not None:
        return ex.getattr(args[0], args[1].s, node)
    return OpaqueV(f"getattr({valkey(args[0])},{valkey(args[1])})")


@model("builtins.round")
def _round(ex, args, kwargs, node):
    v = args[0]
    if isinstance(v, Num) and v.cond is None:
        return ex.mk("round", v.nf, shape=v.shape, dtype="int" if len(args) == 1 else "float")
    return OpaqueV(f"round({valkey(v)})")


@model("typing.Union", "typing.Optional", "typing.Callable")
def _typing(ex, args, kwargs, node):
    return OpaqueV("typing")


# -------------------------------------------------------------------- numpy


def atom_varies(ex, atom, ctx_shape, axis):
    """May `atom` vary along `axis` of a value of shape ctx_shape? (conservative: True)"""
    k = atom.kind
    if k in ("Q", "logq"):
        return False
    if k in ("P",):
        from .nf import poly_of_P

        return any(atom_varies(ex, a, ctx_shape, axis) for m in poly_of_P(atom) for a, _ in m)
    if k == "log":
        return atom_varies(ex, atom.args[0], ctx_shape, axis)
    if k in ("abs", "max", "min"):
        from .nf import atoms_of

        return any(atom_varies(ex, a, ctx_shape, axis) for a in atoms_of(list(atom.args), deep=False).values())
    shp = ex.atom_shapes.get(atom.key)
    if shp is None:
        if k == "sym":
            return False
        return True
    if len(shp) == 0:
        return False
    if ctx_shape is None:
        return True
    nd = len(ctx_shape)
    # align right
    pos = axis - (nd - len(shp))
    if len(shp) == 1 and nd == 2:
        d = lift(shp[0])
        eq_last = nf_equal(d, lift(ctx_shape[1]))
        eq_first = nf_equal(d, lift(ctx_shape[0]))
        if axis == 1:
            return eq_last or not eq_first
        return eq_first or not eq_last
    if pos < 0:
        return False
    d = lift(shp[pos])
    c = d.as_const()
    return not (c is not None and c == 1)


def linear_reduce(ex, v: Num, axis, opname, count, res_shape, node):
    """Linear reduction along an axis: sum(c * inv * var) = c * inv * OP(var); OP(1) = count."""
    x = ex.as_nf(v, node).reduced()
    from .nf import atoms_of

    def varies(a):
        if axis is None:
            shp = ex.atom_shapes.get(a.key)
            if a.kind in ("P", "log", "abs", "max", "min"):
                return atom_varies(ex, a, v.shape, 0) or (v.shape is not None and len(v.shape) > 1 and atom_varies(ex, a, v.shape, 1))
            if shp is None:
                return a.kind != "sym" and a.kind not in ("Q", "logq")
            return len(shp) != 0
        return atom_varies(ex, a, v.shape, axis)

    den_inv = NF.const(1)
    num = x.num
    if not (len(x.den) == 1 and () in x.den):
        if any(varies(a) for m in x.den for a, _ in m):
            r = ex.mk(opname, x, axis if axis is not None else "all", shape=res_shape)
            return r
        den_inv = NF({(): Fraction(1)}, x.den)
    else:
        den_inv = NF.const(1 / x.den[()])
    out = NF.const(0)
    for m, c in num.items():
        inv = NF.const(c)
        var = []
        for a, e in m:
            if varies(a):
                var.append((a, e))
            else:
                inv = inv * (NF.atom(a) ** e if a.kind not in ("P", "Q") else NF.atom(a, e))
        if not var:
            out = out + inv * count
        else:
            vn = NF({tuple(var): Fraction(1)})
            t = app(opname, vn, axis if axis is not None else "all")
            ex.atom_shapes.setdefault(t.key if False else single_atom(t).key, res_shape)
            out = out + inv * t
    out = out * den_inv
    return Num(out, res_shape, v.dtype if v.dtype != "bool" else "int")


def _axis(kwargs, args, pos):
    ax = _kw(args, kwargs, pos, "axis", NONE)
    if isinstance(ax, NoneV):
        return None
    c = cint(ax)
    if c is None:
        raise Undecided("symbolic axis")
    return c


def _half_logdet(nf):
    """A if nf is log(diag(chol(A))) element-wise: its sum is log det(A) / 2"""
    a = single_atom(nf) if isinstance(nf, NF) else None
    if a is None or a.kind != "log":
        return None
    inner = a.args[0]
    ia = inner if isinstance(inner, Atom) else (single_atom(inner) if isinstance(inner, NF) else None)
    if ia is None or ia.kind != "app" or ia.args[0] != "diag":
        return None
    c = single_atom(ia.args[1]) if isinstance(ia.args[1], NF) else None
    if c is not None and c.kind == "app" and c.args[0] == "chol":
        return c.args[1]
    return None


def reduce_sum(ex, v: Num, axis, node):
    if v.nf is not None and v.cond is None and v.shape is not None and len(v.shape) == 1:
        A = _half_logdet(v.nf)
        if A is not None:
            # sum(log(diag(cholesky(A)))) = log det(A) / 2 for positive definite A
            return Num(app("logabsdet", A) / 2, (), "float")
    if v.shape is None:
        return ex.mk("sum", ex.as_nf(v, node), axis if axis is not None else "all", shape=None)
    nd = len(v.shape)
    if nd == 0:
        return v
    if axis is not None and axis < 0:
        axis += nd
    if nd == 1 or axis is None:
        cnt = NF.const(1)
        for d in v.shape:
            cnt = cnt * lift(d)
        return linear_reduce(ex, v, None if nd > 1 else 0, "sum", cnt, (), node) if nd == 1 else linear_reduce(ex, v, None, "sum", cnt, (), node)
    if nd == 2:
        res_shape = (v.shape[0],) if axis == 1 else (v.shape[1],)
        return linear_reduce(ex, v, axis, "sum", lift(v.shape[axis]), res_shape, node)
    return ex.mk("sum", ex.as_nf(v, node), axis, shape=None)


@model("numpy.sum")
def _np_sum(ex, args, kwargs, node):
    v = _arr(ex, args[0], node)
    return reduce_sum(ex, v, _axis(kwargs, args, 1), node)


@model("numpy.add.reduce")
def _np_add_reduce(ex, args, kwargs, node):
    # np.add.reduce(x, axis=k) is np.sum(x, axis=k); without an axis it reduces along axis 0 (np.sum: over all axes)
    v = _arr(ex, args[0], node)
    ax = _axis(kwargs, args, 1)
    if ax is None:
        if v.shape is not None and len(v.shape) == 1:
            return reduce_sum(ex, v, None, node)
        ax = 0
    return reduce_sum(ex, v, ax, node)


def _arr(ex, v, node):
    """np.asarray view of a value"""
    if isinstance(v, Num):
        return v
    if isinstance(v, (ListV, TupleV)):
        return _np_array(ex, [v], {}, node)
    if isinstance(v, OpaqueV):
        r = ex.mk("asarray", v.key, shape=None)
        r.meta["from_opaque"] = v
        return r
    raise Undecided(f"array view of {v!r}", node)


@model("numpy.zeros", "numpy.ones", "numpy.empty")
def _np_zeros(ex, args, kwargs, node, fill=None):
    shape = _shape_from(args[0], node)
    dkw = _kw(args, kwargs, 1, "dtype")
    # default float64; an explicit dtype that cannot be resolved statically (e.g. x.dtype)
    # makes the array's type depend on an argument
    dt = "float" if dkw is None or isinstance(dkw, NoneV) else _dtype_of(dkw)
    a = ex.new_array(("zeros",), shape, dt, node)
    return ex.arr_value(a)


@model("numpy.ones")
def _np_ones(ex, args, kwargs, node):
    shape = _shape_from(args[0], node)
    dt = _dtype_of(_kw(args, kwargs, 1, "dtype")) or "float"
    a = ex.new_array(("fill", NF.const(1)), shape, dt, node)
    return ex.arr_value(a)


@model("numpy.full")
def _np_full(ex, args, kwargs, node):
    shape = _shape_from(args[0], node)
    fv = args[1]
    if not isinstance(fv, Num):
        raise Undecided("np.full with a non-numeric fill", node)
    dt = _dtype_of(_kw(args, kwargs, 2, "dtype"))
    # without an explicit dtype np.full takes the dtype of the fill value
    a = ex.new_array(("fill", fv.nf), shape, dt or fv.dtype, node)
    return ex.arr_value(a)


@model("numpy.reshape")
def _np_reshape(ex, args, kwargs, node):
    # np.reshape(x, shape) is x.reshape(shape)
    v = _arr(ex, args[0], node)
    shp = _kw(args, kwargs, 1, "newshape", None) or kwargs.get("shape")
    return num_method(ex, v, "reshape", [shp], {}, node)


@model("numpy.hstack")
def _np_hstack(ex, args, kwargs, node):
    # for 1-D operands (and scalars) hstack is concatenate along the only axis; for matrices it joins COLUMNS
    v = args[0]
    if isinstance(v, (TupleV, ListV)) and not getattr(v, "opaque", False):
        parts = [_arr(ex, x, node) for x in v.items]
        if all(q.shape is not None and len(q.shape) <= 1 for q in parts):
            return _np_concatenate(ex, [v], {}, node)
        if all(q.shape is not None and len(q.shape) == 2 for q in parts):
            return _np_concatenate(ex, [v], {"axis": scalar_int(1)}, node)
    raise Undecided("np.hstack of operands of unknown rank", node)


@model("numpy.zeros_like", "numpy.empty_like")
def _np_zeros_like(ex, args, kwargs, node):
    # the prototype gives the dtype (and the shape, unless shape= overrides it): for integer-typed data the new array is an
    # integer array.  A dtype that is not known statically (the data's own) is None: "taken from an argument"
    v = _arr(ex, args[0], node)
    dkw = _kw(args, kwargs, 1, "dtype")
    explicit = not (dkw is None or isinstance(dkw, NoneV))
    def _from_caller(x, depth=0):
        # the prototype is (a view / conversion of) data handed in by the caller: its dtype is the caller's choice
        if not isinstance(x, Num) or depth > 8:
            return False
        if x.meta.get("foreign") or x.meta.get("normalised") or is_raw(x.meta.get("alias_of")):
            return True
        return any(_from_caller(x.meta.get(k_), depth + 1) for k_ in ("alias_of", "index_of", "reshaped_from", "col_of"))

    dt = _dtype_of(dkw) if explicit else (None if _from_caller(v) else v.dtype)
    skw = kwargs.get("shape")
    shape = _shape_from(skw, node) if skw is not None and not isinstance(skw, NoneV) else v.shape
    a = ex.new_array(("zeros",), shape, dt if (explicit or dt is None) else (dt or "float"), node)
    a.like = v
    return ex.arr_value(a)


@model("numpy.eye")
def _np_eye(ex, args, kwargs, node):
    n = args[0]
    return ex.mk("eye", n.nf, shape=(n.nf, n.nf), dtype="float")


@model("numpy.repeat")
def _np_repeat(ex, args, kwargs, node):
    v, k = args[0], args[1]
    if not isinstance(k, Num):
        raise Undecided("np.repeat count", node)
    if isinstance(v, Num) and v.cond is None and (v.shape == () or (v.shape is not None and len(v.shape) == 1 and v.shape[0].as_const() == 1)):
        a = ex.new_array(("fill", v.nf), (k.nf,), v.dtype, node)
        return ex.arr_value(a)
    if isinstance(v, Num):
        return ex.mk("repeat", ex.as_nf(v, node), k.nf, shape=None)
    raise Undecided(f"np.repeat of {v!r}", node)


@model("numpy.arange")
def _np_arange(ex, args, kwargs, node):
    if len(args) == 1:
        lo, hi = scalar_int(0), args[0]
    else:
        lo, hi = args[0], args[1]
    step = args[2] if len(args) > 2 else kwargs.get("step", scalar_int(1))
    if not all(isinstance(x, Num) for x in (lo, hi, step)):
        raise Undecided("np.arange bounds", node)
    if cint(step) == 1:
        r = ex.mk("arange", lo.nf, hi.nf, shape=(hi.nf - lo.nf,), dtype="int")
    else:
        r = ex.mk("arange3", lo.nf, hi.nf, step.nf, shape=(app("rangelen", lo.nf, hi.nf, step.nf),), dtype="int")
    r.meta["arange"] = (lo.nf, hi.nf, step.nf)
    r.meta["contiguous"] = cint(step) == 1
    return r


@model("numpy.array", "numpy.asarray")
def _np_array(ex, args, kwargs, node):
    v = args[0]
    dtarg = _kw(args, kwargs, 1, "dtype")
    dt = _dtype_of(dtarg)
    if dtarg is not None and not isinstance(dtarg, NoneV):
        ex.emit("cast", node, value=v, dtype=dt, how="array", target=dtarg)
    if isinstance(v, Num):
        if v.pytype in ("frame", "series", "index"):
            return Num(v.nf, v.shape, dt or v.dtype, "ndarray", arr=v.arr, cond=v.cond, meta={"alias_of": v})
        if v.shape == ():
            return Num(v.nf, (), dt or v.dtype, "ndarray", cond=v.cond, meta={"zero_dim": True, **v.meta})
        return Num(v.nf, v.shape, dt or v.dtype, "ndarray" if v.pytype == "arraylike" else v.pytype, arr=v.arr, cond=v.cond, meta=dict(v.meta, alias_of=v))
    if isinstance(v, (ListV, TupleV)):
        if getattr(v, "opaque", False):
            el = v.elem if isinstance(v, ListV) else None
            n = _len(ex, [v], {}, node)
            if isinstance(el, Num) and el.shape == ():
                r = Num(el.nf, (n.nf,), dt or el.dtype)
                r.meta["from_list"] = v
                return r
            if isinstance(el, TupleV) and all(isinstance(x, Num) and x.shape == () for x in el.items):
                r = ex.mk("colstack", tuple(x.nf for x in el.items), shape=(n.nf, NF.const(len(el.items))), dtype=dt)
                r.meta["from_list"] = v
                return r
            r = ex.mk("array", f"list#{v.lid}", shape=(n.nf,), dtype=dt)
            r.meta["from_list"] = v
            return r
        items = v.items
        if not items:
            return Num(NF.const(0), (NF.const(0),), dt or "float", meta={"empty": True})
        if all(isinstance(x, Num) and (x.shape == ()) for x in items):
            if len(items) == 1:
                x = items[0]
                return Num(ex.as_nf(x, node), (NF.const(1),), dt or x.dtype, meta={"elems": items})
            keys = {ex.as_nf(x, node).key for x in items}
            if len(keys) == 1:
                return Num(ex.as_nf(items[0], node), (NF.const(len(items)),), dt or items[0].dtype, meta={"elems": items})
            r = ex.mk("vec", tuple(ex.as_nf(x, node) for x in items), shape=(NF.const(len(items)),), dtype=dt or ("int" if all(x.dtype == "int" for x in items) else "float"))
            r.meta["elems"] = items
            return r
        if all(isinstance(x, Num) and x.shape is not None and len(x.shape) == 1 for x in items) and len(items) == 1:
            x = items[0]
            return Num(x.nf, (NF.const(1),) + tuple(x.shape), dt or x.dtype)
        if len(items) == 1 and isinstance(items[0], (ListV, TupleV)) and not getattr(items[0], "opaque", False) and items[0].items and all(isinstance(x, Num) and x.shape == () for x in items[0].items):
            # np.array([[a, b, ...]]): one row - column j is the length-1 vector [x_j] (element-wise: x_j)
            cols_ = [Num(ex.as_nf(x, node), (NF.const(1),), x.dtype) for x in items[0].items]
            r = colstack(ex, cols_, node)
            if dt is not None:
                r = Num(r.nf, r.shape, dt, r.pytype, meta=dict(r.meta))
            return r
        if all(isinstance(x, (ListV, TupleV)) for x in items):
            rows = [_np_array(ex, [x], {}, node) for x in items]
            r = ex.mk("rows", tuple(valkey(x) for x in rows), shape=(NF.const(len(rows)),) + tuple(rows[0].shape or ()), dtype=dt)
            return r
        r = ex.mk("array", tuple(valkey(x) for x in items), shape=None, dtype=dt)
        return r
    if is_raw(v):
        r = Num(sym("X"), None, dt, "ndarray", meta={"alias_of": v, "normalised": True})
        return r
    if isinstance(v, OpaqueV):
        r = ex.mk("asarray", v.key, shape=None, dtype=dt)
        r.meta["from_opaque"] = v
        return r
    if isinstance(v, RangeV):
        return _np_arange(ex, [v.lo, v.hi, v.step], {}, node)
    raise Undecided(f"np.array of {v!r}", node)


@model("numpy.column_stack")
def _np_column_stack(ex, args, kwargs, node):
    v = args[0]
    if not isinstance(v, (TupleV, ListV)) or getattr(v, "opaque", False):
        raise Undecided("column_stack of an unknown sequence", node)
    return colstack(ex, [_arr(ex, x, node) for x in v.items], node)


@model("numpy.stack")
def _np_stack(ex, args, kwargs, node):
    v = args[0]
    ax = _kw(args, kwargs, 1, "axis", scalar_int(0))
    axc = cint(ax) if isinstance(ax, Num) else None
    if not isinstance(v, (TupleV, ListV)) or getattr(v, "opaque", False):
        raise Undecided("stack of an unknown sequence", node)
    parts = [_arr(ex, x, node) for x in v.items]
    if axc in (1, -1) and all(p.shape is not None and len(p.shape) == 1 for p in parts):
        # 1-D arrays stacked along axis 1 are the columns of a matrix: np.column_stack
        return colstack(ex, parts, node)
    r = ex.mk("stack", tuple(ex.as_nf(p, node) for p in parts), axc if axc is not None else "?", shape=None, dtype=None)
    return r


@model("numpy.concatenate")
def _np_concatenate(ex, args, kwargs, node):
    v = args[0]
    if not isinstance(v, (TupleV, ListV)) or getattr(v, "opaque", False):
        if isinstance(v, (ListV, OpaqueV)):
            # an un-interpreted sequence of arrays: the result is un-interpreted too
            k = valkey(v) if not isinstance(v, ListV) else (f"list#{v.lid}" + (":" + valkey(v.elem) if getattr(v, "elem", None) is not None else ""))
            return ex.mk("concat_seq", k, shape=None, dtype=None)
        raise Undecided("concatenate of an unknown sequence", node)
    parts = [_arr(ex, x, node) for x in v.items]
    n = NF.const(0)
    known = True
    for p in parts:
        if p.shape is None or len(p.shape) == 0:
            known = False
            break
        n = n + lift(p.shape[0])
    rest = tuple(parts[0].shape[1:]) if known else ()
    shape = ((n,) + rest) if known else None
    dt = "int" if all(p.dtype == "int" for p in parts) else ("float" if any(p.dtype == "float" for p in parts) else None)
    a = ex.new_array(("concat", parts), shape, dt, node)
    r = Num(app("concat", tuple(ex.as_nf(p, node) for p in parts)), shape, dt, "ndarray", arr=a)
    ex.register_atom(r.nf, shape)
    r.meta["concat"] = parts
    a.value_nf = r.nf
    return r


@model("numpy.append")
def _np_append(ex, args, kwargs, node):
    # np.append(a, b) without axis = concatenate((ravel(a), ravel(b))); for 1-D operands (and scalars) the ravel is a no-op
    if "axis" in kwargs or len(args) != 2:
        raise Undecided("np.append with an axis", node)
    parts = []
    for x in args:
        v = _arr(ex, x, node)
        if v.shape is not None and len(v.shape) == 0:
            v = Num(v.nf, (NF.const(1),), v.dtype, "ndarray")
        parts.append(v)
    if any(v.shape is not None and len(v.shape) != 1 for v in parts):
        # operands with more dimensions are FLATTENED first: the result is one long vector, not a stack of rows
        if any(v.shape is None for v in parts):
            raise Undecided("np.append of operands of unknown shape", node)
        size = NF.const(0)
        for v in parts:
            sz = NF.const(1)
            for d in v.shape:
                sz = sz * lift(d)
            size = size + sz
        ex.emit("flattened", node, operands=parts)
        return ex.mk("ravelcat", tuple(ex.as_nf(v, node) for v in parts), shape=(size,), dtype="float" if any(v.dtype == "float" for v in parts) else parts[0].dtype)
    return _np_concatenate(ex, [TupleV(parts)], {}, node)


def _elementwise(fn, name):
    def f(ex, args, kwargs, node):
        v = args[0]
        if isinstance(v, (ListV, TupleV)):
            v = _arr(ex, v, node)
        if isinstance(v, Num):
            try:
                return Num(fn(ex.as_nf(v, node)), v.shape, "float", v.pytype)
            except Undecided:
                return ex.mk(name, ex.as_nf(v, node), shape=v.shape, dtype="float")
        if isinstance(v, OpaqueV):
            return OpaqueV(f"{name}({v.key})")
        raise Undecided(f"{name} of {v!r}", node)

    return f


EXT["numpy.log"] = _elementwise(nf_log, "log")
EXT["numpy.sqrt"] = _elementwise(nf_sqrt, "sqrt")
EXT["numpy.abs"] = _elementwise(nf_abs, "abs")
EXT["numpy.absolute"] = EXT["numpy.abs"]


@model("numpy.reciprocal")
def _np_reciprocal(ex, args, kwargs, node):
    """1 / x for floating-point x.  For an integer dtype numpy computes the INTEGER reciprocal (0 for every |x| > 1): an
    uninterpreted value of integer type, not 1 / x; a dtype that is not known stays uninterpreted as well"""
    v = args[0]
    if isinstance(v, (ListV, TupleV)):
        v = _arr(ex, v, node)
    if not isinstance(v, Num):
        raise Undecided(f"reciprocal of {v!r}", node)
    if v.dtype == "float":
        return Num(NF.const(1) / ex.as_nf(v, node), v.shape, "float", v.pytype)
    ex.emit("int_reciprocal", node, value=v)
    return ex.mk("int_reciprocal" if v.dtype == "int" else "reciprocal_of_unknown_dtype", ex.as_nf(v, node), shape=v.shape, dtype=v.dtype or "float")


@model("numpy.exp")
def _np_exp(ex, args, kwargs, node):
    v = args[0]
    return ex.mk("exp", v.nf, shape=v.shape, dtype="float")


@model("numpy.maximum", "numpy.minimum")
def _np_maxmin(ex, args, kwargs, node, which=None):
    a, b = _arr(ex, args[0], node), _arr(ex, args[1], node)
    shape = ex.bshape(a.shape, b.shape, node)
    return a, b, shape


def _np_maximum(ex, args, kwargs, node):
    a, b = _arr(ex, args[0], node), _arr(ex, args[1], node)
    r = nf_max(a.nf, b.nf)
    shape = ex.bshape(a.shape, b.shape, node)
    ex.register_atom(r, shape)
    return Num(r, shape, "float" if "float" in (a.dtype, b.dtype) else a.dtype)


def _np_minimum(ex, args, kwargs, node):
    a, b = _arr(ex, args[0], node), _arr(ex, args[1], node)
    r = nf_min(a.nf, b.nf)
    shape = ex.bshape(a.shape, b.shape, node)
    ex.register_atom(r, shape)
    return Num(r, shape, "float" if "float" in (a.dtype, b.dtype) else a.dtype)


EXT["numpy.maximum"] = _np_maximum
EXT["numpy.minimum"] = _np_minimum


@model("numpy.cumsum")
def _np_cumsum(ex, args, kwargs, node):
    v = _arr(ex, args[0], node)
    ax = _axis(kwargs, args, 1)
    if v.cond is None and ex.as_nf(v, node).is_zero():
        return Num(NF.const(0), v.shape, v.dtype)
    r = ex.mk("cumsum", ex.as_nf(v, node), ax if ax is not None else "flat", shape=v.shape, dtype=v.dtype)
    r.meta["cumsum_of"] = v
    return r


def _signed_target(t):
    """True for a signed integer dtype argument (np.int64, int, "int32", np.intp, ...), False for an unsigned one, None
    if it is not an integer dtype or cannot be read"""
    if isinstance(t, StrV) and t.s:
        s = t.s
    elif isinstance(t, ExtV):
        s = t.dotted.split(".")[-1]
    else:
        return None
    if s.startswith("uint") or s in ("ulong", "ulonglong", "ubyte", "ushort", "uintp"):
        return False
    if s.startswith("int") or s in ("long", "longlong", "short", "byte"):
        return True
    return None


def _wide_target(t):
    """True for a 64-bit signed integer dtype argument (np.int64, int, np.intp, "int64", np.longlong): products of lengths
    of any data that fits in memory cannot overflow in it; False for a narrower integer type; None if it cannot be read"""
    if isinstance(t, StrV) and t.s:
        s = t.s
    elif isinstance(t, ExtV):
        s = t.dotted.split(".")[-1]
    else:
        return None
    if s in ("int64", "int", "intp", "longlong", "int_", "long"):
        return True
    if s.startswith("int") or s.startswith("uint") or s in ("short", "byte", "intc", "ubyte", "ushort", "uintc"):
        return False
    return None


@model("numpy.diff")
def _np_diff(ex, args, kwargs, node):
    v = _arr(ex, args[0], node)
    ex.emit("diff", node, operand=v)
    ax = kwargs.get("axis")
    pre = kwargs.get("prepend")
    apd = kwargs.get("append")
    axc = cint(ax) if ax is not None else -1
    extra = 0
    for z in (pre, apd):
        if z is not None:
            extra += 1
    # the difference of a two-column stack along the column axis is the second column minus the first
    va = single_atom(v.nf) if v.nf is not None and v.cond is None else None
    if va is not None and va.kind == "app" and va.args[0] == "colstack" and isinstance(va.args[1], tuple) and len(va.args[1]) == 2 and extra == 0 and v.shape is not None and len(v.shape) == 2 and axc in (1, -1):
        c0, c1 = va.args[1]
        return Num(lift(c1) - lift(c0), (v.shape[0], NF.const(1)), v.dtype, meta={"diff_of": v})
    shape = None
    if v.shape is not None and len(v.shape) >= 1:
        a = axc if axc >= 0 else len(v.shape) + axc
        sh = list(v.shape)
        sh[a] = lift(sh[a]) - 1 + extra
        shape = tuple(sh)
    r = ex.mk(
        "diff",
        ex.as_nf(v, node),
        ex.as_nf(pre, node) if isinstance(pre, Num) else "none",
        ex.as_nf(apd, node) if isinstance(apd, Num) else "none",
        axc,
        shape=shape,
        dtype=v.dtype,
    )
    r.meta["diff_of"] = v
    return r


def _np_allany(which):
    def f(ex, args, kwargs, node):
        v = _arr(ex, args[0], node)
        ax = kwargs.get("axis", args[1] if len(args) > 1 else None)
        if ax is not None and not isinstance(ax, NoneV):
            c = v.cond if v.cond is not None else Cond.cmp("!=", v.nf, NF.const(0))
            shp = None
            if v.shape is not None and cint(ax) is not None and len(v.shape) == 2:
                shp = (v.shape[0],) if cint(ax) in (1, -1) else (v.shape[1],)
            return Num(None, shp, "bool", cond=Cond("opq", f"{which}ax{cint(ax)}({c.key})"), meta={"reduced_from": v})
        return _anyall(ex, [v], {}, node, which)

    return f


EXT["numpy.all"] = _np_allany("all")
EXT["numpy.any"] = _np_allany("any")


def _np_arg(which):
    def f(ex, args, kwargs, node):
        v = _arr(ex, args[0], node)
        r = ex.mk(which, ex.as_nf(v, node), shape=(), dtype="int")
        r.meta["arg_over"] = v
        ex.emit("argext", node, op=which, over=v, result=r)
        return r

    return f


EXT["numpy.argmax"] = _np_arg("argmax")
EXT["numpy.argmin"] = _np_arg("argmin")


@model("numpy.quantile")
def _np_quantile(ex, args, kwargs, node):
    v = _arr(ex, _kw(args, kwargs, 0, "a"), node)
    q = _kw(args, kwargs, 1, "q")
    if not isinstance(q, Num) or q.nf is None:
        raise Undecided("np.quantile without a numeric q", node)
    r = ex.mk("quantile", ex.as_nf(v, node), q.nf, shape=(), dtype="float")
    r.meta["quantile_of"] = v
    ex.emit("quantile", node, over=v, q=q, result=r)
    return r


@model("numpy.mean", "numpy.median")
def _np_mean(ex, args, kwargs, node):
    v = _arr(ex, args[0], node)
    return ex.mk("mean", ex.as_nf(v, node), shape=(), dtype="float")


@model("numpy.var", "numpy.std")
def _np_var(ex, args, kwargs, node):
    v = _arr(ex, args[0], node)
    name = "std" if ast.unparse(node.func).endswith("std") else "var"
    axis = _kw(args, kwargs, 1, "axis", None)
    ddof = kwargs.get("ddof")
    dd = ddof.nf if isinstance(ddof, Num) else NF.const(0)
    ax = cint(axis) if isinstance(axis, Num) else None
    shape = ()
    if ax is not None and v.shape is not None and len(v.shape) >= 1:
        shape = tuple(d for i, d in enumerate(v.shape) if i != (ax % len(v.shape)))
    return ex.mk(name, ex.as_nf(v, node), dd, NF.const(ax) if ax is not None else "all", shape=shape, dtype="float")


@model("numpy.argsort")
def _np_argsort(ex, args, kwargs, node):
    v = _arr(ex, args[0], node)
    # the sorting permutation of v (kind= only selects the algorithm / stability)
    r = ex.mk("argsort", ex.as_nf(v, node), shape=v.shape, dtype="int")
    r.meta["perm_of"] = v
    r.meta["kind"] = "POS"
    return r


@model("numpy.unique")
def _np_unique(ex, args, kwargs, node):
    v = _arr(ex, args[0], node)
    r = ex.mk("unique", ex.as_nf(v, node), shape=(app("nunique", ex.as_nf(v, node)),), dtype=v.dtype)
    r.meta["unique_of"] = v
    return r


def _np_round(name):
    def f(ex, args, kwargs, node):
        v = _arr(ex, args[0], node)
        c = v.nf.as_const() if v.cond is None else None
        if c is not None:
            import math

            val = {"ceil": math.ceil, "floor": math.floor, "round": round}[name](c)
            return Num(NF.const(val), v.shape, "float")
        r = ex.mk(name, ex.as_nf(v, node), shape=v.shape, dtype="float")
        r.meta["rounded"] = v
        return r

    return f


EXT["numpy.round"] = _np_round("round")
EXT["numpy.ceil"] = _np_round("ceil")
EXT["numpy.floor"] = _np_round("floor")


@model("numpy.geomspace", "numpy.linspace")
def _np_space(ex, args, kwargs, node):
    lo, hi = args[0], args[1]
    n = _kw(args, kwargs, 2, "num", scalar_int(50))
    dt = _dtype_of(kwargs.get("dtype"))
    fn = "geomspace" if "geomspace" in ast.unparse(node.func) else "linspace"
    ep = kwargs.get("endpoint")
    endpoint = True
    if ep is not None:
        c = ep.cond if isinstance(ep, Num) and ep.cond is not None else None
        endpoint = True if (c is not None and c.t == ("const", True)) else (False if (c is not None and c.t == ("const", False)) else None)
    name = "space" if endpoint is True else "space_open"
    r = ex.mk(name, lo.nf, hi.nf, n.nf, shape=(n.nf,), dtype=dt or "float")
    r.meta["space"] = (lo, hi, n)
    ex.emit("space", node, lo=lo, hi=hi, num=n, result=r, dtype=dt, fn=fn, endpoint=endpoint)
    return r


@model("numpy.flatnonzero")
def _np_flatnonzero(ex, args, kwargs, node):
    v = _arr(ex, args[0], node)
    k = valkey(v)
    r = ex.mk("flatnonzero", k, shape=(app("count", k),), dtype="int")
    r.meta["kind"] = "POS"
    r.meta["mask"] = v
    return r


@model("numpy.isin")
def _np_isin(ex, args, kwargs, node):
    a, b = _arr(ex, args[0], node), _arr(ex, args[1], node)
    r = ex.mk("isin", ex.as_nf(a, node), ex.as_nf(b, node), shape=a.shape, dtype="bool")
    r.meta["boolarr"] = True
    r.meta["isin"] = (a, b)
    inv = kwargs.get("invert")
    if inv is not None and not isinstance(inv, NoneV):
        if isinstance(inv, Num) and inv.cond is not None and inv.cond.is_const():
            if inv.cond.value():
                # np.isin(a, b, invert=True) is ~np.isin(a, b)
                r2 = ex.mk("invert", r.nf, shape=r.shape, dtype="bool")
                r2.meta["boolarr"] = True
                return r2
        else:
            raise Undecided("np.isin with a symbolic invert flag", node)
    return r


@model("numpy.isnan")
def _np_isnan(ex, args, kwargs, node):
    v = args[0]
    if isinstance(v, Num) and v.cond is None and nf_equal(v.nf, NAN):
        return Num(None, v.shape, "bool", cond=Cond.const(True))
    if isinstance(v, Num) and v.cond is None and v.nf.as_const() is not None:
        return Num(None, v.shape, "bool", cond=Cond.const(False))
    return Num(None, v.shape if isinstance(v, Num) else (), "bool", cond=Cond("opq", f"isnan({valkey(v)})"), meta={"isnan_of": v})


@model("numpy.cov")
def _np_cov(ex, args, kwargs, node):
    v = _arr(ex, args[0], node)
    rowvar = kwargs.get("rowvar")
    ddof = kwargs.get("ddof")
    p = v.shape[1] if v.shape is not None and len(v.shape) == 2 else None
    r = ex.mk("cov", ex.as_nf(v, node), valkey(rowvar) if rowvar is not None else "default", valkey(ddof) if ddof is not None else "default", shape=(p, p) if p is not None else None, dtype="float")
    return r


@model("numpy.linalg.slogdet")
def _np_slogdet(ex, args, kwargs, node):
    v = _arr(ex, args[0], node)
    return TupleV([ex.mk("detsign", v.nf, shape=(), dtype="float"), ex.mk("logabsdet", v.nf, shape=(), dtype="float")])


@model("numpy.linalg.det")
def _np_det(ex, args, kwargs, node):
    # det(A) as a value: sign(det A) = detsign(A), log(det A) = logabsdet(A) where positive (nf_log).  The determinant
    # itself scales as c^(2p) with the data: the event lets scale-sensitive rules see that it was materialised.
    v = _arr(ex, args[0], node)
    ex.emit("det_materialised", node, operand=v)
    return ex.mk("det", v.nf, shape=(), dtype="float")


@model("numpy.linalg.inv")
def _np_inv(ex, args, kwargs, node):
    v = _arr(ex, args[0], node)
    return ex.mk("inv", v.nf, shape=v.shape, dtype="float")


@model("numpy.atleast_1d", "numpy.atleast_2d")
def _np_atleast(ex, args, kwargs, node):
    v = _arr(ex, args[0], node)
    want = 2 if "atleast_2d" in ast.unparse(node.func) else 1
    if v.shape is None:
        return Num(v.nf, None, v.dtype, "ndarray", arr=v.arr, cond=v.cond, meta=dict(v.meta, alias_of=v))
    sh = tuple(v.shape)
    while len(sh) < want:
        sh = (NF.const(1),) + sh
    return Num(v.nf, sh, v.dtype, "ndarray", arr=v.arr, cond=v.cond, meta=dict(v.meta, alias_of=v))


@model("numpy.linalg.cholesky")
def _np_cholesky(ex, args, kwargs, node):
    # lower-triangular L with A = L @ L.T (numpy's convention)
    v = _arr(ex, args[0], node)
    r = ex.mk("chol", v.nf, shape=v.shape, dtype="float")
    r.meta["chol_of"] = v
    return r


@model("numpy.diag")
def _np_diag(ex, args, kwargs, node):
    v = _arr(ex, args[0], node)
    if v.shape is not None and len(v.shape) == 2:
        return ex.mk("diag", v.nf, shape=(v.shape[0],), dtype=v.dtype)
    if v.shape is not None and len(v.shape) == 1:
        return ex.mk("diagm", v.nf, shape=(v.shape[0], v.shape[0]), dtype=v.dtype)
    return ex.mk("diag", v.nf, shape=None, dtype=v.dtype)


@model("numpy.linalg.eigvals")
def _np_eigvals(ex, args, kwargs, node):
    v = _arr(ex, args[0], node)
    return ex.mk("eigvals", v.nf, shape=(v.shape[0],) if v.shape else None, dtype="float")


@model("numpy.vectorize")
def _np_vectorize(ex, args, kwargs, node):
    return OpaqueV("vectorize", {"kind": "vectorize", "fn": args[0]})


@model("numpy.issubdtype")
def _np_issubdtype(ex, args, kwargs, node):
    d, t = args
    of = d.meta.get("of") if isinstance(d, OpaqueV) else None
    tname = t.dotted if isinstance(t, ExtV) else valkey(t)
    c = Cond("opq", f"issubdtype({valkey(of) if of is not None else valkey(d)},{tname})")
    if isinstance(of, Num) and of.dtype is not None and tname == "numpy.integer":
        c = Cond.const(of.dtype == "int")
    return Num(None, (), "bool", cond=c, meta={"dtype_check": (of, tname)})


@model("numpy.insert")
def _np_insert(ex, args, kwargs, node):
    v = _arr(ex, args[0], node)
    return ex.mk("insert", ex.as_nf(v, node), valkey(args[1]), valkey(args[2]), shape=None, dtype=v.dtype)


@model("numpy.roll")
def _np_roll(ex, args, kwargs, node):
    v = _arr(ex, args[0], node)
    r = ex.mk("roll", valkey(v), valkey(args[1]), shape=v.shape, dtype=v.dtype)
    if v.cond is not None or v.dtype == "bool":
        r.meta["boolarr"] = True
    return r


@model("numpy.where")
def _np_where(ex, args, kwargs, node):
    if len(args) == 3:
        c, a, b = args
        # np.where(x < m, m, x) is max(x, m), np.where(x < m, x, m) is min(x, m) (also with <=, >, >=: the test compares
        # the two alternatives themselves); a NaN on either side gives NaN in both spellings
        if isinstance(c, Num) and c.cond is not None and c.cond.t[0] == "cmp" and c.cond.t[1] in ("<0", "<=0") and isinstance(a, Num) and isinstance(b, Num) and a.nf is not None and b.nf is not None and a.cond is None and b.cond is None:
            d = c.cond.t[2]
            shape = ex.bshape(ex.bshape(a.shape, b.shape, node), c.shape, node) if c.shape is not None else ex.bshape(a.shape, b.shape, node)
            if nf_equal(d, b.nf - a.nf):
                # picks a when b < a: the larger one
                rr = nf_max(a.nf, b.nf)
                ex.register_atom(rr, shape)
                return Num(rr, shape, "float" if "float" in (a.dtype, b.dtype) else a.dtype)
            if nf_equal(d, a.nf - b.nf):
                rr = nf_min(a.nf, b.nf)
                ex.register_atom(rr, shape)
                return Num(rr, shape, "float" if "float" in (a.dtype, b.dtype) else a.dtype)
        r = ex.mk("where", valkey(c), ex.as_nf(a, node), ex.as_nf(b, node), shape=ex.bshape(a.shape, b.shape, node))
        return r
    v = _arr(ex, args[0], node)
    k = valkey(v)
    return TupleV([ex.mk("flatnonzero", k, shape=(app("count", k),), dtype="int")])


# ----------------------------------------------------------------- numbers / scipy / sktime


@model("sktime.utils.validation.series.check_series")
def _check_series(ex, args, kwargs, node):
    # sktime 1.1.0: returns its first argument (a reference, no copy) after type checks
    return args[0]


@model("scipy.stats.chi2.ppf", "scipy.stats.chi2.pdf")
def _chi2(ex, args, kwargs, node):
    name = "chi2ppf" if "ppf" in ast.unparse(node.func) else "chi2pdf"
    shape = ()
    for a in args:
        if isinstance(a, Num) and a.shape:
            shape = a.shape
    return ex.mk(name, *[ex.as_nf(a, node) for a in args], shape=shape, dtype="float")


@model("scipy.stats.multivariate_normal.rvs")
def _mvn_rvs(ex, args, kwargs, node):
    names = ["mean", "cov", "size", "random_state"]
    b = {}
    for i, a in enumerate(args):
        b[names[i]] = a
    b.update(kwargs)
    ex.emit("rng_draw", node, callee="scipy.stats.multivariate_normal.rvs", bound=b)
    mean = b.get("mean")
    size = b.get("size")
    p = mean.shape[0] if isinstance(mean, Num) and mean.shape else None
    n = size.nf if isinstance(size, Num) else None
    a = ex.new_array(("opaque", "rvs"), (n, p) if (n is not None and p is not None) else None, "float", node)
    a.rvs = b
    # scipy squeezes unit dimensions out of the sample: the nominal (size, dim) shape is exact only
    # after an explicit reshape (recorded by num_method 'reshape' in a.reshaped_to)
    a.squeezed = True
    a.reshaped_to = None
    return ex.arr_value(a)


# ------------------------------------------------------------------- pandas


@model("pandas.Interval")
def _pd_interval(ex, args, kwargs, node):
    lo, hi = args[0], args[1]
    closed = _kw(args, kwargs, 2, "closed", StrV("right"))
    return OpaqueV(f"Interval({valkey(lo)},{valkey(hi)},{valkey(closed)})", {"kind": "interval", "lo": lo, "hi": hi, "closed": closed.s if isinstance(closed, StrV) else None})


@model("pandas.DataFrame", "pandas.Series")
def _pd_frame(ex, args, kwargs, node):
    data = _kw(args, kwargs, 0, "data", NONE)
    which = "frame" if ast.unparse(node.func).endswith("DataFrame") else "series"
    index = kwargs.get("index", args[1] if len(args) > 1 else None)
    ex.emit("pandas_ctor", node, which=which, data=data, index=index, kwargs=kwargs, args=args)
    if is_raw(data):
        if which == "frame":
            r = Num(sym("X"), (sym("n"), sym("p")), "float", "frame", meta={"alias_of": data, "index_arg": index, "normalised": True})
            ex.atom_shapes[Atom("sym", "X").key] = (sym("n"), sym("p"))
            return r
        ex.emit("raw_use", node, what="operand of pandas.Series", value=data)
    if isinstance(data, Num):
        shape = data.shape
        if which == "frame" and shape is not None and len(shape) == 1:
            shape = (shape[0], NF.const(1))
        r = Num(data.nf, shape, data.dtype, which, arr=data.arr, cond=data.cond, meta={"alias_of": data, "index_arg": index, "ctor": node})
        return r
    return OpaqueV(f"pd.{which}({valkey(data)})", {"kind": which, "data": data, "index_arg": index, "kwargs": kwargs})


@model("pandas.Index")
def _pd_index(ex, args, kwargs, node):
    v = args[0] if args else kwargs.get("data")
    if isinstance(v, Num) and v.pytype == "index":
        return v  # an Index of an Index: the same labels
    if isinstance(v, Num):
        return Num(v.nf, v.shape, v.dtype, "index", arr=v.arr, cond=v.cond, meta=dict(v.meta))
    return OpaqueV(f"pandas.Index({valkey(v)})", {"kind": "index", "of": v})


@model("pandas.concat")
def _pd_concat(ex, args, kwargs, node):
    ex.emit("pandas_concat", node, parts=args[0], kwargs=kwargs)
    return OpaqueV(f"pd.concat({valkey(args[0])})", {"kind": "frame", "concat": args[0]})


@model("pandas.RangeIndex")
def _pd_rangeindex(ex, args, kwargs, node):
    return OpaqueV("RangeIndex(" + ",".join(valkey(a) for a in args) + ")", {"kind": "rangeindex", "args": args, "kwargs": kwargs})


@model("pandas.IntervalIndex", "pandas.IntervalIndex.from_tuples")
def _pd_intervalindex(ex, args, kwargs, node):
    return OpaqueV("IntervalIndex(" + ",".join(valkey(a) for a in args) + ")", {"kind": "intervalindex", "args": args, "kwargs": kwargs})


# ================================================================== methods

ARRAY_MUTATORS = {"sort", "fill", "resize", "put", "itemset", "partition", "setfield", "byteswap"}


def call_method(ex, recv, name, args, kwargs, node, frame):
    if isinstance(recv, Num):
        return num_method(ex, recv, name, args, kwargs, node)
    if isinstance(recv, ListV):
        return list_method(ex, recv, name, args, kwargs, node)
    if isinstance(recv, TupleV):
        if name == "index" or name == "count":
            return OpaqueV(f"tuple.{name}")
        raise Undecided(f"tuple method {name}", node)
    if isinstance(recv, StrV):
        return StrV(None, key=f"{recv.key}.{name}(" + ",".join(valkey(a) for a in args) + ")")
    if isinstance(recv, ObjV):
        return obj_method(ex, recv, name, args, kwargs, node)
    if isinstance(recv, ClassV):
        if name in ("get_class_tag", "get_class_tags"):
            return OpaqueV(f"{recv.cls.name}.{name}({','.join(valkey(a) for a in args)})")
        ex.emit("unmodelled", node, callee=f"{recv.cls.qualname}.{name}", args=args, kwargs=kwargs)
        return OpaqueV(f"{recv.cls.name}.{name}()")
    if isinstance(recv, DictV):
        if getattr(recv, "opaque", False):
            return OpaqueV(f"{valkey(recv)}.{name}()", {"dict_method": name, "recv": recv})
        if name == "items":
            return TupleV([TupleV([k, v]) for k, v in recv.items])
        if name == "keys":
            return TupleV([k for k, _ in recv.items])
        if name == "values":
            return TupleV([v for _, v in recv.items])
        if name == "get":
            for k, v in recv.items:
                if valkey(k) == valkey(args[0]):
                    return v
            return args[1] if len(args) > 1 else NONE
        raise Undecided(f"dict method {name}", node)
    if isinstance(recv, OpaqueV):
        return opaque_method(ex, recv, name, args, kwargs, node)
    if isinstance(recv, BoundExt):
        return OpaqueV(f"{valkey(recv)}.{name}()")
    if isinstance(recv, (FuncV, ClosureV, RangeV)):
        return OpaqueV(f"{valkey(recv)}.{name}()")
    raise Undecided(f"method {name} of {recv!r}", node)


def opaque_method(ex, recv: OpaqueV, name, args, kwargs, node):
    k = recv.meta.get("kind")
    if k == "raw":
        ex.emit("raw_use", node, what=f".{name}()", value=recv)
    if k == "super":
        cls = recv.meta["cls"]
        obj = recv.meta["obj"]
        mro = ex.P.mro(obj.cls if isinstance(obj, ObjV) and obj.cls is not None else cls)
        # continue the lookup after `cls`
        seen = False
        for c in mro:
            if not seen:
                if hasattr(c, "qualname") and c.qualname == cls.qualname:
                    seen = True
                continue
            if hasattr(c, "methods") and name in c.methods:
                return ex.call_function(c.methods[name], args, kwargs, self_obj=obj, node=node)
        # external base (sktime BaseEstimator): __init__ etc. are no-ops for the analysis
        ex.emit("external_super", node, method=name, obj=obj)
        return NONE
    if k == "vectorize":
        fn = recv.meta["fn"]
        if name == "__call__":
            return ex.call(fn, args, kwargs, node)
    ex.emit("opaque_method", node, recv=recv, method=name, args=args, kwargs=kwargs)
    if name in ("to_list", "tolist"):
        ex.list_counter += 1
        r = ListV([], opaque=True, lid=ex.list_counter)
        r.from_opaque = recv
        r.numeric = True
        r.key = f"{recv.key}.{name}()"
        return r
    meta = {"recv": recv, "method": name, "args": args, "kwargs": kwargs}
    if name in ("to_numpy", "to_list", "tolist") or name == "values":
        meta["alias_of"] = recv
    return OpaqueV(f"{recv.key}.{name}(" + ",".join(valkey(a) for a in args) + ")", meta)


SKTIME_METHODS = {"check_is_fitted", "clone", "set_params", "get_params", "reset", "get_class_tag", "get_tag", "get_tags", "get_fitted_params", "set_tags", "clone_tags", "get_config", "set_config", "get_class_tags", "is_composite"}


def obj_method(ex, obj: ObjV, name, args, kwargs, node):
    if name == "check_is_fitted":
        ex.emit("check_is_fitted", node, obj=obj)
        v = obj.fields.get("_is_fitted")
        if isinstance(v, Num) and v.cond is not None and v.cond.is_const() and not v.cond.value():
            ex.emit("raise", node, exc="NotFittedError", args=None)
            from .symex import RaiseSignal

            raise RaiseSignal("NotFittedError", None, node, None)
        return NONE
    if name == "clone":
        # sktime: clone() == type(self)(**self.get_params(deep=False)): a fresh,
        # unfitted object constructed from the hyper-parameter attributes
        ev_ = ex.emit("clone", node, obj=obj)
        if obj.cls is not None and not obj.abstract:
            init = ex.P.lookup_method(obj.cls, "__init__")
            kw = {}
            if init is not None:
                for p in init.params[1:]:
                    if p in obj.fields:
                        kw[p] = obj.fields[p]
            new = ex.new_object(obj.cls, [], kw, node)
            new.meta["clone_of"] = obj
            ev_.data["new"] = new
            return new
        ex.obj_counter += 1
        new = ObjV(obj.cls, f"clone({obj.key})#{ex.obj_counter}", {}, abstract=True, role=obj.role)
        new.meta["clone_of"] = obj
        for k, v in obj.fields.items():
            if not k.startswith("_") and not k.endswith("_"):
                if isinstance(v, Num) and v.nf is not None:
                    a = single_atom(v.nf)
                    if a is not None and a.kind == "sym" and str(a.args[0]).endswith(f"({obj.key})"):
                        v = Num(sym(str(a.args[0])[: -len(obj.key) - 2] + f"({new.key})"), v.shape, v.dtype, v.pytype)
                new.fields[k] = v
        new.meta.update({kk: vv for kk, vv in obj.meta.items() if kk in ("ncols",)})
        new.meta["fitted_on"] = "UNFITTED"
        ev_.data["new"] = new
        return new
    if name == "set_params":
        # sktime: set_params(**kw) sets the attributes and re-runs __init__ (reset)
        ex.emit("set_params", node, obj=obj, kwargs=kwargs)
        if obj.cls is not None and not obj.abstract:
            init = ex.P.lookup_method(obj.cls, "__init__")
            kw = {}
            if init is not None:
                for p in init.params[1:]:
                    if p in kwargs:
                        kw[p] = kwargs[p]
                    elif p in obj.fields:
                        kw[p] = obj.fields[p]
                obj.fields.clear()
                ex.call_function(init, [], kw, self_obj=obj, node=node)
            return obj
        for k, v in kwargs.items():
            obj.fields[k] = v
        return obj
    if name in ("get_class_tag", "get_tag"):
        # sktime: tags are collected from the `_tags` class dictionaries along the MRO (nearest class wins); dynamic
        # set_tags overrides are not modelled (reported as opaque when no static value is found)
        tag = args[0].s if args and isinstance(args[0], StrV) else None
        if tag is not None and obj.cls is not None and not obj.abstract:
            for k in ex.P.mro(obj.cls):
                if hasattr(k, "attrs") and "_tags" in k.attrs and isinstance(k.attrs["_tags"], ast.Dict):
                    d = k.attrs["_tags"]
                    for kk, vv in zip(d.keys, d.values):
                        if isinstance(kk, ast.Constant) and kk.value == tag:
                            if isinstance(vv, ast.Constant):
                                c = vv.value
                                if isinstance(c, bool):
                                    return Num(None, (), "bool", cond=Cond.const(c))
                                if isinstance(c, (int, float)):
                                    return Num(NF.const(c), (), "int" if isinstance(c, int) else "float")
                                if isinstance(c, str):
                                    return StrV(c)
                                if c is None:
                                    return NONE
                            return OpaqueV(f"tag({obj.key},{tag})")
        return OpaqueV(f"tag({obj.key},{valkey(args[0]) if args else ''})")
    if obj.abstract or obj.cls is None:
        ex.emit("abstract_call", node, obj=obj, method=name, args=args, kwargs=kwargs)
        h = ex.summaries.get("abstract:" + name)
        if h is not None:
            return h(ex, obj, args, kwargs, node)
        return OpaqueV(f"{obj.key}.{name}(" + ",".join(valkey(a) for a in args) + ")", {"recv": obj, "method": name, "args": args})
    if name in SKTIME_METHODS:
        ex.emit("sktime_call", node, obj=obj, method=name)
        return OpaqueV(f"{obj.key}.{name}()")
    ex.emit("unknown_method", node, obj=obj, method=name)
    raise Undecided(f"method {name} not found on {obj!r}", node)


def list_method(ex, lst: ListV, name, args, kwargs, node):
    if name in ("append", "extend", "insert", "reverse") and getattr(lst, "is_sorted", False):
        lst.is_sorted = False  # a list that was sorted is not known to be sorted after it has grown / been reordered
    if name == "append":
        ex.emit("list_append", node, lst=lst, value=args[0])
        if not lst.opaque:
            lst.items.append(args[0])
        else:
            lst.appended = getattr(lst, "appended", []) + [args[0]]
            if lst.elem is None and not lst.items:
                lst.elem = None
        lst.version = getattr(lst, "version", 0) + 1
        return NONE
    if name == "extend":
        ex.list_extend(lst, args[0], node)
        return NONE
    if name == "popleft" and not args:
        # collections.deque: popleft() is pop(0)
        name, args = "pop", [scalar_int(0)]
    if name == "pop":
        ex.emit("list_pop", node, lst=lst, index=args[0] if args else None)
        lst.version = getattr(lst, "version", 0) + 1
        if not lst.opaque and lst.items:
            i = cint(args[0]) if args else -1
            if i is not None and -len(lst.items) <= i < len(lst.items):
                return lst.items.pop(i)
        r = ex.list_elem(lst, node)
        if isinstance(r, OpaqueV):
            r = OpaqueV(f"pop(list#{lst.lid})", {"popped_from": lst, "index": args[0] if args else None})
        return r
    if name == "sort":
        ex.emit("list_sort", node, lst=lst)
        lst.is_sorted = True
        if len(lst.items) > 1:
            lst.opaque = True
        return NONE
    if name == "copy":
        ex.list_counter += 1
        return ListV(list(lst.items), lst.opaque, ex.list_counter, lst.elem)
    if name in ("index", "count"):
        return OpaqueV(f"list#{lst.lid}.{name}()")
    if name in ("insert", "remove", "clear", "reverse"):
        ex.emit("list_mutate", node, lst=lst, method=name)
        lst.opaque = True
        return NONE
    raise Undecided(f"list method {name}", node)


def num_method(ex, v: Num, name, args, kwargs, node):
    if name == "reshape":
        dims = args
        if len(args) == 1 and isinstance(args[0], (TupleV, ListV)):
            dims = args[0].items
        cd = [cint(d) for d in dims]
        shape = None
        if v.shape is not None:
            total = NF.const(1)
            for d in v.shape:
                total = total * lift(d)
            known = NF.const(1)
            for d, c in zip(dims, cd):
                if c != -1:
                    known = known * d.nf
            out = []
            for d, c in zip(dims, cd):
                out.append(total / known if c == -1 else d.nf)
            shape = tuple(out)
        elif all(isinstance(d, Num) for d in dims) and sum(1 for c in cd if c == -1) <= 1:
            # operand of unknown shape: the requested dimensions are known all the same (the free one is whatever fits)
            shape = tuple(app("freedim", valkey(v)) if c == -1 else d.nf for d, c in zip(dims, cd))
        r = Num(v.nf, shape, v.dtype, v.pytype, arr=v.arr, cond=v.cond, meta=dict(v.meta, reshaped_from=v))
        if v.arr is not None and getattr(v.arr, "squeezed", False):
            tgt = shape if shape is not None else (tuple(d.nf for d in dims) if all(isinstance(d, Num) for d in dims) else None)
            v.arr.reshaped_to = tgt
            ex.emit("reshape", node, arr=v.arr, dims=tgt)
        return r
    if name in ("sum",):
        return reduce_sum(ex, v, _axis(kwargs, args, 0), node)
    if name == "copy":
        if v.arr is not None or v.shape != ():
            a = ex.new_array(("copy", ex.as_nf(v, node) if v.cond is None else app("ind", v.cond.key)), v.shape, v.dtype, node)
            a.copy_of = v
            return ex.arr_value(a)
        return v
    if name == "astype":
        dt = _dtype_of(args[0]) if args else None
        ex.emit("cast", node, value=v, dtype=dt, how="astype", target=args[0] if args else None)
        sg = _signed_target(args[0]) if args else None
        meta = dict(v.meta, signed=sg) if sg is not None else dict(v.meta)
        if sg is not None:
            meta["wide"] = _wide_target(args[0])
        cp = kwargs.get("copy")
        if cp is None or (isinstance(cp, Num) and cp.cond is not None and cp.cond.t == ("const", True)):
            # astype copies unless copy=False is passed: a store into the result does not reach the operand
            meta.pop("foreign", None)
            meta.pop("alias_of", None)
            meta["fresh"] = True
        return Num(v.nf, v.shape, dt or v.dtype, v.pytype, cond=v.cond, meta=meta)
    if name in ("argmax", "argmin"):
        return EXT["numpy." + name](ex, [v] + list(args), kwargs, node)
    if name in ("any", "all"):
        return EXT["numpy." + name](ex, [v] + list(args), kwargs, node)
    if name in ("min", "max"):
        r = ex.mk(name + "all", ex.as_nf(v, node), shape=(), dtype=v.dtype)
        r.meta["reduced_from"] = v
        ex.emit("reduce_minmax", node, op=name, over=v, result=r)
        return r
    if name == "argsort":
        r = ex.mk("argsort", ex.as_nf(v, node), shape=v.shape, dtype="int")
        r.meta["argsort_of"] = v
        return r
    if name == "cumsum":
        return EXT["numpy.cumsum"](ex, [v] + list(args), kwargs, node)
    if name in ("to_numpy", "to_list", "tolist", "flatten", "ravel", "squeeze", "to_frame"):
        if name == "to_frame":
            sh = v.shape
            if sh is not None and len(sh) == 1:
                sh = (sh[0], NF.const(1))
            return Num(v.nf, sh, v.dtype, "frame", arr=v.arr, cond=v.cond, meta={"alias_of": v})
        if name in ("to_list", "tolist"):
            ex.list_counter += 1
            r = ListV([], opaque=True, lid=ex.list_counter, elem=Num(v.nf, (), v.dtype) if v.shape is not None and len(v.shape) == 1 else None)
            r.from_array = v
            return r
        if name == "squeeze":
            # axes of length one are dropped: a known shape loses its constant-1 dimensions; for an operand of unknown
            # rank the result is another value with a rank of its own
            if v.shape is None:
                return ex.mk("squeeze", ex.as_nf(v, node), shape=None, dtype=v.dtype)
            sh = tuple(d for d in v.shape if lift(d).as_const() != 1)
            if len(sh) != len(v.shape):
                return Num(v.nf, sh, v.dtype, "ndarray", arr=v.arr, cond=v.cond, meta=dict(v.meta, alias_of=v))
        return Num(v.nf, v.shape, v.dtype, "ndarray", arr=v.arr, cond=v.cond, meta=dict(v.meta, alias_of=v))
    if name == "isna":
        return Num(None, v.shape, "bool", v.pytype, cond=Cond("opq", f"isna({valkey(v)})"))
    if name == "mean":
        return ex.mk("mean", ex.as_nf(v, node), shape=(), dtype="float")
    if name in ARRAY_MUTATORS:
        ex.emit("array_mutate", node, target=v, method=name)
        if v.arr is not None:
            v.arr.epoch += 1
        return NONE
    if name == "item":
        return Num(v.nf, (), v.dtype, cond=v.cond)
    if name in ("combine_first", "reset_index", "groupby", "diff", "abs", "get_indexer", "set_index", "rename", "isin", "nonzero", "round"):
        ex.emit("pandas_method", node, recv=v, method=name, args=args, kwargs=kwargs)
        return OpaqueV(f"{valkey(v)}.{name}(" + ",".join(valkey(a) for a in args) + ")", {"recv": v, "method": name, "args": args, "kwargs": kwargs})
    ex.emit("unmodelled", node, callee=f"ndarray.{name}", args=[v] + list(args), kwargs=kwargs)
    return OpaqueV(f"{valkey(v)}.{name}()", {"recv": v, "method": name})
