"""Seeded variants for the self-test (must-fire mutants and must-stay-silent twins)."""

VARIANTS = []


def V(id, props, file, old, new, expect, desc, mention=None, more=None):
    edits = [{"file": file, "old": old, "new": new}] + (more or [])
    VARIANTS.append({"id": id, "props": props if isinstance(props, list) else [props], "edits": edits, "expect": expect, "desc": desc, "mention": mention})


L2 = "skchange/costs/l2_cost.py"
GV = "skchange/costs/gaussian_var_cost.py"
GC = "skchange/costs/gaussian_cov_cost.py"
ST = "skchange/utils/numba/stats.py"
GEN = "skchange/utils/numba/general.py"
CU = "skchange/costs/utils.py"
CB = "skchange/costs/base.py"

# ------------------------------------------------------------------- C01 fire
V("c01-l2-optim-end-off", "C01", L2, "    partial_sums = sums[ends] - sums[starts]\n    partial_sums2 = sums2[ends] - sums2[starts]\n    n = (ends - starts).reshape(-1, 1)\n    costs = partial_sums2 - partial_sums**2 / n",
  "    partial_sums = sums[ends - 1] - sums[starts]\n    partial_sums2 = sums2[ends] - sums2[starts]\n    n = (ends - starts).reshape(-1, 1)\n    costs = partial_sums2 - partial_sums**2 / n", "fire", "off-by-one prefix-sum index in l2_cost_optim", ["l2_cost", "L2Cost"])
V("c01-l2-optim-len", "C01", L2, "    n = (ends - starts).reshape(-1, 1)\n    costs = partial_sums2 - partial_sums**2 / n", "    n = (ends - starts + 1).reshape(-1, 1)\n    costs = partial_sums2 - partial_sums**2 / n", "fire", "segment length off by one", ["L2Cost"])
V("c01-l2-fixed-sign", "C01", L2, "costs = partial_sums2 - 2 * mean * partial_sums + n * mean**2", "costs = partial_sums2 - 2 * mean * partial_sums - n * mean**2", "fire", "sign slip in fixed-mean RSS", ["L2Cost|fixed"])
V("c01-l2-fixed-drop2", "C01", L2, "costs = partial_sums2 - 2 * mean * partial_sums + n * mean**2", "costs = partial_sums2 - mean * partial_sums + n * mean**2", "fire", "dropped factor 2", ["L2Cost|fixed"])
V("c01-l2-noreshape", "C01", L2, "    n = (ends - starts).reshape(-1, 1)\n    costs = partial_sums2 - 2 * mean", "    n = ends - starts\n    costs = partial_sums2 - 2 * mean", "fire", "dropped reshape(-1, 1): (k,) broadcast against (k,p)", ["SHAPE-COLS"])
V("c01-l2-sq-fit", "C01", L2, "self.sums2_ = col_cumsum(X**2, init_zero=True)", "self.sums2_ = col_cumsum(X * 2, init_zero=True)", "fire", "squared data replaced by doubled data", ["L2Cost"])
V("c01-l2-swap-sums", "C01", L2, "return l2_cost_optim(starts, ends, self.sums_, self.sums2_)", "return l2_cost_optim(starts, ends, self.sums2_, self.sums_)", "fire", "swapped prefix-sum arguments", ["L2Cost|optim"])
V("c01-gv-floor", "C01", GV, "return truncate_below(var, 1e-16)", "return truncate_below(var, 1e-8)", "fire", "variance floor changed", ["GaussianVarCost|optim"])
V("c01-gv-nofloor", "C01", GV, "return truncate_below(var, 1e-16)  # standard deviation lower bound of 1e-8", "return var", "fire", "variance floor removed", ["GaussianVarCost|optim"])
V("c01-gv-var", "C01", GV, "var = partial_sums2 / n - (partial_sums / n) ** 2", "var = partial_sums2 / n - partial_sums**2 / n", "fire", "wrong variance formula", ["GaussianVarCost|optim"])
V("c01-gv-fixed-quad", "C01", GV, "log_likelihood = -n * np.log(2 * np.pi * var) - quadratic_form / var", "log_likelihood = -n * np.log(2 * np.pi * var) - quadratic_form", "fire", "quadratic form not divided by variance", ["GaussianVarCost|fixed"])
V("c01-gv-optim-n", "C01", GV, "log_likelihood = -n * np.log(2 * np.pi * var) - n\n", "log_likelihood = -n * np.log(2 * np.pi * var) - 1\n", "fire", "constant term of the likelihood", ["GaussianVarCost|optim"])
V("c01-gv-tuple-swap", "C01", GV, "        mean, var = self._param\n        return gaussian_var_cost_fixed", "        var, mean = self._param\n        return gaussian_var_cost_fixed", "fire", "mean/var unpacked in the wrong order", ["GaussianVarCost|fixed"])
V("c01-gc-ddof", "C01", ST, "cov = np.cov(X, rowvar=False, ddof=0).reshape(p, p)", "cov = np.cov(X, rowvar=False, ddof=1).reshape(p, p)", "fire", "MLE covariance replaced by unbiased estimate", ["GaussianCovCost|optim"])
V("c01-gc-nonpd", "C01", GC, "    if np.isnan(log_det_cov):\n        raise RuntimeError(", "    if False and np.isnan(log_det_cov):\n        raise RuntimeError(", "fire", "non-PD covariance no longer raises", ["NONPD"])
V("c01-gc-optim-term", "C01", GC, "log_likelihood = -n * p * np.log(2 * np.pi) - n * log_det_cov - p * n", "log_likelihood = -n * p * np.log(2 * np.pi) - n * log_det_cov - n", "fire", "constant term p*n -> n", ["GaussianCovCost|optim"])
V("c01-gc-fixed-slice", "C01", GC, "    X_segment = X[start:end]\n    X_centered = X_segment - mean", "    X_segment = X[start : end - 1]\n    X_centered = X_segment - mean", "fire", "slice end off by one in the fixed multivariate kernel", ["GaussianCovCost|fixed"])
V("c01-gc-rowmix", "C01", GC, "        segment_log_likelihood = _gaussian_ll_at_mle_for_segment(X, starts[i], ends[i])", "        segment_log_likelihood = _gaussian_ll_at_mle_for_segment(X, starts[0], ends[i])", "fire", "row i scored from cut 0's start", ["GaussianCovCost|optim"])
V("c01-gc-store", "C01", GC, "        segment_log_likelihood = _gaussian_ll_at_mle_for_segment(X, starts[i], ends[i])\n        costs[i, 0] = -segment_log_likelihood", "        segment_log_likelihood = _gaussian_ll_at_mle_for_segment(X, starts[i], ends[i])\n        costs[i, 0] += -segment_log_likelihood + costs[i - 1, 0] * 0", "fire", "row depends on the previous row (augmented store)", ["GaussianCovCost|optim"])
V("c01-cumsum-start", "C01", ST, "        sums = np.zeros((n + 1, p))\n        start = 1", "        sums = np.zeros((n + 1, p))\n        start = 0", "fire", "prefix sums stored from row 0 (no zero row)", ["PREFIX-BUILDER"])
V("c01-cumsum-rows", "C01", ST, "        sums = np.zeros((n + 1, p))\n", "        sums = np.zeros((n + 2, p))\n", "fire", "prefix-sum allocation has a wrong number of rows", ["PREFIX-BUILDER"])
V("c01-initzero", "C01", L2, "self.sums_ = col_cumsum(X, init_zero=True)", "self.sums_ = col_cumsum(X, init_zero=False)", "fire", "prefix sums built without the zero row", ["L2Cost"])
V("c01-dispatch", "C01", CB, "        if self.param is None:\n            costs = self._evaluate_optim_param(starts, ends)", "        if self.param is not None:\n            costs = self._evaluate_optim_param(starts, ends)", "fire", "optimal/fixed dispatch inverted", ["PARAM-DISPATCH", "NF-KERNEL"])
V("c01-checkvar", "C01", CU, "    if np.any(var <= 0):", "    if np.any(var < 0):", "fire", "zero variance accepted", ["var-positive"])
V("c01-checkmean-len", "C01", CU, "    if len(mean) != 1 and len(mean) != X.shape[1]:", "    if len(mean) != 1 and len(mean) > X.shape[1]:", "fire", "short mean vectors accepted", ["length"])
V("c01-checkcov-pd", "C01", CU, "    if not np.all(np.linalg.eigvals(cov) > 0):", "    if not np.all(np.linalg.eigvals(cov) >= 0):", "fire", "singular covariance accepted", ["cov-pd"])
V("c01-nocheckvar", "C01", GV, "        var = check_var(var, X)\n", "        var = np.asarray(var)\n", "fire", "variance component not validated", ["routed", "var"])
V("c01-state", "C01", L2, '        return l2_cost_optim(starts, ends, self.sums_, self.sums2_)', '        self.last_ = l2_cost_optim(starts, ends, self.sums_, self.sums2_)\n        return self.last_', "fire", "evaluate stores state on self", ["ROW-INDEP"])
V("c01-cuts-mutated", "C01", CB, "        starts, ends = cuts[:, 0], cuts[:, 1]\n", "        starts, ends = cuts[:, 0], cuts[:, 1]\n        cuts[:, 0] = starts\n", "fire", "evaluate writes into the caller's cuts", ["ROW-INDEP"])

# ----------------------------------------------------------------- C01 silent
V("c01-s-l2-algebra", "C01", L2, "    costs = partial_sums2 - partial_sums**2 / n\n", "    mean = partial_sums / n\n    costs = partial_sums2 - n * mean**2\n", "silent", "RSS written as S2 - n*mean^2")
V("c01-s-l2-fixed-order", "C01", L2, "costs = partial_sums2 - 2 * mean * partial_sums + n * mean**2", "costs = n * mean**2 + partial_sums2 - partial_sums * mean * 2", "silent", "reordered terms")
V("c01-s-l2-rename", "C01", L2, "    partial_sums = sums[ends] - sums[starts]\n    partial_sums2 = sums2[ends] - sums2[starts]\n    n = (ends - starts).reshape(-1, 1)\n    costs = partial_sums2 - partial_sums**2 / n\n    return costs", "    s1 = sums[ends] - sums[starts]\n    s2 = sums2[ends] - sums2[starts]\n    seg_len = (ends - starts).reshape(-1, 1)\n    return s2 - s1 * s1 / seg_len", "silent", "renamed locals, x*x for x**2, direct return")
V("c01-s-gv-log-split", "C01", GV, "    log_likelihood = -n * np.log(2 * np.pi * var) - n\n    return -log_likelihood", "    return n * (np.log(2 * np.pi) + np.log(var)) + n", "silent", "log of product split into a sum")
V("c01-s-gv-var-form", "C01", GV, "var = partial_sums2 / n - (partial_sums / n) ** 2", "var = (partial_sums2 - partial_sums**2 / n) / n", "silent", "variance as RSS/n")
V("c01-s-gc-order", "C01", GC, "log_likelihood = -n * p * np.log(2 * np.pi) - n * log_det_cov - p * n", "log_likelihood = -n * (p * np.log(2 * np.pi) + log_det_cov + p)", "silent", "factored likelihood")
V("c01-s-checkvar-form", "C01", CU, "    if np.any(var <= 0):", "    if (var <= 0).any():", "silent", "method form of any")
V("c01-s-checkcov-form", "C01", CU, "    if not np.all(np.linalg.eigvals(cov) > 0):", "    if np.any(np.linalg.eigvals(cov) <= 0):", "silent", "any(<=0) instead of not all(>0)")
V("c01-s-cumsum-rename", "C01", ST, "        sums = np.zeros((n + 1, p))\n        start = 1", "        sums = np.zeros((1 + n, p))\n        start = 2 - 1", "silent", "equivalent constants")
V("c01-s-kw", "C01", L2, "return l2_cost_fixed(starts, ends, self.sums_, self.sums2_, self._mean)", "return l2_cost_fixed(starts, ends, sums2=self.sums2_, sums=self.sums_, mean=self._mean)", "silent", "keyword arguments in another order")
V("c01-s-docstring", "C01", CB, '        starts, ends = cuts[:, 0], cuts[:, 1]\n', '        # unpack the interval bounds\n        starts = cuts[:, 0]\n        ends = cuts[:, 1]\n', "silent", "unpacking written as two statements")

# ------------------------------------------------------------------------ C06
CSF = "skchange/change_scores/from_cost.py"
CUS = "skchange/change_scores/cusum.py"
ASF = "skchange/anomaly_scores/from_cost.py"
L2S = "skchange/anomaly_scores/l2_saving.py"

V("c06-cs-full", "C06", CSF, "        full_intervals = cuts[:, [0, 2]]", "        full_intervals = cuts[:, [0, 1]]", "fire", "full interval uses the split as end", ["ChangeScore"])
V("c06-cs-sign", "C06", CSF, "change_scores = no_change_costs - (left_costs + right_costs)", "change_scores = no_change_costs - left_costs + right_costs", "fire", "missing parentheses", ["ChangeScore"])
V("c06-cs-right", "C06", CSF, "        right_intervals = cuts[:, [1, 2]]", "        right_intervals = cuts[:, [0, 2]]", "fire", "right interval wrong", ["ChangeScore"])
V("c06-cs-minsize", "C06", CSF, "        return self.cost.min_size\n\n    def _fit(self, X: ArrayLike, y=None):\n        \"\"\"Fit the change score.", "        return 1\n\n    def _fit(self, X: ArrayLike, y=None):\n        \"\"\"Fit the change score.", "fire", "adapter min_size not forwarded", ["MIN-SIZE"])
V("c06-cusum-weights", "C06", CUS, "    before_weight = np.sqrt(after_n / (n * before_n)).reshape(-1, 1)\n    after_weight = np.sqrt(before_n / (n * after_n)).reshape(-1, 1)", "    before_weight = np.sqrt(before_n / (n * after_n)).reshape(-1, 1)\n    after_weight = np.sqrt(after_n / (n * before_n)).reshape(-1, 1)", "fire", "swapped CUSUM weights", ["CUSUM"])
V("c06-cusum-noabs", "C06", CUS, "cusum = np.abs(before_weight * before_sum - after_weight * after_sum)", "cusum = before_weight * before_sum - after_weight * after_sum", "fire", "absolute value dropped", ["CUSUM"])
V("c06-cusum-split", "C06", CUS, "    after_sum = sums[ends] - sums[splits]", "    after_sum = sums[ends] - sums[splits + 1]", "fire", "after-sum starts one late", ["CUSUM"])
V("c06-cusum-n", "C06", CUS, "    before_n = splits - starts\n", "    before_n = splits - starts + 1\n", "fire", "before length off by one", ["CUSUM"])
V("c06-cusum-cols", "C06", CUS, "        splits = cuts[:, 1]\n        ends = cuts[:, 2]", "        splits = cuts[:, 2]\n        ends = cuts[:, 1]", "fire", "split/end columns swapped", ["CUSUM"])
V("c06-saving-sign", "C06", ASF, "        savings = baseline_costs - optimised_costs", "        savings = optimised_costs - baseline_costs", "fire", "saving sign", ["Saving"])
V("c06-saving-noclone", "C06", ASF, "self.optimised_cost: BaseCost = baseline_cost.clone().set_params(param=None)", "self.optimised_cost: BaseCost = baseline_cost.set_params(param=None)", "fire", "optimised cost is the user's object", ["Saving"])
V("c06-saving-param", "C06", ASF, "self.optimised_cost: BaseCost = baseline_cost.clone().set_params(param=None)", "self.optimised_cost: BaseCost = baseline_cost.clone()", "fire", "optimised cost keeps the fixed parameter", ["Saving"])
V("c06-saving-accepts-none", "C06", ASF, "        if baseline_cost.param is None:\n            raise ValueError(\"The baseline cost must have a fixed parameter.\")\n", "", "fire", "baseline without parameter accepted", ["rejects"])
V("c06-saving-fit", "C06", ASF, "        self.baseline_cost.fit(X)\n        self.optimised_cost.fit(X)\n", "        self.baseline_cost.fit(X)\n", "fire", "optimised cost never fitted", ["Saving"])
V("c06-l2s-n", "C06", L2S, "    saving = (sums[ends] - sums[starts]) ** 2 / n", "    saving = (sums[ends] - sums[starts]) ** 2 / (n + 1)", "fire", "l2 saving denominator", ["L2Saving"])
V("c06-l2s-sq", "C06", L2S, "    saving = (sums[ends] - sums[starts]) ** 2 / n", "    saving = np.abs(sums[ends] - sums[starts]) / n", "fire", "l2 saving not squared", ["L2Saving"])
V("c06-las-inner", "C06", ASF, "        inner_intervals = cuts[:, 1:3]", "        inner_intervals = cuts[:, 0:2]", "fire", "inner interval columns", ["LocalAnomalyScore"])
V("c06-las-outer", "C06", ASF, "        outer_intervals = cuts[:, [0, 3]]", "        outer_intervals = cuts[:, [0, 2]]", "fire", "outer interval columns", ["LocalAnomalyScore"])
V("c06-las-after", "C06", ASF, "            after_inner_interval = interval[2:4]", "            after_inner_interval = interval[1:3]", "fire", "surrounding data includes the anomaly", ["LocalAnomalyScore"])
V("c06-las-order", "C06", ASF, "            self._any_subset_cost.fit(surrounding_data)\n            surrounding_costs[i] = self._any_subset_cost.evaluate(\n                [0, surrounding_data.shape[0]]\n            )", "            surrounding_costs[i] = self._any_subset_cost.evaluate(\n                [0, surrounding_data.shape[0]]\n            )\n            self._any_subset_cost.fit(surrounding_data)", "fire", "evaluate before refit (stale surroundings)", ["LocalAnomalyScore"])
V("c06-las-noclone", "C06", ASF, "        self._any_subset_cost: BaseCost = cost.clone()", "        self._any_subset_cost: BaseCost = cost", "fire", "refits the user's cost object", ["LocalAnomalyScore", "OWNED"])
V("c06-las-len", "C06", ASF, "                [0, surrounding_data.shape[0]]", "                [0, surrounding_data.shape[0] - 1]", "fire", "pooled interval too short", ["LocalAnomalyScore"])
V("c06-las-sign", "C06", ASF, "        anomaly_scores = outer_costs - (inner_costs + surrounding_costs)", "        anomaly_scores = outer_costs - inner_costs + surrounding_costs", "fire", "missing parentheses", ["LocalAnomalyScore"])
V("c06-to-cs-copy", "C06", CSF, "    elif isinstance(scorer, BaseChangeScore):\n        change_score = scorer", "    elif isinstance(scorer, BaseChangeScore):\n        change_score = scorer.clone()", "fire", "pass-through returns a clone", ["PASS-THROUGH"])
V("c06-to-saving-err", "C06", ASF, "    else:\n        raise ValueError(\n            f\"scorer must be an instance of BaseSaving or BaseCost. \"", "    else:\n        raise TypeError(\n            f\"scorer must be an instance of BaseSaving or BaseCost. \"", "fire", "wrong exception kind", ["PASS-THROUGH"])

V("c06-s-cs-form", "C06", CSF, "change_scores = no_change_costs - (left_costs + right_costs)", "change_scores = -right_costs + no_change_costs - left_costs", "silent", "reordered")
V("c06-s-cs-cols", "C06", CSF, "        left_intervals = cuts[:, [0, 1]]", "        left_intervals = cuts[:, 0:2]", "silent", "slice instead of list of columns")
V("c06-s-cusum-sqrt", "C06", CUS, "    before_weight = np.sqrt(after_n / (n * before_n)).reshape(-1, 1)", "    before_weight = (np.sqrt(after_n) / np.sqrt(n * before_n)).reshape(-1, 1)", "silent", "sqrt of quotient split")
V("c06-s-cusum-sqrt2", "C06", CUS, "    after_weight = np.sqrt(before_n / (n * after_n)).reshape(-1, 1)", "    after_weight = np.sqrt(before_n / n / after_n).reshape(-1, 1)", "silent", "chained division")
V("c06-s-cusum-absflip", "C06", CUS, "cusum = np.abs(before_weight * before_sum - after_weight * after_sum)", "cusum = np.abs(after_weight * after_sum - before_weight * before_sum)", "silent", "|x| == |-x|")
V("c06-s-l2s", "C06", L2S, "    saving = (sums[ends] - sums[starts]) ** 2 / n", "    seg = sums[ends] - sums[starts]\n    saving = seg * seg / n", "silent", "temporary")
V("c06-s-las-idx", "C06", ASF, "            before_data = X[before_inner_interval[0] : before_inner_interval[1]]", "            before_data = X[interval[0] : interval[1]]", "silent", "direct row access")
V("c06-s-saving", "C06", ASF, "        savings = baseline_costs - optimised_costs\n        return savings", "        return -(optimised_costs - baseline_costs)", "silent", "negated difference")

# ------------------------------------------------------------------------ C15
MVC = "skchange/anomaly_detectors/mvcapa.py"
CAP = "skchange/anomaly_detectors/capa.py"
PEL = "skchange/change_detectors/pelt.py"
SBS = "skchange/change_detectors/seeded_binseg.py"
CBS = "skchange/anomaly_detectors/circular_binseg.py"
MW = "skchange/change_detectors/moving_window.py"

V("c15-f06-revert", "C15", MVC, "dense_alpha, dense_betas = dense_mvcapa_penalty(n, p, n_params_per_variable, scale)", "dense_alpha, dense_betas = dense_mvcapa_penalty(n, p * n_params_per_variable, scale)\n    dense_betas = np.zeros(p)", "fire", "F-06 reverted: scale bound to n_params_per_variable", ["combined"])
V("c15-pelt-p", "C15", PEL, "        return 2 * p * np.log(n)", "        return 2 * np.log(n)", "fire", "PELT penalty without p", ["PELT"])
V("c15-pelt-swap", "C15", PEL, "return self.penalty_scale * self.get_default_penalty(n, p)", "return self.penalty_scale * self.get_default_penalty(p, n)", "fire", "n and p swapped", ["PELT"])
V("c15-pelt-shape", "C15", PEL, "            n = X.shape[0]\n            p = X.shape[1]\n            return self.penalty_scale", "            n = X.shape[0]\n            p = X.shape[0]\n            return self.penalty_scale", "fire", "p read from the row count", ["PELT"])
V("c15-pelt-add", "C15", PEL, "return self.penalty_scale * self.get_default_penalty(n, p)", "return self.penalty_scale + self.get_default_penalty(n, p)", "fire", "scale added instead of multiplied", ["PELT"])
V("c15-sbs-sqrt", "C15", SBS, "        return 2 * p * np.sqrt(np.log(n))", "        return 2 * p * np.log(n)", "fire", "sqrt dropped", ["SeededBinarySegmentation"])
V("c15-sbs-level", "C15", SBS, "        return np.quantile(scores, 1 - self.level)", "        return np.quantile(scores, self.level)", "fire", "quantile level inverted", ["level"])
V("c15-sbs-tune-out", "C15", SBS, "        _, scores, _, _, _ = run_seeded_binseg(", "        _, _, scores, _, _ = run_seeded_binseg(", "fire", "quantile over the maximisers", ["score-output"])
V("c15-sbs-tune-thr", "C15", SBS, "            self._change_score,\n            np.inf,\n", "            self._change_score,\n            0.0,\n", "fire", "tuning with threshold 0", ["infinite"])
V("c15-sbs-tune-m", "C15", SBS, "            np.inf,\n            self.min_segment_length,\n            self.max_interval_length,", "            np.inf,\n            self.min_segment_length,\n            2 * self.min_segment_length,", "fire", "tuning with another max_interval_length", ["same-configuration"])
V("c15-cbs-own", "C15", CBS, "            return self.threshold_scale * self.get_default_threshold(\n                X.shape[0], X.shape[1], self.max_interval_length\n            )", "            return self.threshold_scale * self.get_default_threshold(\n                X.shape[0], X.shape[1], self.min_segment_length\n            )", "fire", "default threshold bound to another hyper-parameter", ["CircularBinarySegmentation"])
V("c15-cbs-noscale", "C15", CBS, "            return self.threshold_scale * self.get_default_threshold(\n                X.shape[0]", "            return self.get_default_threshold(\n                X.shape[0]", "fire", "scale dropped", ["CircularBinarySegmentation"])
V("c15-mw-level", "C15", MW, "                n, p, self.bandwidth, self.level\n", "                n, p, self.bandwidth\n", "fire", "level not forwarded to the default threshold", ["MovingWindow"])
V("c15-mw-tune", "C15", MW, "        tuned_threshold = np.quantile(scores, 1 - self.level)", "        tuned_threshold = np.quantile(scores, 1 - self.level / 2)", "fire", "tuned quantile level", ["level"])
V("c15-mw-tune-bw", "C15", MW, "        scores = moving_window_transform(\n            X.values,\n            self._change_score,\n            self.bandwidth,\n        )\n        tuned_threshold", "        scores = moving_window_transform(\n            X.values,\n            self._change_score,\n            2 * self.bandwidth,\n        )\n        tuned_threshold", "fire", "tuning with twice the bandwidth", ["same-configuration"])
V("c15-capa-k", "C15", CAP, "        collective_penalty = capa_penalty(n, n_params, self.collective_penalty_scale)", "        collective_penalty = capa_penalty(n, p * n_params, self.collective_penalty_scale)", "fire", "k multiplied by p twice", ["CAPA"])
V("c15-capa-args", "C15", CAP, "        collective_penalty = capa_penalty(n, n_params, self.collective_penalty_scale)", "        collective_penalty = capa_penalty(n_params, n, self.collective_penalty_scale)", "fire", "n and k swapped", ["CAPA"])
V("c15-capa-scale", "C15", CAP, "        collective_penalty = capa_penalty(n, n_params, self.collective_penalty_scale)", "        collective_penalty = capa_penalty(n, n_params, self.point_penalty_scale)", "fire", "wrong scale", ["CAPA"])
V("c15-capa-formula", "C15", MVC, "penalty = scale * (n_params + 2 * np.sqrt(n_params * psi) + 2 * psi)", "penalty = scale * (n_params + 2 * np.sqrt(n_params * psi)) + 2 * psi", "fire", "2 log n outside the scale", ["capa_penalty"])
V("c15-capa-sqrt", "C15", MVC, "penalty = scale * (n_params + 2 * np.sqrt(n_params * psi) + 2 * psi)", "penalty = scale * (n_params + 2 * np.sqrt(n_params) * psi + 2 * psi)", "fire", "log n outside the sqrt", ["capa_penalty"])
V("c15-dense-k", "C15", MVC, "    return capa_penalty(n, p * n_params_per_variable, scale), np.zeros(p)", "    return capa_penalty(n, n_params_per_variable, scale), np.zeros(p)", "fire", "dense penalty for k instead of p*k parameters", ["dense"])
V("c15-dense-betas", "C15", MVC, "    return capa_penalty(n, p * n_params_per_variable, scale), np.zeros(p)", "    return capa_penalty(n, p * n_params_per_variable, scale), np.ones(p)", "fire", "dense betas not zero", ["dense"])
V("c15-sparse-beta", "C15", MVC, "    sparse_penalty = 2 * scale * np.log(n_params_per_variable * p)", "    sparse_penalty = 2 * scale * np.log(n_params_per_variable + p)", "fire", "sparse beta log(k+p)", ["sparse"])
V("c15-sparse-alpha", "C15", MVC, "    dense_penalty = 2 * scale * psi\n", "    dense_penalty = 2 * psi\n", "fire", "sparse alpha not scaled", ["sparse"])
V("c15-sparse-len", "C15", MVC, "    return dense_penalty, np.full(p, sparse_penalty)", "    return dense_penalty, np.full(p - 1, sparse_penalty)", "fire", "sparse betas of length p-1", ["sparse"])
V("c15-comb-min", "C15", MVC, "        dense_penalties, np.minimum(sparse_penalties, intermediate_penalties)", "        dense_penalties, np.maximum(sparse_penalties, intermediate_penalties)", "fire", "maximum instead of minimum", ["combined"])
V("c15-comb-drop", "C15", MVC, "    pointwise_min_penalties[1:] = np.minimum(\n        dense_penalties, np.minimum(sparse_penalties, intermediate_penalties)\n    )", "    pointwise_min_penalties[1:] = np.minimum(sparse_penalties, intermediate_penalties)", "fire", "dense penalty left out of the minimum", ["combined"])
V("c15-comb-sparse-scale", "C15", MVC, "    sparse_alpha, sparse_betas = sparse_mvcapa_penalty(\n        n, p, n_params_per_variable, scale\n    )", "    sparse_alpha, sparse_betas = sparse_mvcapa_penalty(\n        n, p, n_params_per_variable\n    )", "fire", "sparse family called with the default scale", ["combined"])
V("c15-comb-cum", "C15", MVC, "    sparse_penalties = sparse_alpha + np.cumsum(sparse_betas)", "    sparse_penalties = sparse_alpha + sparse_betas", "fire", "sparse penalties not cumulated", ["combined"])
V("c15-comb-layout", "C15", MVC, "    pointwise_min_penalties = np.zeros(p + 1)\n    pointwise_min_penalties[1:] = np.minimum(", "    pointwise_min_penalties = np.zeros(p)\n    pointwise_min_penalties[:] = np.minimum(", "fire", "first cumulative entry not zero", ["combined"])
V("c15-inter-scale", "C15", MVC, "        return scale * (\n            2 * (psi + np.log(p))", "        return scale + (\n            2 * (psi + np.log(p))", "fire", "intermediate penalty not proportional to the scale", ["intermediate", "combined"])
V("c15-pelt-tune", "C15", PEL, "        raise ValueError(\n            \"tuning of the penalty is not supported yet (`penalty_scale=None`).\"\n        )", "        return 0.0", "fire", "PELT tuning silently returns 0", ["PELT"])

V("c15-s-pelt-form", "C15", PEL, "        return 2 * p * np.log(n)", "        return np.log(n) * p * 2.0", "silent", "reordered product")
V("c15-s-sbs-form", "C15", SBS, "        return 2 * p * np.sqrt(np.log(n))", "        return 2 * p * np.log(n) ** 0.5", "silent", "power 0.5 instead of sqrt")
V("c15-s-capa-form", "C15", MVC, "penalty = scale * (n_params + 2 * np.sqrt(n_params * psi) + 2 * psi)", "penalty = scale * n_params + 2 * scale * (np.sqrt(n_params) * np.sqrt(psi) + psi)", "silent", "distributed, sqrt split")
V("c15-s-sparse-form", "C15", MVC, "    sparse_penalty = 2 * scale * np.log(n_params_per_variable * p)", "    sparse_penalty = 2 * scale * (np.log(n_params_per_variable) + np.log(p))", "silent", "log of product split")
V("c15-s-comb-kw", "C15", MVC, "dense_alpha, dense_betas = dense_mvcapa_penalty(n, p, n_params_per_variable, scale)", "dense_alpha, dense_betas = dense_mvcapa_penalty(n, p, scale=scale, n_params_per_variable=n_params_per_variable)", "silent", "keyword binding")
V("c15-s-comb-minorder", "C15", MVC, "        dense_penalties, np.minimum(sparse_penalties, intermediate_penalties)", "        np.minimum(intermediate_penalties, dense_penalties), sparse_penalties", "silent", "minimum re-associated")
V("c15-s-mw-kw", "C15", MW, "                n, p, self.bandwidth, self.level\n", "                n, p, level=self.level, bandwidth=self.bandwidth\n", "silent", "keyword binding")
V("c15-s-level", "C15", CBS, "        return np.quantile(scores, 1 - self.level)", "        q = 1.0 - self.level\n        return np.quantile(scores, q)", "silent", "temporary")

# ------------------------------------------------------------------------ C02
PRUNE_NEW = """        pending_pruned_starts.append(cost_eval_starts[~keep_start])
        if len(pending_pruned_starts) > min_segment_shift:
            pruned_starts = pending_pruned_starts.pop(0)
            cost_eval_starts = cost_eval_starts[
                ~np.isin(cost_eval_starts, pruned_starts)
            ]
"""
V("c02-f15-revert", "C02", PEL, PRUNE_NEW, "        cost_eval_starts = cost_eval_starts[keep_start]\n", "fire", "F-15 reverted: immediate pruning with min_segment_length > 1", ["PRUNE-DIST"])
V("c02-delay-short", "C02", PEL, "        if len(pending_pruned_starts) > min_segment_shift:", "        if len(pending_pruned_starts) >= min_segment_shift:", "fire", "FIFO one step too short", ["PRUNE-DIST"])
V("c02-delay-short2", "C02", PEL, "        if len(pending_pruned_starts) > min_segment_shift:", "        if len(pending_pruned_starts) > min_segment_shift - 1:", "fire", "FIFO one step too short", ["PRUNE-DIST"])
V("c02-delay-lifo", "C02", PEL, "            pruned_starts = pending_pruned_starts.pop(0)", "            pruned_starts = pending_pruned_starts.pop()", "fire", "LIFO instead of FIFO", ["PRUNE-DIST"])
V("c02-prune-ge", "C02", PEL, "            candidate_opt_costs + split_cost <= opt_cost[current_obs_ind + 1] + penalty", "            candidate_opt_costs + split_cost >= opt_cost[current_obs_ind + 1] + penalty", "fire", "pruning inequality inverted", ["PRUNE-FORM"])
V("c02-prune-nopen", "C02", PEL, "            candidate_opt_costs + split_cost <= opt_cost[current_obs_ind + 1] + penalty", "            candidate_opt_costs + split_cost <= opt_cost[current_obs_ind + 1]", "fire", "penalised candidate compared with unpenalised optimum", ["PRUNE-FORM"])
V("c02-prune-old", "C02", PEL, "            candidate_opt_costs + split_cost <= opt_cost[current_obs_ind + 1] + penalty", "            candidate_opt_costs + split_cost <= opt_cost[current_obs_ind] + penalty", "fire", "compared with the previous optimum", ["PRUNE-FORM"])
V("c02-prune-keepmask", "C02", PEL, "        pending_pruned_starts.append(cost_eval_starts[~keep_start])", "        pending_pruned_starts.append(cost_eval_starts[keep_start])", "fire", "kept starts queued for removal", ["PRUNE-DIST", "PRUNE-FORM"])
V("c02-bellman-nopen", "C02", PEL, "        candidate_opt_costs = opt_cost[cost_eval_starts] + agg_costs + penalty", "        candidate_opt_costs = opt_cost[cost_eval_starts] + agg_costs", "fire", "penalty missing from the recursion", ["BELLMAN"])
V("c02-bellman-max", "C02", PEL, "        argmin_candidate_cost = np.argmin(candidate_opt_costs)", "        argmin_candidate_cost = np.argmax(candidate_opt_costs)", "fire", "argmax instead of argmin", ["BELLMAN"])
V("c02-bellman-end", "C02", PEL, "        cost_eval_ends = np.repeat(current_obs_ind + 1, len(cost_eval_starts))", "        cost_eval_ends = np.repeat(current_obs_ind, len(cost_eval_starts))", "fire", "evaluated end off by one", ["BELLMAN"])
V("c02-bellman-start", "C02", PEL, "        latest_start = current_obs_ind - min_segment_shift\n", "        latest_start = current_obs_ind - min_segment_shift + 1\n", "fire", "newest start leaves a too short segment", ["BELLMAN"])
V("c02-store-idx", "C02", PEL, "        opt_cost[current_obs_ind + 1] = candidate_opt_costs[argmin_candidate_cost]", "        opt_cost[current_obs_ind] = candidate_opt_costs[argmin_candidate_cost]", "fire", "optimum stored one slot early", ["BELLMAN", "DP-COVER"])
V("c02-gather", "C02", PEL, "        prev_cpts[current_obs_ind] = cost_eval_starts[argmin_candidate_cost]", "        prev_cpts[current_obs_ind] = cost_eval_starts[0] + argmin_candidate_cost", "fire", "back-pointer by offset on a pruned set", ["IDX-GATHER"])
V("c02-gather2", "C02", PEL, "        prev_cpts[current_obs_ind] = cost_eval_starts[argmin_candidate_cost]", "        prev_cpts[current_obs_ind] = argmin_candidate_cost", "fire", "back-pointer is a position in the candidate array", ["IDX-GATHER"])
V("c02-init-f0", "C02", PEL, "    opt_cost = np.concatenate((np.array([-penalty]), np.zeros(num_obs)))", "    opt_cost = np.concatenate((np.array([0.0]), np.zeros(num_obs)))", "fire", "F[0] not -penalty", ["DP-COVER"])
V("c02-init-block", "C02", PEL, "    opt_cost[min_segment_length : 2 * min_segment_length] = agg_costs", "    opt_cost[min_segment_length + 1 : 2 * min_segment_length + 1] = agg_costs", "fire", "first block shifted", ["DP-COVER"])
V("c02-init-block-ends", "C02", PEL, "    non_changepoint_ends = np.arange(min_segment_length, 2 * min_segment_length)", "    non_changepoint_ends = np.arange(min_segment_length + 1, 2 * min_segment_length + 1)", "fire", "first block evaluated on shifted ends", ["DP-COVER"])
V("c02-loop-start", "C02", PEL, "    observation_indices = np.arange(2 * min_segment_length - 1, num_obs).reshape(-1, 1)", "    observation_indices = np.arange(2 * min_segment_length, num_obs).reshape(-1, 1)", "fire", "prefix 2m never computed", ["DP-COVER"])
V("c02-init-starts", "C02", PEL, "    cost_eval_starts = np.array(([0]), dtype=np.int64)", "    cost_eval_starts = np.array(([1]), dtype=np.int64)", "fire", "candidate set does not start at 0", ["BELLMAN"])
V("c02-bt-step", "C02", PEL, "        i = cpt_i - 1\n", "        i = cpt_i\n", "fire", "backtracking does not step before the segment start", ["BACKTRACK"])
V("c02-bt-drop", "C02", PEL, "    return np.array(changepoints[-2::-1])", "    return np.array(changepoints[::-1])", "fire", "artificial changepoint 0 reported", ["BACKTRACK"])
V("c02-bt-start", "C02", PEL, "    i = len(prev_cpts) - 1\n", "    i = len(prev_cpts) - 2\n", "fire", "chain starts at n-2", ["BACKTRACK"])
V("c02-wiring", "C02", PEL, "        return ChangeDetector._format_sparse_output(changepoints)", "        return ChangeDetector._format_sparse_output(changepoints[:-1])", "fire", "last changepoint dropped before formatting", ["BACKTRACK"])
V("c02-bind", "C02", PEL, "            self.penalty_,\n            self.min_segment_length,\n        )", "            self.penalty_,\n            1,\n        )", "fire", "driver run with min_segment_length 1", ["BINDING"])

V("c02-s-rename", "C02", PEL, "        candidate_opt_costs = opt_cost[cost_eval_starts] + agg_costs + penalty", "        candidate_opt_costs = penalty + agg_costs + opt_cost[cost_eval_starts]", "silent", "reordered sum")
V("c02-s-prune-form", "C02", PEL, "            candidate_opt_costs + split_cost <= opt_cost[current_obs_ind + 1] + penalty", "            candidate_opt_costs - penalty + split_cost <= opt_cost[current_obs_ind + 1]", "silent", "penalty moved to the other side")
V("c02-s-prune-strict", "C02", PEL, "            candidate_opt_costs + split_cost <= opt_cost[current_obs_ind + 1] + penalty", "            candidate_opt_costs + split_cost < opt_cost[current_obs_ind + 1] + penalty", "silent", "strict comparison (Killick's rule discards on >=)")
V("c02-s-localmin", "C02", PEL, "        opt_cost[current_obs_ind + 1] = candidate_opt_costs[argmin_candidate_cost]\n", "        new_opt = candidate_opt_costs[argmin_candidate_cost]\n        opt_cost[current_obs_ind + 1] = new_opt\n", "silent", "temporary for the new optimum")
V("c02-s-delay-ge", "C02", PEL, "        if len(pending_pruned_starts) > min_segment_shift:", "        if len(pending_pruned_starts) >= min_segment_shift + 1:", "silent", ">= shift+1")
V("c02-s-delay-long", "C02", PEL, "        if len(pending_pruned_starts) > min_segment_shift:", "        if len(pending_pruned_starts) > min_segment_shift + 2:", "silent", "longer delay is still exact")
V("c02-s-shift", "C02", PEL, "        latest_start = current_obs_ind - min_segment_shift\n", "        latest_start = current_obs_ind + 1 - min_segment_length\n", "silent", "same start written differently")
V("c02-s-bt", "C02", PEL, "    i = len(prev_cpts) - 1\n", "    i = prev_cpts.shape[0] - 1\n", "silent", "shape[0] instead of len")

# ------------------------------------------------------------------------ C03
V("c03-f03-revert", ["C03", "C04"], MVC, "            point_anomalies.append((i, i + 1))", "            point_anomalies.append((i, i))", "fire", "F-03 reverted: empty point anomaly", ["IVL-WF"])
V("c03-f04-revert", "C03", MVC, "    opt_start = starts[argmax]\n", "    opt_start = starts[0] + argmax\n", "fire", "F-04 reverted: start by offset on a pruned set", ["IDX-GATHER"])
V("c03-f05-revert", "C03", MVC, "        penalised_saving_matrix = np.maximum(savings - betas[0], 0.0)\n        penalised_savings = penalised_saving_matrix.sum(axis=1) - alpha", "        penalised_saving_matrix = np.maximum(savings - betas[0], 0.0) - alpha\n        penalised_savings = penalised_saving_matrix.sum(axis=1)", "fire", "F-05 reverted: alpha charged p times", ["PEN-SAVING"])
V("c03-f17-revert", "C03", MVC, "    ts = np.arange(n)\n", "    ts = np.arange(min_segment_length - 1, n)\n", "fire", "F-17 reverted: early samples never evaluated", ["DP-COVER"])
V("c03-f16-revert", "C03", MVC, "            pending_pruned_starts.append(starts[saving_too_low])\n            if len(pending_pruned_starts) > min_segment_shift:\n                pruned_starts = pending_pruned_starts.pop(0)\n                starts = starts[~np.isin(starts, pruned_starts)]\n", "            starts = starts[~saving_too_low]\n", "fire", "F-16 reverted: immediate saving-based pruning", ["PRUNE-DIST"])
V("c03-delay-short", "C03", MVC, "            if len(pending_pruned_starts) > min_segment_shift:", "            if len(pending_pruned_starts) >= min_segment_shift:", "fire", "FIFO one step short", ["PRUNE-DIST"])
V("c03-prune-sign", "C03", MVC, "saving_too_low = candidate_savings + penalty_sum < opt_savings[t + 1]", "saving_too_low = candidate_savings - penalty_sum < opt_savings[t + 1]", "fire", "penalty sum subtracted in the pruning rule", ["PRUNE-FORM"])
V("c03-prune-nobetas", "C03", MVC, "            penalty_sum = collective_alpha + collective_betas.sum()", "            penalty_sum = collective_alpha", "fire", "betas missing from the pruning slack", ["PRUNE-FORM"])
V("c03-prune-old", "C03", MVC, "saving_too_low = candidate_savings + penalty_sum < opt_savings[t + 1]", "saving_too_low = candidate_savings + penalty_sum < opt_savings[t]", "fire", "compared with the previous optimum", ["PRUNE-FORM"])
V("c03-maxlen", "C03", MVC, "            too_long_segment = starts < t - max_segment_length + 2", "            too_long_segment = starts < t - max_segment_length + 3", "fire", "segments of maximal length pruned one step early", ["PRUNE-FORM"])
V("c03-maxlen2", "C03", MVC, "            too_long_segment = starts < t - max_segment_length + 2", "            too_long_segment = starts < t - max_segment_length + 1", "fire", "too long segments stay admissible", ["PRUNE-FORM"])
V("c03-maxlen-inv", "C03", MVC, "            starts = starts[~too_long_segment]", "            starts = starts[too_long_segment]", "fire", "keeps only the too long starts", ["PRUNE-FORM"])
V("c03-newest", "C03", MVC, "            starts = np.concatenate((starts, t_array - min_segment_shift))", "            starts = np.concatenate((starts, t_array - min_segment_shift + 1))", "fire", "newest start gives a too short anomaly", ["BELLMAN"])
V("c03-ends", "C03", MVC, "            ends = np.repeat(t + 1, len(starts))", "            ends = np.repeat(t, len(starts))", "fire", "collective end off by one", ["BELLMAN"])
V("c03-point-saving", "C03", MVC, "        point_savings = point_saving.evaluate(np.column_stack((t_array, t_array + 1)))", "        point_savings = collective_saving.evaluate(np.column_stack((t_array, t_array + 1)))", "fire", "point option uses the collective saving", ["BELLMAN"])
V("c03-point-pen", "C03", MVC, "            t_array, opt_savings, point_savings, point_alpha, point_betas\n", "            t_array, opt_savings, point_savings, collective_alpha, point_betas\n", "fire", "point option uses the collective alpha", ["BELLMAN"])
V("c03-point-ival", "C03", MVC, "        point_savings = point_saving.evaluate(np.column_stack((t_array, t_array + 1)))", "        point_savings = point_saving.evaluate(np.column_stack((t_array - 1, t_array + 1)))", "fire", "point anomaly scored on two samples", ["BELLMAN"])
V("c03-guard", "C03", MVC, "        collective_possible = t >= min_segment_shift\n", "        collective_possible = t > min_segment_shift\n", "fire", "collective option delayed by one sample", ["DP-COVER", "BELLMAN"])
V("c03-options", "C03", MVC, "        savings = np.array([opt_savings[t], opt_collective_saving, opt_point_saving])", "        savings = np.array([opt_savings[t], opt_point_saving, opt_collective_saving])", "fire", "options reordered (argmax codes no longer match)", ["BELLMAN", "IDX-GATHER"])
V("c03-none-opt", "C03", MVC, "        savings = np.array([opt_savings[t], opt_collective_saving, opt_point_saving])", "        savings = np.array([0.0, opt_collective_saving, opt_point_saving])", "fire", "no-anomaly option is 0 instead of F[t]", ["BELLMAN"])
V("c03-store", "C03", MVC, "        opt_savings[t + 1] = savings[argmax]\n", "        opt_savings[t] = savings[argmax]\n", "fire", "score stored one slot early", ["DP-COVER", "BELLMAN"])
V("c03-rec-point", "C03", MVC, "        elif argmax == 2:\n            opt_anomaly_starts[t] = t\n", "        elif argmax == 2:\n            opt_anomaly_starts[t] = t - 1\n", "fire", "point anomaly recorded with length 2", ["IDX-GATHER"])
V("c03-pen-general", "C03", MVC, "            penalised_saving = np.cumsum(saving_i[saving_order] - betas) - alpha", "            penalised_saving = np.cumsum(saving_i[saving_order] - betas - alpha)", "fire", "alpha inside the cumulative sum", ["PEN-SAVING"])
V("c03-pen-order", "C03", MVC, "            saving_order = (-saving_i).argsort()  # Decreasing order.", "            saving_order = saving_i.argsort()  # Increasing order.", "fire", "savings sorted increasingly", ["PEN-SAVING"])
V("c03-pen-unsorted", "C03", MVC, "            penalised_saving = np.cumsum(saving_i[saving_order] - betas) - alpha", "            penalised_saving = np.cumsum(saving_i - betas) - alpha", "fire", "savings not sorted before cumulating", ["PEN-SAVING"])
V("c03-pen-dense", "C03", MVC, "        penalised_savings = savings.sum(axis=1) - alpha\n    elif", "        penalised_savings = savings.sum(axis=1)\n    elif", "fire", "dense shortcut without alpha", ["PEN-SAVING"])
V("c03-bt-coll", "C03", MVC, "            collective_anomalies.append((int(start_i), i + 1))", "            collective_anomalies.append((int(start_i), i))", "fire", "collective anomaly end off by one", ["IVL-WF"])
V("c03-bt-resume", "C03", MVC, "            collective_anomalies.append((int(start_i), i + 1))\n            i = int(start_i)\n", "            collective_anomalies.append((int(start_i), i + 1))\n            i = int(start_i) + 1\n", "fire", "scan resumes inside the anomaly (overlap)", ["IVL-WF"])
V("c03-bt-size", "C03", MVC, "        if size > 1:\n            collective_anomalies.append", "        if size >= 1:\n            collective_anomalies.append", "fire", "length-1 events recorded as collective", ["IVL-WF"])
V("c03-ignore", "C03", CAP, "        if not self.ignore_point_anomalies:\n            anomalies += point_anomalies\n", "        if self.ignore_point_anomalies:\n            anomalies += point_anomalies\n", "fire", "ignore flag inverted (CAPA)", ["IGNORE-POINT"])
V("c03-ignore-mv", "C03", MVC, "        anomalies = collective_anomalies\n        if not self.ignore_point_anomalies:\n            anomalies += point_anomalies\n        anomalies = sorted(anomalies)\n\n        return SubsetCollectiveAnomalyDetector", "        anomalies = collective_anomalies\n        anomalies += point_anomalies\n        anomalies = sorted(anomalies)\n\n        return SubsetCollectiveAnomalyDetector", "fire", "flag ignored (MVCAPA)", ["IGNORE-POINT"])
V("c03-unsorted", ["C03", "C04"], CAP, "        anomalies = sorted(anomalies)\n", "        anomalies = list(anomalies)\n", "fire", "anomalies not sorted", ["sorted"])
V("c03-bind-len", "C03", CAP, "            self.min_segment_length,\n            self.max_segment_length,\n        )\n        self.scores", "            self.max_segment_length,\n            self.min_segment_length,\n        )\n        self.scores", "fire", "min/max segment length swapped", ["BINDING"])
V("c03-bind-alpha", "C03", CAP, "            self.collective_penalty_,\n            self.point_penalty_,\n", "            self.point_penalty_,\n            self.collective_penalty_,\n", "fire", "penalties swapped", ["BINDING"])
V("c03-bind-mv-scale", "C03", MVC, "    point_alpha, point_betas = point_penalty_func(\n        n, p, point_n_params_per_variable, scale=point_penalty_scale\n    )", "    point_alpha, point_betas = point_penalty_func(\n        n, p, point_n_params_per_variable, scale=collective_penalty_scale\n    )", "fire", "point penalty uses the collective scale", ["BINDING"])
V("c03-bind-mv-roles", "C03", MVC, "        collective_alpha,\n        collective_betas,\n        point_alpha,\n        point_betas,\n        min_segment_length,", "        collective_alpha,\n        point_betas,\n        point_alpha,\n        collective_betas,\n        min_segment_length,", "fire", "betas swapped between roles", ["BINDING"])
V("c03-nofit", "C03", CAP, "    collective_saving.fit(X)\n    point_saving.fit(X)\n    return run_base_capa(", "    collective_saving.fit(X)\n    return run_base_capa(", "fire", "point saving not refitted", ["fit-before-run"])

V("c03-s-pen-form", "C03", MVC, "        penalised_savings = penalised_saving_matrix.sum(axis=1) - alpha", "        penalised_savings = -alpha + np.sum(penalised_saving_matrix, axis=1)", "silent", "np.sum form")
V("c03-s-pen-ifif", "C03", MVC, "    elif np.all(betas == betas[0]):", "    if np.all(betas == betas[0]):", "silent", "if/if: overwriting the dense shortcut by the constant-beta form is value-equal for non-negative savings")
V("c03-s-prune-form", "C03", MVC, "saving_too_low = candidate_savings + penalty_sum < opt_savings[t + 1]", "saving_too_low = candidate_savings < opt_savings[t + 1] - penalty_sum", "silent", "slack moved to the other side")
V("c03-s-maxlen-form", "C03", MVC, "            too_long_segment = starts < t - max_segment_length + 2", "            too_long_segment = t + 2 - starts > max_segment_length", "silent", "length form of the max-length rule")
V("c03-s-newest", "C03", MVC, "            starts = np.concatenate((starts, t_array - min_segment_shift))", "            starts = np.concatenate((starts, t_array - min_segment_length + 1))", "silent", "same start")
V("c03-s-bt", "C03", MVC, "        size = i - start_i + 1\n        if size > 1:", "        size = i + 1 - start_i\n        if size >= 2:", "silent", "equivalent size test")
V("c03-s-delay-longer", "C03", MVC, "            if len(pending_pruned_starts) > min_segment_shift:", "            if len(pending_pruned_starts) > min_segment_length:", "silent", "longer delay stays exact")
