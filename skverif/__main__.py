"""CLI: python -m skverif check <ID> [--tier quick|thorough] [--repo PATH]"""

import argparse
import importlib
import os
import sys


def main(argv=None):
    ap = argparse.ArgumentParser(prog="skverif")
    sub = ap.add_subparsers(dest="cmd", required=True)
    c = sub.add_parser("check")
    c.add_argument("prop")
    c.add_argument("--tier", default=os.environ.get("VERIF_TIER", "quick"), choices=["quick", "thorough"])
    c.add_argument("--repo", default=os.environ.get("SKVERIF_REPO", "/repo"))
    s = sub.add_parser("selftest")
    s.add_argument("props", nargs="*")
    s.add_argument("--jobs", type=int, default=16)
    s.add_argument("--cross", action="store_true", help="run every silent variant against all property checks")
    s.add_argument("--only", nargs="*", default=None)
    s.add_argument("--repo", default=os.environ.get("SKVERIF_REPO", "/repo"))
    a = ap.parse_args(argv)
    seed = int(os.environ.get("VERIF_SEED", "0") or 0)
    if a.cmd == "check":
        from .report import run_property

        try:
            mod = importlib.import_module(f"skverif.rules.{a.prop.lower()}")
        except ModuleNotFoundError:
            print(f"ANALYSIS-ERROR no rules for property {a.prop}")
            return 2
        extra = getattr(mod, "extra_evidence", None)
        code = run_property(a.prop, lambda ctx: mod.check(ctx), mod.EXPLANATION, mod.ASSUMPTIONS, a.repo, a.tier, seed, extra)
        if a.tier == "thorough" and code == 0:
            from .selftest import run_selftest

            code = run_selftest([a.prop], a.repo, jobs=16, seed=seed, update_evidence=True)
        return code
    if a.cmd == "selftest":
        from .selftest import run_selftest

        return run_selftest(a.props or None, a.repo, jobs=a.jobs, seed=seed, cross=a.cross, only=a.only)
    return 2


if __name__ == "__main__":
    import signal

    try:
        signal.signal(signal.SIGPIPE, signal.SIG_DFL)
    except Exception:  # noqa: BLE001
        pass
    try:
        rc = main()
    except SystemExit:
        raise
    except BaseException as e:  # noqa: BLE001
        import traceback

        traceback.print_exc()
        print(f"ANALYSIS-ERROR internal: {e!r}")
        rc = 2
    sys.stdout.flush()
    os._exit(rc)
