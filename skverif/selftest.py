"""Self-test of the checker (DESIGN §7): seeded variants of /repo on scratch copies.

'fire'   variants break a property (and keep compiling): the check must exit 1
         and name the edited construct;
'silent' variants are behaviour-preserving twins: the check must exit 0.
A self-test failure is an ANALYSIS-ERROR (exit 2): it says the machinery is
broken, it never decides the property.
"""

from __future__ import annotations

import json
import os
import random
import shutil
import subprocess
import sys
import tempfile
import time
from concurrent.futures import ThreadPoolExecutor

VERIF = os.path.dirname(os.path.dirname(os.path.abspath(__file__)))


def load_variants():
    from .variants import VARIANTS

    return list(VARIANTS) + load_patch_variants()


def load_patch_variants():
    """Patch-based variants kept under /verif: the seeded changes of independent agents (`seeded/<id>/patch.diff`: every
    check recorded in meta.json as reporting the change must still report it) and the behaviour-preserving refactorings
    of independent agents (`twins/<id>/patch.diff`: every check must stay silent)."""
    import glob

    out = []
    for m in sorted(glob.glob(os.path.join(VERIF, "seeded", "*", "meta.json"))):
        try:
            meta = json.load(open(m))
        except Exception:  # noqa: BLE001
            continue
        props = sorted(p for p, d in meta.get("detection", {}).items() if d.get("exit") == 1)
        if not props:
            continue
        what = meta.get("what_it_needs_to_manifest", "").split("\n")[0][:120]
        out.append({"id": f"seed-{meta['id']}", "props": props, "edits": [], "patch": os.path.join(os.path.dirname(m), "patch.diff"), "expect": "fire", "desc": what, "mention": None, "local": False, "each_must_fire": True})
    for pth in sorted(glob.glob(os.path.join(VERIF, "twins", "*", "patch.diff"))):
        tid = os.path.basename(os.path.dirname(pth))
        out.append({"id": f"twin-{tid}", "props": list(ALL_PROPS), "edits": [], "patch": pth, "expect": "silent", "desc": "behaviour-preserving refactoring by an independent agent", "mention": None, "local": False})
    return out


def copy_pkg(repo, dst):
    src = os.path.join(repo, "skchange")
    for dp, dn, fn in os.walk(src):
        dn[:] = [d for d in dn if d not in ("tests", "__pycache__")]
        rel = os.path.relpath(dp, repo)
        os.makedirs(os.path.join(dst, rel), exist_ok=True)
        for f in fn:
            if f.endswith(".py"):
                shutil.copy2(os.path.join(dp, f), os.path.join(dst, rel, f))


def apply_variant(v, root):
    """returns None if applied, else a reason why it is not applicable"""
    if v.get("patch"):
        r = subprocess.run(["patch", "-p1", "-s", "-f", "--no-backup-if-mismatch", "-i", v["patch"]], cwd=root, capture_output=True, text=True)
        if r.returncode != 0:
            return "patch does not apply to the current tree: " + (r.stdout + r.stderr).strip().splitlines()[0][:160]
        for dp, dn, fn in os.walk(root):
            for f in fn:
                if f.endswith((".orig", ".rej")):
                    return "patch applied with rejects"
        return None
    for ed in v["edits"]:
        path = os.path.join(root, ed["file"])
        if not os.path.exists(path):
            return f"file {ed['file']} missing"
        s = open(path).read()
        if s.count(ed["old"]) != 1:
            return f"anchor text occurs {s.count(ed['old'])} times in {ed['file']}"
        s = s.replace(ed["old"], ed["new"])
        try:
            compile(s, path, "exec")
        except SyntaxError as e:
            return f"variant does not compile: {e}"
        open(path, "w").write(s)
    return None


def run_one(v, repo, props):
    tmp = tempfile.mkdtemp(prefix="skverif_st_")
    try:
        copy_pkg(repo, tmp)
        why = apply_variant(v, tmp)
        if why is not None:
            return {"id": v["id"], "status": "skipped", "why": why}
        out = {}
        for prop in props:
            env = dict(os.environ, SKVERIF_EVIDENCE_DIR=os.path.join(tmp, "_ev"), PYTHONPATH=VERIF)
            r = subprocess.run([sys.executable, "-m", "skverif", "check", prop, "--tier", "quick", "--repo", tmp], capture_output=True, text=True, env=env, cwd=VERIF, timeout=600)
            out[prop] = (r.returncode, r.stdout[-40000:] + r.stderr[-2000:])
        return {"id": v["id"], "status": "ran", "results": out}
    finally:
        shutil.rmtree(tmp, ignore_errors=True)


def judge(v, res):
    """-> (ok, message)"""
    if res["status"] == "skipped":
        return None, f"SKIP {v['id']}: {res['why']}"
    exp = v["expect"]
    codes = {p: c for p, (c, _) in res["results"].items()}
    if exp == "fire":
        fired = [p for p, c in codes.items() if c == 1]
        if not fired or (v.get("each_must_fire") and len(fired) != len(codes)):
            return False, f"MISSED {v['id']} ({v['desc']}): exit codes {codes}"
        # the report must name the construct
        if v.get("mention"):
            txt = "".join(o for _, o in res["results"].values())
            if not any(m in txt for m in v["mention"]):
                return False, f"UNNAMED {v['id']}: fired on {fired} but the report does not mention any of {v['mention']}"
        return True, f"ok   {v['id']} fired on {fired}"
    if exp == "undecided":
        # a correct spelling the rules cannot read: ANALYSIS-ERROR (exit 2) is acceptable, a VIOLATION is a false alarm
        bad1 = {p: c for p, c in codes.items() if c == 1}
        if bad1:
            p0 = next(iter(bad1))
            tail = "\n".join(l for l in res["results"][p0][1].splitlines() if "VIOLATION" in l)[:800]
            return False, f"FALSE-ALARM {v['id']} ({v['desc']}): exit codes {bad1}\n{tail}"
        return True, f"ok   {v['id']} no violation reported (exit codes {codes})"
    bad = {p: c for p, c in codes.items() if c != 0}
    if bad:
        p0 = next(iter(bad))
        tail = "\n".join(l for l in res["results"][p0][1].splitlines() if "VIOLATION" in l or "ANALYSIS-ERROR" in l)[:800]
        return False, f"FALSE-ALARM {v['id']} ({v['desc']}): exit codes {bad}\n{tail}"
    return True, f"ok   {v['id']} silent"


ALL_PROPS = [f"C{i:02d}" for i in range(1, 19)]


def run_selftest(props=None, repo="/repo", jobs=16, seed=0, update_evidence=False, only=None, cross=False):
    """cross=True: every behaviour-preserving ('silent') variant, whatever property it was written for, is run against
    ALL property checks (or `props`) and must stay silent everywhere - a rule of property A must not fire on an edit
    that was designed as a harmless twin for property B."""
    t0 = time.time()
    variants = load_variants()
    if cross:
        targets = props or ALL_PROPS
        variants = [dict(v, props=targets) for v in variants if v["expect"] == "silent" and not v.get("local")]
        props = None
    if props:
        variants = [v for v in variants if set(v["props"]) & set(props)]
    if only:
        variants = [v for v in variants if any(o in v["id"] for o in only)]
    rnd = random.Random(seed)
    rnd.shuffle(variants)
    results = []

    def work(v):
        ps = [p for p in v["props"] if not props or p in props]
        try:
            return v, run_one(v, repo, ps)
        except Exception as e:  # noqa: BLE001
            return v, {"id": v["id"], "status": "skipped", "why": f"harness error {e!r}"}

    with ThreadPoolExecutor(max_workers=jobs) as pool:
        for v, res in pool.map(work, variants):
            results.append((v, res))
    n_ok = n_bad = n_skip = 0
    lines = []
    for v, res in results:
        ok, msg = judge(v, res)
        if ok is None:
            n_skip += 1
        elif ok:
            n_ok += 1
        else:
            n_bad += 1
        lines.append(msg)
    for l in sorted(lines):
        if not l.startswith("ok"):
            print(l)
    fire = sum(1 for v, _ in results if v["expect"] == "fire")
    print(f"[selftest] props={props or 'all'} variants={len(results)} (fire={fire}, silent={len(results) - fire}) ok={n_ok} failed={n_bad} skipped={n_skip} wall={time.time() - t0:.1f}s")
    if update_evidence and props:
        for p in props:
            path = os.path.join(os.environ.get("SKVERIF_EVIDENCE_DIR") or os.path.join(VERIF, "evidence"), f"{p}.json")
            try:
                ev = json.load(open(path))
                ev["coverage"]["selftest"] = {"variants": len(results), "must_fire": fire, "must_stay_silent": len(results) - fire, "ok": n_ok, "failed": n_bad, "skipped_not_applicable": n_skip}
                ev["wall_s"] = round(ev.get("wall_s", 0) + time.time() - t0, 3)
                json.dump(ev, open(path, "w"), indent=1)
            except Exception:  # noqa: BLE001
                pass
    if n_bad:
        print("ANALYSIS-ERROR self-test of the checker failed (the machinery, not the repository, is at fault)")
        return 2
    return 0
