"""Obligations, findings, evidence and exit codes (DESIGN §8)."""

from __future__ import annotations

import ast
import json
import os
import time
import traceback
from dataclasses import dataclass, field

from .index import Program, load_program
from .nf import Undecided

HOLDS, VIOLATION, UNDECIDED = "HOLDS", "VIOLATION", "UNDECIDED"
VERIF = os.path.dirname(os.path.dirname(os.path.abspath(__file__)))


@dataclass
class Obligation:
    rule: str  # e.g. C01.a NF-KERNEL
    key: str  # instance key: owner|role|construct (no line numbers)
    status: str
    loc: str = ""
    detail: str = ""
    found: str = ""
    expected: str = ""
    nontrivial: bool = True
    path: list = field(default_factory=list)

    def line(self):
        s = f"{self.loc}  {self.rule}  {self.key} - {self.status}"
        if self.detail:
            s += f": {self.detail}"
        if self.status != HOLDS and (self.found or self.expected):
            s += f"\n      found    {self.found}\n      expected {self.expected}"
        if self.path:
            s += "\n      path " + " -> ".join(self.path)
        return s

    def as_json(self):
        d = {"rule": self.rule, "instance": self.key, "status": self.status, "loc": self.loc}
        if self.detail:
            d["detail"] = self.detail
        if self.found:
            d["found"] = self.found[:600]
        if self.expected:
            d["expected"] = self.expected[:600]
        if self.path:
            d["path"] = self.path
        return d


class Ctx:
    def __init__(self, prop, repo, tier, seed):
        self.prop = prop
        self.repo = repo
        self.tier = tier
        self.seed = seed
        self.P: Program = load_program(repo)
        self.obs: list[Obligation] = []
        self.stats = {"functions_analysed": set(), "call_paths": 0, "sinks": 0, "inlining_depth_max": 0, "paths_explored": 0, "constructs": 0}
        self.mins = {}
        self.notes = []

    # ------------------------------------------------------------ recording
    def add(self, rule, key, status, loc="", detail="", found="", expected="", nontrivial=True, path=None):
        o = Obligation(rule, key, status, loc, detail, str(found), str(expected), nontrivial, path or [])
        self.obs.append(o)
        return o

    def holds(self, rule, key, loc="", detail="", **kw):
        return self.add(rule, key, HOLDS, loc, detail, **kw)

    def violation(self, rule, key, loc="", detail="", **kw):
        return self.add(rule, key, VIOLATION, loc, detail, **kw)

    def undecided(self, rule, key, loc="", detail="", **kw):
        return self.add(rule, key, UNDECIDED, loc, detail, **kw)

    def check(self, cond, rule, key, loc="", detail="", found="", expected="", **kw):
        return self.add(rule, key, HOLDS if cond else VIOLATION, loc, detail, found, expected, **kw)

    def expect_min(self, rule, n, minimum):
        """Anti-vacuity: a rule matching fewer instances than confirmed by hand is analysis-broken."""
        self.mins[rule] = (n, minimum)
        if n < minimum:
            self.undecided(rule, "instance-count", "", f"matched {n} instances, at least {minimum} were confirmed by hand on the reference tree", nontrivial=False)

    def guard(self, rule, key, fn, loc=""):
        """Run fn(); an Undecided inside becomes an UNDECIDED obligation."""
        try:
            return fn()
        except Undecided as u:
            l = loc
            n = getattr(u, "node", None)
            if n is not None and hasattr(n, "lineno"):
                l = f"{loc.split(':')[0] if loc else ''}:{n.lineno}" if loc else f":{n.lineno}"
            self.undecided(rule, key, l, str(u))
            return None

    def see_executor(self, ex, paths=None):
        self.stats["functions_analysed"] |= set(ex.functions_seen)
        self.stats["inlining_depth_max"] = max(self.stats["inlining_depth_max"], ex.max_depth_seen)
        self.stats["call_paths"] += ex.calls_inlined
        if paths is not None:
            self.stats["paths_explored"] += len(paths)


def load_known():
    p = os.path.join(VERIF, "known_findings.json")
    with open(p) as fh:
        return json.load(fh)


def match_known(prop, o: Obligation, known):
    for k in known.get("known", []):
        if k.get("property") != prop:
            continue
        if k.get("rule") and k["rule"] not in o.rule:
            continue
        if k.get("owner") and k["owner"] not in o.key:
            continue
        if k.get("construct") and k["construct"] not in (o.key + " " + o.found + " " + o.detail):
            continue
        return k
    return None


def run_property(prop, check_fn, explanation, assumptions, repo, tier, seed, extra=None):
    """Runs one property's rules, prints the report, writes evidence, returns the exit code."""
    t0 = time.time()
    ev_dir = os.environ.get("SKVERIF_EVIDENCE_DIR") or os.path.join(VERIF, "evidence")
    os.makedirs(os.path.join(ev_dir, "replay"), exist_ok=True)
    ctx = None
    crashed = None
    try:
        ctx = Ctx(prop, repo, tier, seed)
        check_fn(ctx)
    except Undecided as u:
        crashed = f"UNDECIDED outside a guarded rule: {u}"
    except Exception as e:  # internal error of the machinery: never a VIOLATION
        crashed = "internal error: " + "".join(traceback.format_exception_only(type(e), e)).strip()
        tb = traceback.format_exc()
        print(tb)
    obs = ctx.obs if ctx is not None else []
    known = load_known()
    viol, knownhits, und = [], [], []
    for o in obs:
        if o.status == VIOLATION:
            k = match_known(prop, o, known)
            if k is not None:
                knownhits.append((o, k))
            else:
                viol.append(o)
        elif o.status == UNDECIDED:
            und.append(o)
    n_hold = sum(1 for o in obs if o.status == HOLDS)
    print(f"[{prop}] tier={tier} repo={repo} obligations={len(obs)} hold={n_hold} violations={len(viol)} known={len(knownhits)} undecided={len(und)}")
    rules = {}
    for o in obs:
        r = rules.setdefault(o.rule, [0, 0])
        r[0] += 1
        r[1] += o.status == HOLDS
    for r in sorted(rules):
        print(f"   {r}: {rules[r][1]}/{rules[r][0]} hold")
    seen_known = set()
    for o, k in knownhits:
        if k["id"] in seen_known:
            continue
        seen_known.add(k["id"])
        print(f"KNOWN-FINDING: property={prop} {k['id']} {k['what_fails']}")
        print("   " + o.line())
    for o in und:
        print("ANALYSIS-ERROR " + o.line())
    if crashed:
        print("ANALYSIS-ERROR " + crashed)
    for i, o in enumerate(viol):
        rp = os.path.join(ev_dir, "replay", f"{prop}-{i}.json")
        with open(rp, "w") as fh:
            json.dump({"property": prop, "repo": repo, "tier": tier, **o.as_json()}, fh, indent=1)
        print(o.line())
        print(f"VIOLATION property={prop} replay={rp}")
    # ---------------------------------------------------------------- evidence
    distinct = len({(o.rule, o.key) for o in obs if o.nontrivial and o.status == HOLDS})
    samples = [o.as_json() for o in obs[:0]]
    picked = {}
    for o in obs:
        picked.setdefault(o.rule, o)
    samples = [o.as_json() for o in list(picked.values())[:12]]
    for o in (viol + [x for x, _ in knownhits] + und)[:6]:
        samples.append(o.as_json())
    stats = ctx.stats if ctx is not None else {}
    cov = {
        "explanation": explanation,
        "obligations": len(obs),
        "discharged": n_hold,
        "evaluations": max(1, len(obs)),
        "distinct_nontrivial": distinct,
        "rule": "one obligation per rule instance (rule x owner x construct) discovered in /repo's source on this run; "
        "non-trivial = decided by a normal-form comparison, dominance/dataflow query or affine implication (presence-only checks excluded); "
        "distinct = distinct (rule, instance key)",
        "samples": samples,
        "per_rule": {r: {"instances": v[0], "hold": v[1]} for r, v in sorted(rules.items())},
        "violations_unlisted": len(viol),
        "known_findings_matched": sorted(seen_known),
        "undecided": len(und) + (1 if crashed else 0),
        "functions_analysed": len(stats.get("functions_analysed", ())),
        "call_paths": stats.get("call_paths", 0),
        "paths_explored": stats.get("paths_explored", 0),
        "sinks": stats.get("sinks", 0),
        "inlining_depth_max": stats.get("inlining_depth_max", 0),
        "modules_parsed": len(ctx.P.modules) if ctx is not None else 0,
        "source_digest": ctx.P.digest if ctx is not None else "",
        "min_instance_counts": {k: {"matched": v[0], "minimum": v[1]} for k, v in (ctx.mins.items() if ctx else [])},
        "exhaustive": True,
        "checker_cmd": f"/venv/bin/python -m skverif check {prop} --tier {tier}",
        "trusted_base": assumptions,
    }
    if extra and ctx is not None:
        cov.update(extra(ctx) or {})
    evidence = {
        "property_id": prop,
        "tier": tier,
        "seed": int(seed),
        "level": "other",
        "coverage": cov,
        "assumptions": assumptions,
        "wall_s": round(time.time() - t0, 3),
        "violations": len(viol),
    }
    with open(os.path.join(ev_dir, f"{prop}.json"), "w") as fh:
        json.dump(evidence, fh, indent=1)
    if viol:
        return 1
    if und or crashed:
        return 2
    return 0
