"""E5 - lower bounds and non-emptiness (structural interval reasoning on normal forms).

prove_ge0 decides  nf >= 0  from affine assumptions, splitting on min/max atoms that
occur linearly (min with positive coefficient: all arguments; max: some argument).
lower_bound gives a constant lower bound through monotone integer roundings.
"""

from __future__ import annotations

import math
from fractions import Fraction

from .affine import Lin, entails
from .nf import NF, Atom, as_linear, lift, single_atom


def prove_ge0(nf, assumptions, depth=0):
    nf = lift(nf)
    c = nf.as_const()
    if c is not None:
        return c >= 0
    r = as_linear(nf)
    if r is None:
        return False
    c0, lin = r
    for a, co in lin.items():
        if a.kind in ("min", "max") and depth < 4:
            rest = nf - NF.atom(a) * co
            args = list(a.args)
            all_needed = (a.kind == "min") == (co > 0)
            res = [prove_ge0(rest + lift(x) * co, assumptions, depth + 1) for x in args]
            return all(res) if all_needed else any(res)
    return entails(assumptions, Lin.of(nf))


def lower_bound(nf, assumptions, positive=()):
    """constant c with nf >= c, or None"""
    nf = lift(nf)
    c = nf.as_const()
    if c is not None:
        return c
    a = single_atom(nf)
    if a is not None:
        if a.kind == "max":
            bs = [lower_bound(x, assumptions, positive) for x in a.args]
            bs = [b for b in bs if b is not None]
            return max(bs) if bs else None
        if a.kind == "min":
            bs = [lower_bound(x, assumptions, positive) for x in a.args]
            return None if any(b is None for b in bs) else min(bs)
        if a.kind == "app" and a.args[0] in ("int", "floor", "ceil", "round") and isinstance(a.args[1], NF):
            b = lower_bound(a.args[1], assumptions, positive)
            if b is None:
                return None
            if a.args[0] == "ceil":
                return Fraction(math.ceil(b))
            if a.args[0] == "round":
                return Fraction(math.floor(b + Fraction(1, 2)))
            if a.args[0] == "int":
                return Fraction(math.floor(b)) if b >= 0 else Fraction(math.ceil(b))
            return Fraction(math.floor(b))
        if a.kind == "abs":
            return Fraction(0)
    r = as_linear(nf)
    if r is not None:
        c0, lin = r
        # sum of terms with known bounds
        tot = c0
        ok = True
        for at, co in lin.items():
            if co > 0:
                b = lower_bound(NF.atom(at), assumptions, positive) if at.kind in ("max", "min", "app", "abs") else None
                if b is None:
                    ok = False
                    break
                tot += co * b
            else:
                ok = False
                break
        if ok:
            return tot
    for cand in (2, 1, 0):
        if prove_ge0(nf - cand, assumptions):
            return Fraction(cand)
    # quotient of a provably non-negative numerator and a positive denominator
    red = nf.reduced()
    if not (len(red.den) == 1 and () in red.den):
        if _sign_nonneg(NF(red.num), assumptions, positive) and _sign_pos(NF(red.den), assumptions, positive):
            return Fraction(0)
    return None


def _sign_pos(nf, assumptions, positive):
    a = single_atom(nf)
    if a is not None and a.key in positive:
        return True
    c = nf.as_const()
    if c is not None:
        return c > 0
    return prove_ge0(nf - 1, assumptions)


def _sign_nonneg(nf, assumptions, positive):
    """nf >= 0 for combinations of logarithms: sum c_i log(a_i) >= 0 iff prod a_i^c_i >= 1"""
    c = nf.as_const()
    if c is not None:
        return c >= 0
    if prove_ge0(nf, assumptions):
        return True
    r = as_linear(nf)
    if r is None:
        return False
    c0, lin = r
    if c0 != 0:
        return False
    num = NF.const(1)
    den = NF.const(1)
    for a, co in lin.items():
        if co.denominator != 1:
            return False
        if a.kind == "log":
            base = NF.atom(a.args[0])
        elif a.kind == "logq":
            base = NF.const(a.args[0])
        else:
            return False
        k = int(co)
        if k > 0:
            num = num * base ** k
        else:
            den = den * base ** (-k)
    return prove_ge0(num - den, assumptions)
