"""E3 - rational normal forms over atoms (pure stdlib).

An NF is a quotient num/den of "polynomials" whose monomials are products of
atoms raised to positive rational exponents.  Equality is decided by
cross-multiplication, which is complete for the field of rational functions
over independent atoms.  Fractional powers and logarithms of multi-term
polynomials are kept as wrapped factor atoms P(f) after trial division by the
registered (degree-1) factors, so that sqrt(a/(b*c)) == sqrt(a)/sqrt(b)/sqrt(c)
and P(f)**(1/2) * P(f)**(1/2) == f.

Nothing here evaluates anything numerically: all operations are exact symbolic
manipulations with `fractions.Fraction` coefficients.
"""

from __future__ import annotations

from fractions import Fraction
from functools import cmp_to_key
from math import gcd

ONE = Fraction(1)
ZERO = Fraction(0)


class Undecided(Exception):
    """The construct left the fragment the analysis understands."""

    def __init__(self, msg, node=None):
        super().__init__(msg)
        self.node = node


# --------------------------------------------------------------------------
# atoms


def keyof(x) -> str:
    if isinstance(x, Atom):
        return x.key
    if isinstance(x, NF):
        return x.key
    if isinstance(x, (tuple, list)):
        return "(" + ",".join(keyof(y) for y in x) + ")"
    if isinstance(x, Fraction):
        return str(x)
    return repr(x)


class Atom:
    """An opaque generator of the expression field.

    kind is one of
      sym   a named symbol                         args = (name,)
      P     a wrapped multi-term polynomial        args = (polykey,)
      Q     a prime number (under fractional exps) args = (prime,)
      log   log of an atom                         args = (atom,)
      app   application of a modelled function     args = (fname, *args)
    and anything else a client wants to introduce.
    """

    __slots__ = ("kind", "args", "key", "_hash")

    def __init__(self, kind, *args):
        self.kind = kind
        self.args = args
        self.key = kind + "(" + ",".join(keyof(a) for a in args) + ")"
        self._hash = hash(self.key)

    def __hash__(self):
        return self._hash

    def __eq__(self, other):
        return isinstance(other, Atom) and self.key == other.key

    def __lt__(self, other):
        return self.key < other.key

    def __repr__(self):
        return pretty_atom(self)


def sym(name) -> "NF":
    return NF.atom(Atom("sym", name))


# --------------------------------------------------------------------------
# monomials and polynomials.  Mono = tuple[(Atom, Fraction>0)] sorted by key.


def mono_mul(m1, m2):
    if not m1:
        return m2
    if not m2:
        return m1
    d = dict(m1)
    for a, e in m2:
        d[a] = d.get(a, ZERO) + e
    return tuple(sorted(((a, e) for a, e in d.items() if e != 0), key=lambda t: t[0].key))


def mono_cmp(m1, m2):
    i = j = 0
    while i < len(m1) and j < len(m2):
        a1, e1 = m1[i]
        a2, e2 = m2[j]
        if a1.key == a2.key:
            if e1 != e2:
                return 1 if e1 > e2 else -1
            i += 1
            j += 1
        elif a1.key < a2.key:
            return 1
        else:
            return -1
    if i < len(m1):
        return 1
    if j < len(m2):
        return -1
    return 0


_mono_key = cmp_to_key(mono_cmp)


def mono_div(m1, m2):
    """m1 / m2 if every exponent stays >= 0 else None."""
    d = dict(m1)
    for a, e in m2:
        r = d.get(a, ZERO) - e
        if r < 0:
            return None
        if r == 0:
            d.pop(a, None)
        else:
            d[a] = r
    return tuple(sorted(d.items(), key=lambda t: t[0].key))


def p_const(c):
    c = Fraction(c)
    return {(): c} if c != 0 else {}


def p_add(p, q, sign=1):
    r = dict(p)
    for m, c in q.items():
        v = r.get(m, ZERO) + sign * c
        if v == 0:
            r.pop(m, None)
        else:
            r[m] = v
    return r


def _special_split(mono, coeff):
    """Normalise P/Q atoms whose exponent reached >= 1 (P(f)**1 == f)."""
    extra = None
    rest = []
    for a, e in mono:
        if a.kind in ("P", "Q") and e >= 1:
            ip = e.numerator // e.denominator
            fp = e - ip
            base = poly_of_P(a) if a.kind == "P" else p_const(a.args[0])
            for _ in range(ip):
                extra = base if extra is None else p_mul(extra, base)
            if fp:
                rest.append((a, fp))
        else:
            rest.append((a, e))
    if extra is None:
        return None
    return p_mul({tuple(rest): coeff}, extra)


def p_mul(p, q):
    if not p or not q:
        return {}
    r = {}
    for m1, c1 in p.items():
        for m2, c2 in q.items():
            m = mono_mul(m1, m2)
            c = c1 * c2
            sp = _special_split(m, c) if any(
                a.kind in ("P", "Q") and e >= 1 for a, e in m
            ) else None
            if sp is None:
                v = r.get(m, ZERO) + c
                if v == 0:
                    r.pop(m, None)
                else:
                    r[m] = v
            else:
                for mm, cc in sp.items():
                    v = r.get(mm, ZERO) + cc
                    if v == 0:
                        r.pop(mm, None)
                    else:
                        r[mm] = v
    return r


def p_scale(p, c):
    c = Fraction(c)
    if c == 0:
        return {}
    return {m: v * c for m, v in p.items()}


def p_lead(p):
    m = max(p.keys(), key=_mono_key)
    return m, p[m]


def p_divexact(a, b):
    """Exact quotient a / b of polynomials, or None."""
    if not b:
        return None
    if len(b) == 1:
        (mb, cb), = b.items()
        out = {}
        for m, c in a.items():
            q = mono_div(m, mb)
            if q is None:
                return None
            out[q] = c / cb
        return out
    lb, cb = p_lead(b)
    rem = dict(a)
    quo = {}
    guard = 0
    while rem:
        guard += 1
        if guard > 2000:
            return None
        lm, lc = p_lead(rem)
        qm = mono_div(lm, lb)
        if qm is None:
            return None
        qc = lc / cb
        quo[qm] = quo.get(qm, ZERO) + qc
        rem = p_add(rem, p_mul({qm: qc}, b), -1)
    return quo


def polykey(p):
    return tuple(sorted(((m, c) for m, c in p.items()), key=lambda t: _mono_key(t[0])))


_P_CACHE = {}


def P_atom(p) -> Atom:
    k = polykey(p)
    a = Atom("P", k)
    _P_CACHE[a.key] = dict(p)
    return a


def poly_of_P(a: Atom):
    p = _P_CACHE.get(a.key)
    if p is None:
        p = {m: c for m, c in a.args[0]}
        _P_CACHE[a.key] = p
    return p


# registry of declared-positive (primitive, multi-term) factors for trial division.
# Clients declare which linear forms are positive (e.g. differences of increasing
# cut columns); only those are used to factor products under roots / logarithms.
_KNOWN = {}


def declare_positive(x):
    """Declare the polynomial NF x (> 0) as a factor usable by trial division."""
    x = lift(x).reduced()
    if not (len(x.den) == 1 and () in x.den):
        return
    p = x.num
    if len(p) < 2:
        return
    c, mg, prim = _content(p)
    if len(prim) < 2:
        return
    _KNOWN.setdefault(polykey(prim), prim)


def register_factor(p):  # kept for callers that hold a raw polynomial
    declare_positive(NF(dict(p)))


def known_factors():
    return list(_KNOWN.values())


def _content(p):
    """p = c * mono * prim, with c > 0 rational, prim primitive (integer, coprime)."""
    nums = [abs(c.numerator) for c in p.values()]
    dens = [c.denominator for c in p.values()]
    g = 0
    for x in nums:
        g = gcd(g, x)
    l = 1
    for d in dens:
        l = l * d // gcd(l, d)
    c = Fraction(g, l)
    # monomial gcd
    it = iter(p.keys())
    common = dict(next(it))
    for m in it:
        dm = dict(m)
        for a in list(common):
            e = min(common[a], dm.get(a, ZERO))
            if e <= 0:
                del common[a]
            else:
                common[a] = e
        if not common:
            break
    mg = tuple(sorted(common.items(), key=lambda t: t[0].key))
    prim = {}
    for m, v in p.items():
        prim[mono_div(m, mg)] = v / c
    return c, mg, prim


def factor_poly(p):
    """p = coeff * prod(atom**e) * prod(P(f_i)**k_i): returns (coeff, [(Atom, exp)])."""
    if not p:
        raise Undecided("factorisation of zero")
    if len(p) == 1:
        (m, c), = p.items()
        return c, list(m)
    c, mg, prim0 = _content(p)
    prim = prim0
    factors = list(mg)
    pf = []
    changed = True
    rounds = 0
    while changed and len(prim) > 1 and rounds < 12:
        changed = False
        rounds += 1
        for k in sorted(_KNOWN):
            f = _KNOWN[k]
            if len(f) > len(prim) + 2:
                continue
            q = p_divexact(prim, f)
            if q is not None and q:
                pf.append((P_atom(f), ONE))
                prim = q
                changed = True
                if len(prim) == 1:
                    break
    cc = ONE
    if len(prim) == 1:
        (m, cc), = prim.items()
        if cc > 0:
            factors.extend(pf)
            factors.extend(m)
            c = c * cc
        else:
            # the declared-positive factors would leave a negative constant:
            # keep the polynomial as one opaque factor instead.
            factors.append((P_atom(prim0), ONE))
    else:
        factors.extend(pf)
        factors.append((P_atom(prim), ONE))
    d = {}
    for a, e in factors:
        d[a] = d.get(a, ZERO) + e
    return c, sorted(d.items(), key=lambda t: t[0].key)


def _prime_factors(n):
    out = {}
    d = 2
    while d * d <= n:
        while n % d == 0:
            out[d] = out.get(d, 0) + 1
            n //= d
        d += 1
    if n > 1:
        out[n] = out.get(n, 0) + 1
    return out


# --------------------------------------------------------------------------


class NF:
    __slots__ = ("num", "den", "_key")

    def __init__(self, num, den=None):
        self.num = num
        self.den = den if den is not None else {(): ONE}
        self._key = None
        if not self.den:
            raise Undecided("division by a polynomial that is identically zero")

    # -- constructors
    @staticmethod
    def const(c):
        return NF(p_const(c))

    @staticmethod
    def atom(a, e=ONE):
        return NF({((a, Fraction(e)),): ONE})

    # -- predicates
    def is_zero(self):
        return not self.num

    def as_const(self):
        """Fraction if the NF is a rational constant else None."""
        r = self.reduced()
        if not r.num:
            return ZERO
        if len(r.num) == 1 and () in r.num and len(r.den) == 1 and () in r.den:
            return r.num[()] / r.den[()]
        return None

    def reduced(self):
        """Cheap reduction: single-term denominators are divided out where possible,
        exact polynomial division when den | num, sign/scale normalisation of den."""
        num, den = self.num, self.den
        if not num:
            return NF({}, {(): ONE})
        if len(den) == 1:
            (md, cd), = den.items()
            if not md:
                if cd == 1:
                    return self
                return NF(p_scale(num, 1 / cd))
            # cancel common monomial content
            _, mg, _ = _content(num)
            common = {}
            dmg = dict(mg)
            for a, e in md:
                x = min(e, dmg.get(a, ZERO))
                if x > 0:
                    common[a] = x
            cm = tuple(sorted(common.items(), key=lambda t: t[0].key))
            if cm:
                num = {mono_div(m, cm): c for m, c in num.items()}
                md = mono_div(md, cm)
            return NF(p_scale(num, 1 / cd), {md: ONE})
        q = p_divexact(num, den)
        if q is not None:
            return NF(q)
        if len(num) > 1:
            for k in sorted(_KNOWN):
                f = _KNOWN[k]
                while len(den) > 1 and len(num) > 1:
                    qd = p_divexact(den, f)
                    if qd is None:
                        break
                    qn = p_divexact(num, f)
                    if qn is None:
                        break
                    num, den = qn, qd
            if len(den) == 1:
                return NF(num, den).reduced()
        # normalise den: content positive-leading
        c, mg, prim = _content(den)
        _, lc = p_lead(prim)
        if lc < 0:
            c = -c
        if c != 1:
            num = p_scale(num, 1 / c)
            den = p_scale(den, 1 / c)
        return NF(num, den)

    @property
    def key(self):
        if self._key is None:
            r = self.reduced()
            self._key = "[" + _polystr(r.num) + "]/[" + _polystr(r.den) + "]"
        return self._key

    def __hash__(self):
        return hash(self.key)

    def __eq__(self, other):
        if not isinstance(other, NF):
            other = lift(other)
        return nf_equal(self, other)

    # -- arithmetic
    def __add__(self, o):
        o = lift(o)
        if self.den == o.den:
            r = NF(p_add(self.num, o.num), self.den)
        else:
            r = NF(
                p_add(p_mul(self.num, o.den), p_mul(o.num, self.den)),
                p_mul(self.den, o.den),
            )
        return r._light()

    __radd__ = __add__

    def __neg__(self):
        return NF(p_scale(self.num, -1), self.den)

    def __sub__(self, o):
        return self + (-lift(o))

    def __rsub__(self, o):
        return lift(o) + (-self)

    def __mul__(self, o):
        o = lift(o)
        if not self.num or not o.num:
            return NF({})
        # cheap cross cancellation
        a, b, c, d = self.num, self.den, o.num, o.den
        if a == d:
            return NF(c, b)._light()
        if c == b:
            return NF(a, d)._light()
        return NF(p_mul(a, c), p_mul(b, d))._light()

    __rmul__ = __mul__

    def inv(self):
        if not self.num:
            raise Undecided("division by zero")
        return NF(self.den, self.num)._light()

    def __truediv__(self, o):
        return self * lift(o).inv()

    def __rtruediv__(self, o):
        return lift(o) * self.inv()

    def _light(self):
        if len(self.den) == 1 and () in self.den and self.den[()] == 1:
            return self
        return self.reduced()

    def __pow__(self, q):
        if isinstance(q, NF):
            c = q.as_const()
            if c is None:
                return NF.atom(Atom("app", "pow", self, q))
            q = c
        q = Fraction(q)
        if q.denominator == 1:
            n = int(q)
            if n == 0:
                return NF.const(1)
            if n % 2 == 0:
                # |x| ** 2k == x ** 2k
                a = _single_atom(self)
                if a is not None and a.kind == "abs":
                    return lift(a.args[0]) ** n
            base = self if n > 0 else self.inv()
            r = base
            for _ in range(abs(n) - 1):
                r = r * base
            return r
        r = self.reduced()
        if q < 0:
            r = r.inv()
            q = -q
        return _fracpow(r.num, q) / _fracpow(r.den, q)

    def __repr__(self):
        return pretty(self)


def _is_linear(p):
    for m in p:
        tot = ZERO
        for a, e in m:
            if e.denominator != 1:
                return False
            tot += e
        if tot > 1:
            return False
    return True


def _fracpow(p, q):
    """(polynomial p) ** q for a non-integer positive rational q."""
    coeff, factors = factor_poly(p)
    out = NF.const(1)
    if coeff < 0:
        raise Undecided("fractional power of an expression with negative content")
    if coeff != 1:
        for pr, k in _prime_factors(coeff.numerator).items():
            out = out * _atom_pow(Atom("Q", pr), k * q)
        for pr, k in _prime_factors(coeff.denominator).items():
            out = out / _atom_pow(Atom("Q", pr), k * q)
    for a, e in factors:
        out = out * _atom_pow(a, e * q)
    return out


def _atom_pow(a, e):
    e = Fraction(e)
    if e == 0:
        return NF.const(1)
    if e < 0:
        return _atom_pow(a, -e).inv()
    if a.kind in ("P", "Q") and e >= 1:
        ip = e.numerator // e.denominator
        fp = e - ip
        base = NF(poly_of_P(a)) if a.kind == "P" else NF.const(a.args[0])
        r = NF.const(1)
        for _ in range(ip):
            r = r * base
        if fp:
            r = r * NF.atom(a, fp)
        return r
    return NF.atom(a, e)


def lift(x) -> NF:
    if isinstance(x, NF):
        return x
    if isinstance(x, bool):
        return NF.const(int(x))
    if isinstance(x, (int, Fraction)):
        return NF.const(x)
    if isinstance(x, float):
        return NF.const(Fraction(repr(x)))
    if isinstance(x, Atom):
        return NF.atom(x)
    raise Undecided(f"cannot lift {x!r} into the expression field")


def nf_equal(a: NF, b: NF) -> bool:
    a = renorm(a)
    b = renorm(b)
    if a.den == b.den:
        return a.num == b.num
    return p_mul(a.num, b.den) == p_mul(b.num, a.den)


# --------------------------------------------------------------------------
# functions


def nf_sqrt(x: NF) -> NF:
    return x ** Fraction(1, 2)


def nf_log(x: NF) -> NF:
    r = lift(x).reduced()
    return _logpoly(r.num) - _logpoly(r.den)


def _logpoly(p):
    if len(p) == 1 and () in p and p[()] == 1:
        return NF.const(0)
    coeff, factors = factor_poly(p)
    if coeff <= 0:
        raise Undecided("logarithm of an expression with non-positive content")
    out = NF.const(0)
    for pr, k in _prime_factors(coeff.numerator).items():
        out = out + NF.atom(Atom("logq", pr)) * k
    for pr, k in _prime_factors(coeff.denominator).items():
        out = out - NF.atom(Atom("logq", pr)) * k
    for a, e in factors:
        if isinstance(a, Atom) and a.kind == "app" and a.args[0] == "det":
            # log det(A) = log|det(A)| wherever the logarithm is defined (det > 0)
            out = out + NF.atom(Atom("app", "logabsdet", *a.args[1:])) * e
            continue
        out = out + NF.atom(Atom("log", a)) * e
    return out


def nf_abs(x: NF) -> NF:
    r = lift(x).reduced()
    c = r.as_const()
    if c is not None:
        return NF.const(abs(c))
    # canonical sign: leading coefficient of the numerator positive
    _, lc = p_lead(r.num)
    _, ld = p_lead(r.den)
    if (lc < 0) != (ld < 0):
        r = -r
    return NF.atom(Atom("abs", r))


def nf_max(*xs) -> NF:
    xs = [lift(x) for x in xs]
    flat = []
    for x in xs:
        a = _single_atom(x)
        if a is not None and a.kind == "max":
            flat.extend(a.args)
        else:
            flat.append(x)
    uniq = {x.key: x for x in flat}
    if len(uniq) == 1:
        return next(iter(uniq.values()))
    consts = [x.as_const() for x in uniq.values()]
    if all(c is not None for c in consts):
        return NF.const(max(consts))
    return NF.atom(Atom("max", *[uniq[k] for k in sorted(uniq)]))


def nf_min(*xs) -> NF:
    xs = [lift(x) for x in xs]
    flat = []
    for x in xs:
        a = _single_atom(x)
        if a is not None and a.kind == "min":
            flat.extend(a.args)
        else:
            flat.append(x)
    uniq = {x.key: x for x in flat}
    if len(uniq) == 1:
        return next(iter(uniq.values()))
    consts = [x.as_const() for x in uniq.values()]
    if all(c is not None for c in consts):
        return NF.const(min(consts))
    return NF.atom(Atom("min", *[uniq[k] for k in sorted(uniq)]))


def _single_atom(x: NF):
    if len(x.num) == 1 and len(x.den) == 1 and () in x.den and x.den[()] == 1:
        (m, c), = x.num.items()
        if c == 1 and len(m) == 1 and m[0][1] == 1:
            return m[0][0]
    return None


def single_atom(x: NF):
    return _single_atom(lift(x).reduced())


def app(fname, *args) -> NF:
    """Opaque application, value-numbered by the normal forms of its arguments."""
    return NF.atom(Atom("app", fname, *args))


# --------------------------------------------------------------------------
# traversal, substitution, re-normalisation


def atoms_of(x, deep=True, _acc=None):
    acc = _acc if _acc is not None else {}
    if isinstance(x, NF):
        for p in (x.num, x.den):
            for m in p:
                for a, _ in m:
                    atoms_of(a, deep, acc)
    elif isinstance(x, Atom):
        if x.key not in acc:
            acc[x.key] = x
            if deep:
                if x.kind == "P":
                    atoms_of(NF(poly_of_P(x)), deep, acc)
                else:
                    for a in x.args:
                        atoms_of(a, deep, acc)
    elif isinstance(x, (tuple, list)):
        for y in x:
            atoms_of(y, deep, acc)
    return acc


def rebuild_atom(a: Atom, f):
    """Re-evaluate atom `a` through the algebra after mapping sub-terms with f."""
    r = f(a)
    if r is not None:
        return lift(r)
    k = a.kind
    if k == "P":
        return P_value(evalnf(NF(poly_of_P(a)), f))
    if k == "Q":
        return NF.atom(a)
    if k == "log":
        return nf_log(rebuild_atom(a.args[0], f))
    if k == "logq":
        return NF.atom(a)
    if k == "abs":
        return nf_abs(evalnf(a.args[0], f))
    if k == "max":
        return nf_max(*[evalnf(x, f) for x in a.args])
    if k == "min":
        return nf_min(*[evalnf(x, f) for x in a.args])
    if k == "sym":
        return NF.atom(a)
    new = []
    for x in a.args:
        new.append(_map_arg(x, f))
    if k == "app" and new and new[0] in ("ceil", "floor", "round", "int") and len(new) >= 2 and isinstance(new[1], NF):
        c = new[1].as_const()
        if c is not None:
            import math

            fn = {"ceil": math.ceil, "floor": math.floor, "round": round, "int": int}[new[0]]
            return NF.const(fn(c))
    return NF.atom(Atom(k, *new))


class _PValue(NF):
    """Marker: NF that stands for the value of a P-atom's polynomial."""


def P_value(x: NF) -> NF:
    return x


def _map_arg(x, f):
    if isinstance(x, NF):
        return evalnf(x, f)
    if isinstance(x, Atom):
        r = rebuild_atom(x, f)
        s = _single_atom(r)
        return s if s is not None else r
    if isinstance(x, tuple):
        return tuple(_map_arg(y, f) for y in x)
    if isinstance(x, list):
        return [_map_arg(y, f) for y in x]
    return x


def evalnf(x: NF, f) -> NF:
    """Rebuild x bottom-up; f(atom) -> NF | None substitutes atoms."""

    def evpoly(p):
        out = NF.const(0)
        for m, c in p.items():
            t = NF.const(c)
            for a, e in m:
                base = rebuild_atom(a, f)
                if a.kind == "P":
                    # P(f)**e: base is the polynomial value
                    t = t * (base ** e)
                else:
                    t = t * (base ** e)
            out = out + t
        return out

    n = evpoly(x.num)
    if len(x.den) == 1 and () in x.den and x.den[()] == 1:
        return n
    return n / evpoly(x.den)


def renorm(x: NF) -> NF:
    """Re-canonicalise under the current factor registry."""
    has_special = False
    for p in (x.num, x.den):
        for m in p:
            for a, _ in m:
                if a.kind in ("P", "log", "abs", "max", "min", "app"):
                    has_special = True
                    break
    if not has_special:
        return x
    return evalnf(x, lambda a: None)


def subst(x: NF, mapping) -> NF:
    """mapping: {atom.key: NF}"""
    return evalnf(x, lambda a: mapping.get(a.key))


# --------------------------------------------------------------------------
# linear forms (for the affine domain)


def as_linear(x: NF):
    """Return (const, {atom: coeff}) if x is an affine form over atoms, else None."""
    r = lift(x).reduced()
    if not (len(r.den) == 1 and () in r.den):
        return None
    d = r.den[()]
    const = ZERO
    lin = {}
    for m, c in r.num.items():
        if not m:
            const += c / d
        elif len(m) == 1 and m[0][1] == 1:
            lin[m[0][0]] = lin.get(m[0][0], ZERO) + c / d
        else:
            return None
    return const, lin


# --------------------------------------------------------------------------
# printing


def pretty_atom(a: Atom) -> str:
    k = a.kind
    if k == "sym":
        return str(a.args[0])
    if k == "P":
        return "(" + _polystr(poly_of_P(a)) + ")"
    if k == "Q":
        return str(a.args[0])
    if k == "log":
        return "log" + (pretty_atom(a.args[0]) if a.args[0].kind == "P" else "(" + pretty_atom(a.args[0]) + ")")
    if k == "logq":
        return f"log({a.args[0]})"
    if k == "app":
        return f"{a.args[0]}(" + ", ".join(_parg(x) for x in a.args[1:]) + ")"
    return f"{k}(" + ", ".join(_parg(x) for x in a.args) + ")"


def _parg(x):
    if isinstance(x, NF):
        return pretty(x)
    if isinstance(x, Atom):
        return pretty_atom(x)
    if isinstance(x, (tuple, list)):
        return "(" + ", ".join(_parg(y) for y in x) + ")"
    return str(x)


def _monostr(m):
    parts = []
    for a, e in m:
        s = pretty_atom(a)
        if e != 1:
            s += f"^{e}" if e.denominator == 1 else f"^({e})"
        parts.append(s)
    return "*".join(parts)


def _polystr(p):
    if not p:
        return "0"
    items = sorted(p.items(), key=lambda t: _mono_key(t[0]), reverse=True)
    out = []
    for m, c in items:
        ms = _monostr(m)
        if not ms:
            s = str(c)
        elif c == 1:
            s = ms
        elif c == -1:
            s = "-" + ms
        else:
            s = f"{c}*{ms}"
        out.append(s)
    return " + ".join(out).replace("+ -", "- ")


def pretty(x: NF) -> str:
    r = x.reduced()
    n = _polystr(r.num)
    if len(r.den) == 1 and () in r.den and r.den[()] == 1:
        return n
    return f"({n})/({_polystr(r.den)})"
