"""C03 - CAPA / MVCAPA anomalies maximise the total penalised saving."""

from __future__ import annotations

import ast

from ..affine import Lin, entails, facts_of_path, from_cond, prove_ge
from ..index import FuncInfo
from ..nf import NF, Atom, Undecided, app, atoms_of, lift, nf_equal, single_atom, subst, sym
from ..values import NONE, Cond, ListV, NoneV, Num, ObjV, SliceV, StrV, TupleV, valkey
from .common import (
    ABSTRACT_SUMMARIES,
    both_polarities,
    K,
    N,
    Pdim,
    _abs_fit,
    abstract_scorer,
    call_method,
    data_sym,
    frame_sym,
    new_executor,
    norm_src,
    returns,
    run,
    run_spec,
    symbolic_hyperparams,
)
from .dp import arr_of, chain_cover, delay_line, interval_of_index, loop_events, loop_time, main_loop, roleify

EXPLANATION = (
    "Optimality is the theorem of Fisch et al. (2022) for sub-additive savings; the static check decides its premises on the driver "
    "reached from CAPA._predict and MVCAPA._predict (the same one - sibling agreement), for every input and every saving "
    "(uninterpreted evaluate): (a) DP-COVER - a value is stored for every prefix t+1, t in [0,n), as the maximum of {no anomaly, "
    "best collective, point}; the point option is evaluated for all t, the collective one for t >= m-1; (b) PEN-SAVING - every branch "
    "of the penalising helper equals the definition max_k sum_{j<=k}(s_(j) - beta_j) - alpha or, under its guard, an accepted "
    "shortcut (alpha charged once: sum_j(x_j - alpha) normalises to sum_j x_j - p*alpha and is rejected); (c) BELLMAN - candidate "
    "vectors F[S] + pen(S(S, t+1)) with newest start t+1-m and F[t] + pen(S(t, t+1)) with the point saving/penalties; (d) IDX-GATHER - "
    "the recorded start is S[argmax]; (e) PRUNE-FORM - saving-based mask cand + alpha + sum(betas) < F[t+1] and max-length mask "
    "s < t+2-max; (f) PRUNE-DIST - saving-based pruning takes effect >= m steps later (delay line); (g) IVL-WF - backtracking "
    "emits (start, i+1) with length >= 2 and point anomalies (i, i+1), resuming at start-1; (h) IGNORE-POINT and (i) argument-role "
    "binding in both _predict methods. NOT decided: optimality itself, monotonicity of the score, equality of the final score with "
    "the re-evaluated anomalies (consequences by the paper induction)."
)
# obligations added during the build phase (seeding rounds, twins, mutation analysis)
ADDED_IN_BUILD = ' Also: the backtracker is decided for three spellings (while loop that jumps to start-1; guarded append plus reversal; descending for loop with a watermark that starts at >= n, skips positions at or above it and is lowered to the start of a collective anomaly only), with exactness (a point anomaly only when starts[i] == i) and completeness (the silent branch is unsatisfiable for 0 <= starts[i] <= i); every backtracked anomaly of MVCAPA gets its (start, end, components) record (C16.a re-run); C10.c NO-STALE-READ of CAPA / MVCAPA re-run. Summarised driver calls bind the defaults of parameters the call leaves out (a limit silently left to a default is a BINDING violation).'
ADDED_IN_ROUND_9 = " Round 9: PRUNE-FORM positional-drop - candidates dropped by their position in the array (starts[1:]) under a test of the NUMBER of candidates is a violation (after saving-based pruning the candidate starts are not consecutive); a positional drop under a test of the oldest candidate's value is not read (UNDECIDED)."
EXPLANATION = EXPLANATION + ADDED_IN_BUILD + ADDED_IN_ROUND_9

ASSUMPTIONS = [
    "Python's ast module and evaluation-order/argument-binding semantics as implemented in skverif/symex.py",
    "library model table skverif/models.py (argsort, cumsum, argmax, boolean masks, np.isin)",
    "specification /verif/spec/dp.py transcribes the CAPA recursion, its pruning rule and the penalised saving",
    "the paper proof (Fisch, Eckley, Fearnhead 2022) connecting these premises to optimality; savings sub-additive and non-negative",
]
MV = "skchange.anomaly_detectors.mvcapa"
SAV = "skchange.anomaly_scores.base.BaseSaving"


def check(ctx):
    from .c10 import shared_no_stale

    shared_no_stale(ctx, "C03.i BINDING", [("skchange.anomaly_detectors", "CAPA"), ("skchange.anomaly_detectors", "MVCAPA")])
    drv = discover_driver(ctx)
    if drv is None:
        return
    pen = discover_penaliser(ctx, drv)
    if pen is not None:
        ctx.guard("C03.b PEN-SAVING", pen.qualname, lambda: check_penalise(ctx, pen), pen.loc())
    ctx.guard("C03 DRIVER", drv.qualname, lambda: check_driver(ctx, drv, pen), drv.loc())
    ctx.guard("C03.h IGNORE-POINT", "predict", lambda: check_predicts(ctx, drv), drv.loc())
    ctx.guard("C03.h IGNORE-POINT", "mvcapa-records", lambda: shared_records(ctx))
    ctx.expect_min("C03", len([o for o in ctx.obs if o.status == "HOLDS"]), 25)


def shared_records(ctx):
    """What MVCAPA reports is the backtracked optimum only if EVERY backtracked collective (and point) anomaly gets its
    (start, end, components) record: a record skipped on some branch of the component search drops an anomaly that the
    cumulative scores still count.  The record obligations of C16.a SUBSET-NF, re-run under the C03 id."""
    from . import c16

    before = len(ctx.obs)
    mins = dict(ctx.mins)
    try:
        c16.check(ctx)
    except Undecided as u:
        ctx.undecided("C03.h IGNORE-POINT", "mvcapa-records", "", str(u))
    ctx.mins = mins
    kept = []
    for o in ctx.obs[before:]:
        if o.status == "UNDECIDED" and o.key == "instance-count":
            continue
        if ("SUBSET-NF" in o.rule and "record" in o.key) or o.status == "UNDECIDED":
            o.rule = f"C03.h IGNORE-POINT ({o.rule})"
            kept.append(o)
    ctx.obs[before:] = kept


def _calls(ctx, f: FuncInfo):
    out = []
    for n in ast.walk(f.node):
        if isinstance(n, ast.Call) and isinstance(n.func, (ast.Name, ast.Attribute)):
            r = ctx.P.resolve_expr(f.module, n.func)
            if isinstance(r, FuncInfo):
                out.append((n, r))
    return out


def _reach(ctx, f: FuncInfo, depth=4, seen=None):
    seen = seen if seen is not None else {}
    if f.qualname in seen or depth < 0:
        return seen
    seen[f.qualname] = f
    for _, r in _calls(ctx, f):
        if r.cls is None:
            _reach(ctx, r, depth - 1, seen)
    return seen


def _has_dp_loop(f: FuncInfo):
    """a loop with a loop-carried array extended by concatenation and filtered by a mask"""
    for n in ast.walk(f.node):
        if isinstance(n, (ast.For, ast.While)):
            src = ast.unparse(n)
            if ("concatenate" in src or "np.append" in src or "hstack" in src or "np.r_" in src) and "[" in src and "evaluate" in src:
                return True
    return False


def discover_driver(ctx):
    found = {}
    for name in ("CAPA", "MVCAPA"):
        cls = ctx.P.public_class("skchange.anomaly_detectors", name)
        pred = ctx.P.lookup_method(cls, "_predict")
        reach = _reach(ctx, pred)
        dps = [f for f in reach.values() if f.cls is None and _has_dp_loop(f)]
        if len(dps) != 1:
            ctx.undecided("C03 DRIVER", name, pred.loc(), f"expected one dynamic-programming driver reachable from {name}._predict, found {[f.name for f in dps]}")
            return None
        found[name] = dps[0]
    same = found["CAPA"].qualname == found["MVCAPA"].qualname
    ctx.check(same, "C03 SIBLING", "CAPA/MVCAPA", found["CAPA"].loc(), "CAPA and MVCAPA run the same dynamic-programming driver", found={k: v.qualname for k, v in found.items()})
    return found["CAPA"]


def discover_penaliser(ctx, drv):
    """the helper (reachable from the driver) that takes (savings, alpha, betas)"""
    reach = _reach(ctx, drv)
    c = [f for f in reach.values() if is_penaliser(f)]
    if len(c) > 1:
        # a penaliser may delegate part of its work to a private helper of the same signature: the penaliser is the one
        # that is not called by another candidate
        inner = set()
        for f in c:
            for g in _reach(ctx, f).values():
                if g is not f and g in c:
                    inner.add(g.qualname)
        c = [f for f in c if f.qualname not in inner]
    if len(c) != 1:
        ctx.undecided("C03.b PEN-SAVING", "helper", drv.loc(), f"expected one penalising helper (savings, alpha, betas), found {[f.name for f in c]}")
        return None
    return c[0]


# ----------------------------------------------------------------- PEN-SAVING


def check_penalise(ctx, pen: FuncInfo):
    rule = "C03.b PEN-SAVING"
    ex = new_executor(ctx)
    alpha, betas_s, sav_s = sym("alpha"), sym("betas"), sym("savings")

    def mk(ex):
        s = Num(sav_s, (K, Pdim), "float", meta={"foreign": True})
        ex.atom_shapes[Atom("sym", "savings").key] = (K, Pdim)
        b = Num(betas_s, (Pdim,), "float", meta={"foreign": True})
        ex.atom_shapes[Atom("sym", "betas").key] = (Pdim,)
        return [s, Num(alpha, (), "float"), b]

    def by_name(ex):
        # bound by the roles the parameter names state, whatever their order
        s_, a_, b_ = mk(ex)
        return {q: (a_ if "alpha" in q else (b_ if "beta" in q else s_)) for q in pen.params}

    paths = run(ctx, ex, lambda ex: ex.call_function(pen, [], by_name(ex), None, None))
    b0 = app("idx", betas_s, (("at", NF.const(0)),))
    dense, _ = run_spec(ctx, "dp", "penalised_saving_dense", lambda sx: mk(sx)[:2])
    const, _ = run_spec(ctx, "dp", "penalised_saving_const", lambda sx: mk(sx)[:2] + [Num(b0, (), "float")])
    n_ret = 0
    for p in paths:
        if p.outcome != "return":
            ctx.violation(rule, "raises", p.exc.func.loc(p.exc.node) if p.exc.func else pen.loc(), "the penalising helper raises", found=p.exc.exc_name)
            continue
        n_ret += 1
        cls_ = _guard_class(p, betas_s, b0)
        v = p.value
        accepted = []
        code = None
        if isinstance(v, Num) and v.arr is not None and v.arr.stores:
            # general branch: row-wise buffer
            a = v.arr
            if len(a.stores) != 1 or not a.stores[0].loops:
                ctx.undecided(rule, f"branch:{cls_}", pen.loc(), "row-wise buffer with an unrecognised store pattern")
                continue
            st = a.stores[0]
            lp = st.loops[-1]
            lv = NF.atom(Atom("lv", lp.lid))
            rng = lp.info.get("range")
            idx = st.data["index"]
            rows_ok = rng is not None and rng[0].as_const() == 0 and nf_equal(rng[1], lift(K)) and len(idx) == 1 and isinstance(idx[0], Num) and nf_equal(idx[0].nf, lv)
            ctx.check(rows_ok, rule, "general|rows", st.loc(), "one penalised saving per candidate row, stored at that row", found=f"index {valkey(idx[0]) if idx else None} over {rng}")
            row = app("idx", sav_s, (("at", lv),))
            want, _ = run_spec(ctx, "dp", "penalised_saving_row", lambda sx: [Num(row, (Pdim,), "float"), Num(alpha, (), "float"), Num(betas_s, (Pdim,), "float")])
            val = st.data["value"]
            ok = isinstance(val, Num) and nf_equal(val.nf, want.nf)
            ctx.check(ok, rule, f"branch:{cls_}|general-form", st.loc(), "row value == max_k sum_{j<=k}(s_(j) - beta_j) - alpha (savings sorted decreasingly, alpha once)", found=repr(val), expected=repr(want.nf))
            continue
        if not isinstance(v, Num) or v.nf is None:
            ctx.violation(rule, f"branch:{cls_}", pen.loc(), "the helper does not return an array", found=repr(v))
            continue
        code = ex.cur_nf(v)
        forms = {"zero": [("sum_j s_j - alpha", dense.nf), ("sum_j max(s_j - beta, 0) - alpha", const.nf)], "const": [("sum_j max(s_j - beta, 0) - alpha", const.nf)], "general": []}[cls_]
        hit = [nm for nm, f in forms if nf_equal(code, f)]
        ctx.check(bool(hit), rule, f"branch:{cls_}|shortcut", _ret_loc(p, pen), f"under the guard '{cls_} per-component penalties' the shortcut equals an accepted form of the definition", found=repr(code), expected=" | ".join(f"{nm}: {f!r}" for nm, f in forms) or "the general form (row-wise)")
    ctx.check(n_ret >= 1, rule, "paths", pen.loc(), "the helper has returning paths")


def _ret_loc(p, f):
    for e in reversed(p.events):
        if e.kind == "return" and e.func is not None and e.func.qualname == f.qualname:
            return e.loc()
    return f.loc()


def _guard_class(p, betas_s, b0):
    """which assumption about betas holds on this path: 'zero', 'const' or 'general'"""
    from .common import both_polarities

    cls_ = "general"
    for c, v in both_polarities(p.facts):
        if not v or c.t[0] != "all":
            continue
        inner = c.t[1]
        if inner.t[0] != "cmp":
            continue
        op, d = inner.t[1], inner.t[2]
        if op in ("<0", "<=0"):
            # betas - eps < 0 with a tiny positive eps
            eps = (betas_s - d).as_const()
            if eps is not None and 0 < eps <= 1e-6:
                return "zero"
        if op == "==0" and (nf_equal(d, betas_s - b0) or nf_equal(d, b0 - betas_s)):
            cls_ = "const"
    return cls_


# --------------------------------------------------------------------- driver


def is_penaliser(f):
    """the penalising helper: a module-level function of three parameters - the savings, one whose name says alpha, one
    whose name says beta - in whatever order"""
    return f.cls is None and len(f.params) == 3 and sum("alpha" in q for q in f.params) == 1 and sum("beta" in q for q in f.params) == 1


def _pen_summary(ex, func, args, kwargs, so, node):
    bound = {}
    for k_, v_ in zip(func.params, args):
        bound[k_] = v_
    bound.update(kwargs)
    a = next((v_ for k_, v_ in bound.items() if "alpha" in k_), None)
    b = next((v_ for k_, v_ in bound.items() if "beta" in k_), None)
    s = next((v_ for k_, v_ in bound.items() if "alpha" not in k_ and "beta" not in k_), None)
    if a is None or b is None or s is None:
        raise Undecided("arguments of the penalising helper cannot be matched with (savings, alpha, betas)", node)
    shape = (s.shape[0],) if isinstance(s, Num) and s.shape else None
    r = ex.mk("pen", ex.as_nf(s, node), ex.as_nf(a, node), ex.as_nf(b, node), shape=shape, dtype="float")
    ex.emit("pen_call", node, savings=s, alpha=a, betas=b, result=r)
    return r


def discover_backtracker(ctx, drv):
    c = []
    for n, r in _calls(ctx, drv):
        if r.cls is None and len(r.params) == 1 and any(isinstance(x, (ast.While, ast.For)) for x in ast.walk(r.node)):
            c.append(r)
    return c[0] if len(c) == 1 else None


def _bt_summary(ex, func, args, kwargs, so, node):
    ex.emit("backtrack_call", node, arg=args[0])
    ex.list_counter += 2
    a = ListV([], opaque=True, lid=ex.list_counter - 1)
    b = ListV([], opaque=True, lid=ex.list_counter)
    a.role, b.role = "collective", "point"
    return TupleV([a, b])


def driver_args(ex, ctx, drv):
    X = data_sym(ex)
    out = {}
    st = {"X": X}
    for p in drv.params:
        lp = p.lower()
        kind = "collective" if "collective" in lp else ("point" if "point" in lp else None)
        if "saving" in lp and kind:
            o = abstract_scorer(ex, ctx.P, SAV, f"{kind}_saving")
            _abs_fit(ex, o, [X], {}, None)
            out[p] = o
        elif "alpha" in lp and kind:
            out[p] = Num(sym(f"{kind}_alpha"), (), "float")
        elif "beta" in lp and kind:
            out[p] = Num(sym(f"{kind}_betas"), (Pdim,), "float", meta={"foreign": True})
            ex.atom_shapes[Atom("sym", f"{kind}_betas").key] = (Pdim,)
        elif "min_segment_length" in lp:
            out[p] = Num(sym("m"), (), "int")
        elif "max_segment_length" in lp:
            out[p] = Num(sym("M"), (), "int")
        else:
            raise Undecided(f"driver parameter {p} has no recognised role")
        st[p] = out[p]
    return out, st


def filter_chain(nf):
    """idx(idx(B, mask k1), mask k2) -> (B, [k1, k2])"""
    masks = []
    cur = nf
    while True:
        a = single_atom(cur)
        if a is not None and a.kind == "app" and a.args[0] == "idx" and len(a.args[2]) == 1 and a.args[2][0][0] == "mask":
            masks.append((a.args[2][0][1], a.args[1]))
            cur = a.args[1]
            continue
        break
    masks.reverse()
    return cur, masks


def check_driver(ctx, drv, pen):
    bt = discover_backtracker(ctx, drv)
    summ = dict(ABSTRACT_SUMMARIES)
    if pen is not None:
        summ[pen.qualname] = _pen_summary
    if bt is not None:
        summ[bt.qualname] = _bt_summary
        ctx.guard("C03.g IVL-WF", bt.qualname, lambda: check_backtracker(ctx, bt), bt.loc())
    else:
        ctx.undecided("C03.g IVL-WF", "backtracker", drv.loc(), "no backtracking helper (one parameter, while loop) is called by the driver")
    ex = new_executor(ctx, summ, max_paths=200)
    st = {}

    def thunk(ex):
        args, s = driver_args(ex, ctx, drv)
        st.update(s)
        return ex.call_function(drv, [], dict(args), None, None)

    paths = run(ctx, ex, thunk)
    rets = returns(paths)
    for p in paths:
        if p.outcome == "raise":
            ctx.violation("C03 DRIVER", "raises", p.exc.func.loc(p.exc.node) if p.exc.func else drv.loc(), "the driver raises on a path with valid symbolic arguments", found=p.exc.exc_name)
    if not rets:
        return
    m, M = sym("m"), sym("M")
    t = sym("t")
    seen = set()
    n_possible = n_not = 0
    for p in rets:
        loops = main_loop(p, drv.qualname)
        if len(loops) != 1:
            ctx.undecided("C03 DRIVER", drv.qualname, drv.loc(), f"expected one main loop, found {len(loops)}")
            return
        loop = loops[0]
        rv = p.value
        if not isinstance(rv, TupleV) or len(rv.items) != 3:
            ctx.undecided("C03 DRIVER", drv.qualname, drv.loc(), "the driver does not return (scores, collective, point)")
            return
        F = arr_of(rv.items[0])
        if F is None:
            ctx.undecided("C03 DRIVER", drv.qualname, drv.loc(), "the returned scores are not a view of an allocated table")
            return
        if "published" not in seen:
            seen.add("published")
            out0 = rv.items[0]
            oi = out0.meta.get("index") if isinstance(out0, Num) else None
            ok_out = False
            found = "the whole table" if isinstance(out0, Num) and out0.arr is F and not oi else "?"
            if oi is not None and len(oi) == 1 and isinstance(oi[0], SliceV):
                sl = oi[0]
                lo_c = sl.lo.nf.as_const() if isinstance(sl.lo, Num) else None
                ok_out = lo_c == 1 and isinstance(sl.hi, NoneV) and isinstance(sl.step, NoneV)
                found = f"F[{'' if isinstance(sl.lo, NoneV) else valkey(sl.lo)}:{'' if isinstance(sl.hi, NoneV) else valkey(sl.hi)}]"
            ctx.check(ok_out, "C03.a DP-COVER", "table|published", drv.loc(), "the returned scores are F[1:], the optimal penalised saving of every non-empty prefix", found=found, expected="F[1:]")
        tcode, rng = loop_time(loop)
        lv = Atom("lv", loop.lid)
        # which branch is this path on?
        want_possible = Cond.cmp(">=", tcode, m - 1)
        possible = None
        for c, v in p.facts:
            if c.key == want_possible.key:
                possible = v
            elif c.key == want_possible.neg().key:
                possible = not v
        if possible is None:
            # maybe a different guard: look for any decision on t vs m
            cand = [(c, v) for c, v in p.facts if c.t[0] == "cmp" and any(a.key == lv.key for a in atoms_of(c.t[2]).values()) and any(a.kind == "sym" and a.args[0] == "m" for a in atoms_of(c.t[2]).values())]
            if cand:
                c, v = cand[0]
                ctx.violation("C03.a DP-COVER", "collective-guard", drv.loc(loop.node), "the collective option is not evaluated exactly for t >= m-1", found=f"{c!r} is {v}", expected=repr(want_possible))
                possible = bool(loop_events(p, loop, "scorer_evaluate") and len(loop_events(p, loop, "scorer_evaluate")) > 1)
            else:
                possible = len(loop_events(p, loop, "scorer_evaluate")) > 1
                if "noguard" not in seen:
                    seen.add("noguard")
                    # no guard at all: then the loop range must start at m-1 and miss the early point options
        sig = ("P" if possible else "N")
        first = sig not in seen
        seen.add(sig)
        if possible:
            n_possible += 1
        else:
            n_not += 1
        one_path(ctx, ex, p, drv, loop, F, rv, st, possible, first, tcode, rng, m, M, t)
    ctx.check(n_possible > 0, "C03.a DP-COVER", "collective-branch", drv.loc(), "there is a path on which collective anomalies are evaluated")
    # anti-vacuity of IDX-GATHER: every outcome of the three-way maximum has a path that records (or not) its start
    got = {o.key for o in ctx.obs if o.rule == "C03.d IDX-GATHER" and o.key.startswith("start-record|option")}
    for k, what in (("start-record|option1", "the collective option wins (argmax == 1)"), ("start-record|option2", "the point option wins (argmax == 2)"), ("start-record|option0", "no anomaly wins")):
        if k not in got:
            ctx.violation("C03.d IDX-GATHER", k + "|reachable", drv.loc(), f"no path on which {what} is distinguished: the optimal start of that outcome is never recorded (or recorded under another outcome's test)", expected="one branch per outcome of the maximum over (no anomaly, collective, point)")


def one_path(ctx, ex, p, drv, loop, F, rv, st, possible, first, tcode, rng, m, M, t):
    lv = Atom("lv", loop.lid)
    tag = "t>=m-1" if possible else "t<m-1"
    rolemap = {lv.key: t - (tcode - NF.atom(lv))}
    evals = loop_events(p, loop, "scorer_evaluate")
    cev = [e for e in evals if e.data["obj"].key == "collective_saving"]
    pev = [e for e in evals if e.data["obj"].key == "point_saving"]
    Scur = None
    Satom = None
    if cev:
        ca = single_atom(cev[0].data["cuts"].nf)
        if ca is not None and ca.args[0] == "colstack" and len(ca.args[1]) == 2:
            Scur = ca.args[1][0]
            lcs = [a for a in atoms_of(Scur).values() if a.kind == "lc"]
            if len(lcs) == 1:
                Satom = lcs[0]
                rolemap[Satom.key] = sym("S")
    R = lambda x: roleify(ex, x, {F.aid: "F"}, rolemap)  # noqa: E731
    if first:
        # ------------------------------------------------------------ COVER
        rule = "C03.a DP-COVER"
        n1 = lift(N) + 1
        ok_alloc = F.init[0] == "zeros" and F.shape is not None and len(F.shape) == 1 and nf_equal(lift(F.shape[0]), n1)
        ctx.check(ok_alloc, rule, f"table|alloc|{tag}", drv.loc(F.node), "the table is zeros(n+1): F[0] == 0 and one slot per prefix", found=f"{F.init[0]} shape {F.shape}")
        ivs = []
        bad = False
        for s in F.stores:
            iv = interval_of_index(s.data["index"], loop if loop in s.loops else None)
            if iv is None or s.data.get("aug"):
                ctx.undecided(rule, "table|store", s.loc(), "store into the table outside the affine fragment", found=norm_src(s.node))
                bad = True
                break
            ivs.append(iv)
        if not bad:
            ok, msg = chain_cover(ivs, NF.const(1), n1)
            ctx.check(ok, rule, f"table|partition|{tag}", drv.loc(loop.node), "a value is stored for every prefix t+1, t in [0, n): every sample gets the no-anomaly/collective/point decision", found=msg, expected="{t+1 : t in [0, n)}")
    fst = [s for s in F.stores if loop in s.loops and s in p.events]
    if len(fst) != 1:
        ctx.undecided("C03.c BELLMAN", f"table-store|{tag}", drv.loc(), f"{len(fst)} table stores per iteration")
        return
    fs = fst[0]
    val = fs.data["value"]
    va = single_atom(val.nf) if isinstance(val, Num) else None
    # value = vec(options)[argmax(vec(options))]
    okmax = False
    opts = None
    if va is not None and va.kind == "app" and va.args[0] == "idx" and va.args[2][0][0] == "at":
        vec = single_atom(va.args[1])
        pos = single_atom(va.args[2][0][1])
        if vec is not None and vec.kind == "app" and vec.args[0] == "vec" and pos is not None and pos.kind == "app" and pos.args[0] == "argmax" and nf_equal(pos.args[1], va.args[1]):
            okmax = True
            opts = list(vec.args[1])
    if first or not okmax:
        ctx.check(okmax, "C03.c BELLMAN", f"maximum|{tag}", fs.loc(), "F[t+1] is the maximum (vector at its own argmax) of the options", found=repr(R(val.nf)) if isinstance(val, Num) else repr(val))
    if not okmax:
        return
    idx = fs.data["index"]
    if first:
        ctx.check(len(idx) == 1 and isinstance(idx[0], Num) and nf_equal(R(idx[0].nf), t + 1), "C03.c BELLMAN", f"index|{tag}", fs.loc(), "stored at table index t+1", found=repr(R(idx[0].nf)))
        ctx.check(len(opts) == 3, "C03.c BELLMAN", f"options|{tag}", fs.loc(), "three options: no anomaly, collective anomaly, point anomaly", found=f"{len(opts)} options")
    if len(opts) != 3:
        return
    o_none, o_coll, o_point = opts

    def sargs_common(sx):
        Fv = Num(sym("F"), (lift(N) + 1,), "float")
        sx.atom_shapes[Atom("sym", "F").key] = (lift(N) + 1,)
        return Fv

    def saving_obj(sx, key):
        o = abstract_scorer(sx, ctx.P, SAV, key)
        _abs_fit(sx, o, [data_sym(sx)], {}, None)
        return o

    def pen_closure(sx):
        from ..values import ClosureV

        return None

    if first:
        want_none = app("idx", sym("F"), (("at", t),))
        ctx.check(nf_equal(R(o_none), want_none), "C03.c BELLMAN", f"option-none|{tag}", fs.loc(), "option 0 (no anomaly at t) is F[t]", found=repr(R(o_none)), expected=repr(want_none))
        # point option
        pa_, pb_ = sym("point_alpha"), sym("point_betas")

        def sargs_p(sx):
            Fv = sargs_common(sx)
            pbv = Num(pb_, (Pdim,), "float")
            sx.atom_shapes[Atom("sym", "point_betas").key] = (Pdim,)
            return [Fv, Num(t, (), "int"), saving_obj(sx, "point_saving"), Num(pa_, (), "float"), pbv]

        wantp, _ = run_spec(ctx, "dp", "capa_point_candidate", sargs_p, dict(ABSTRACT_SUMMARIES, **{"spec.dp.penalise": _pen_summary}))
        pa = single_atom(o_point)
        okp = pa is not None and pa.kind == "app" and pa.args[0] == "idx" and nf_equal(R(pa.args[1]), wantp.nf)
        ctx.check(okp, "C03.c BELLMAN", f"option-point|{tag}", pev[0].loc() if pev else fs.loc(), "option 2 is F[t] + penalised POINT saving of [t, t+1) with the POINT penalties", found=repr(R(o_point)), expected=f"element of {wantp.nf!r}")
    if not possible:
        if first:
            neg_inf = -sym("inf")
            ctx.check(nf_equal(o_coll, neg_inf) and not cev, "C03.c BELLMAN", f"option-collective|{tag}", fs.loc(), "before m samples are available the collective option is -inf (never selected) and no collective saving is evaluated", found=repr(R(o_coll)))
            # the candidate set must not change on this path
            post = _post(p, loop)
        return
    # ---------------------------------------------------------------- collective
    if Scur is None or Satom is None:
        ctx.undecided("C03.c BELLMAN", "collective|cuts", cev[0].loc() if cev else drv.loc(), "collective saving is not evaluated on (carried starts + newest, t+1) pairs")
        return
    ca_, cb_ = sym("collective_alpha"), sym("collective_betas")
    oc = single_atom(o_coll)
    if oc is None or oc.kind != "app" or oc.args[0] != "idx" or oc.args[2][0][0] != "at":
        ctx.violation("C03.c BELLMAN", "option-collective", fs.loc(), "option 1 is not an element of the collective candidate vector", found=repr(R(o_coll)))
        return
    cand = oc.args[1]
    cpos = oc.args[2][0][1]
    if first:

        def sargs_c(sx):
            Fv = sargs_common(sx)
            Sv = Num(sym("S"), (sym("len(S)"),), "int")
            sx.atom_shapes[Atom("sym", "S").key] = (sym("len(S)"),)
            cbv = Num(cb_, (Pdim,), "float")
            sx.atom_shapes[Atom("sym", "collective_betas").key] = (Pdim,)
            return [Fv, Sv, Num(t, (), "int"), saving_obj(sx, "collective_saving"), Num(ca_, (), "float"), cbv, Num(m, (), "int")]

        wantc, _ = run_spec(ctx, "dp", "capa_collective_candidates", sargs_c, dict(ABSTRACT_SUMMARIES, **{"spec.dp.penalise": _pen_summary}))
        ctx.check(nf_equal(R(cand), wantc.nf), "C03.c BELLMAN", "candidates-collective", cev[0].loc(), "collective candidates == F[S] + pen(S(S, t+1), alpha, betas) with S = carried starts + [t+1-m] and the COLLECTIVE saving/penalties", found=repr(R(cand)), expected=repr(wantc.nf))
        cp = single_atom(cpos)
        ctx.check(cp is not None and cp.kind == "app" and cp.args[0] == "argmax" and nf_equal(cp.args[1], cand), "C03.c BELLMAN", "best-collective", fs.loc(), "option 1 is the collective candidate vector at its own argmax", found=repr(R(cpos)))
        pv = ex.atom_meta.get(Satom.key, {}).get("pre")
        ok0 = isinstance(pv, Num) and pv.shape is not None and len(pv.shape) == 1 and lift(pv.shape[0]).as_const() == 0
        ctx.check(ok0, "C03.c BELLMAN", "initial-starts", drv.loc(loop.node), "the candidate set starts empty", found=repr(pv))
    # ---------------------------------------------------------------- IDX-GATHER
    amax = single_atom(va.args[2][0][1])
    which = None
    for c, v in p.facts:
        if c.t[0] == "cmp" and c.t[1] == "==0":
            for k in (1, 2):
                if nf_equal(c.t[2], NF.atom(amax) - k) or nf_equal(c.t[2], k - NF.atom(amax)):
                    if v:
                        which = k
    bst = [s for s in loop_events(p, loop, "store") if s.data["arr"] is not F and not getattr(s.data["arr"], "materialised", False) and s.data["arr"].init[0] in ("fill", "zeros")]
    key = f"start-record|option{which}"
    if which == 1:
        want_bp = app("idx", Scur, (("at", cpos),))
        ok = len(bst) == 1 and isinstance(bst[0].data["value"], Num) and nf_equal(bst[0].data["value"].nf, want_bp) and nf_equal(R(bst[0].data["index"][0].nf), t)
        ctx.check(ok, "C03.d IDX-GATHER", key, bst[0].loc() if bst else fs.loc(), "when the collective option wins, the recorded start is S[argmax] (a gather on the evaluated, possibly pruned, start set), stored at position t", found=repr(R(bst[0].data["value"].nf)) if bst else "no store", expected=repr(R(want_bp)))
    elif which == 2:
        ok = len(bst) == 1 and isinstance(bst[0].data["value"], Num) and nf_equal(R(bst[0].data["value"].nf), t) and nf_equal(R(bst[0].data["index"][0].nf), t)
        ctx.check(ok, "C03.d IDX-GATHER", key, bst[0].loc() if bst else fs.loc(), "when the point option wins, the recorded start is t itself", found=repr(R(bst[0].data["value"].nf)) if bst else "no store", expected="t")
    elif which is None:
        ok = len(bst) == 0
        ctx.check(ok, "C03.d IDX-GATHER", "start-record|option0", fs.loc(), "when no anomaly wins nothing is recorded", found=f"{len(bst)} stores", nontrivial=False)
    # ---------------------------------------------------------------- PRUNE
    check_prune(ctx, ex, p, drv, loop, F, R, Scur, cand, val.nf, m, M, t, tcode, first)


def _post(p, loop):
    for e in p.events:
        if e.kind == "loop_exit" and e.data["loop"] is loop:
            return e.data["post"]
    return {}


def check_prune(ctx, ex, p, drv, loop, F, R, Scur, cand, Fnew, m, M, t, tcode, first):
    ca_, cb_ = sym("collective_alpha"), sym("collective_betas")
    post = _post(p, loop)
    # the loop-carried variable of the candidate set
    sname = None
    for n in loop.info.get("carried", []):
        if Atom("lc", f"{loop.lid}.{n}.in").key in {a.key for a in atoms_of(Scur).values()}:
            sname = n
    if sname is None:
        ctx.undecided("C03.f PRUNE-DIST", "candidate-update", drv.loc(), "cannot identify the loop-carried candidate variable")
        return
    newS = post.get(sname)
    if not isinstance(newS, Num) or newS.nf is None:
        ctx.undecided("C03.f PRUNE-DIST", "candidate-update", drv.loc(), "candidate set is not an array after the iteration")
        return
    base, chain = filter_chain(newS.nf)
    if not nf_equal(base, Scur):
        # a candidate dropped by its POSITION (`starts = starts[1:]`) under a test of the NUMBER of candidates: the
        # candidates are not consecutive integers once saving-based pruning has removed interior starts, so "more than
        # max - min candidates" does not mean "the oldest one is too long" (and fewer does not mean it is not)
        top = single_atom(newS.nf)
        if top is not None and top.kind == "app" and top.args[0] == "idx" and len(top.args[2]) == 1 and top.args[2][0][0] == "slice":
            lo_ = lift(top.args[2][0][1]).as_const() if top.args[2][0][1] is not None else None
            # the decisions of this iteration that look at the candidates: at their NUMBER (len / count / size of the
            # carried array or of a filtered version of it) or at their VALUES (an element, the minimum / maximum)
            tag = f".{sname}.in"
            by_count = by_value = False
            for c_, _v in p.facts:
                t_ = getattr(c_, "t", None)
                if not t_ or t_[0] != "cmp":
                    continue
                for a_ in atoms_of(t_[2], deep=False).values():
                    if a_.kind != "app" or tag not in repr(a_):
                        continue
                    if a_.args[0] in ("len", "count", "size"):
                        by_count = True
                    elif a_.args[0] in ("idx", "minall", "maxall", "min", "max"):
                        by_value = True
            if lo_ is not None and lo_ >= 1 and by_count and not by_value:
                ctx.violation("C03.e PRUNE-FORM", "positional-drop", drv.loc(), "the oldest candidates are dropped by position under a test of how many candidates there are: after saving-based pruning the candidate starts are not consecutive, so the count says nothing about the length t + 1 - starts[0] of the longest candidate segment (too-long segments stay admissible / admissible ones are lost)", found=repr(R(newS.nf))[:160], expected="starts[~(starts < t + 2 - max_segment_length)] (a test of the VALUES)")
                return
        ctx.undecided("C03.f PRUNE-DIST", "candidate-update", drv.loc(), "the next candidate set is not a filtered version of the evaluated one", found=repr(R(newS.nf)))
        return
    want_prune, _ = run_spec(ctx, "dp", "capa_prune", lambda sx: [Num(cand, None, "float"), Num(Fnew, (), "float"), Num(ca_, (), "float"), _betas(sx)])
    wp = want_prune.cond
    # optimality masks that exist in this iteration (selection predicates over Scur)
    from .c02 import _find_masks

    sel = _find_masks(ex, p, loop, Scur)
    opt_masks = []
    for ev, cond, _ in sel:
        if any(a.kind == "arr" or (a.kind == "app" and a.args[0] in ("pen", "eval")) for a in atoms_of(cond.t[2] if cond.t[0] == "cmp" else NF.const(0)).values()):
            opt_masks.append((ev, cond))
    for ev, cond in opt_masks:
        ok = cond.t[0] == "cmp" and cond.t[1] in ("<0", "<=0") and nf_equal(cond.t[2], wp.t[2])
        if first or not ok:
            ctx.check(ok, "C03.e PRUNE-FORM", "saving-mask", ev.loc(), "a start is pruned iff F[s] + pen_saving(s,t+1) + alpha + sum(betas) < F[t+1]", found=f"{R(cond.t[2])!r} {cond.t[1]}" if cond.t[0] == "cmp" else repr(cond), expected=f"{R(wp.t[2])!r} <0")
    lists = {id(e.data["lst"]): e.data["lst"] for e in loop_events(p, loop, "list_append")}
    seen_delay = False
    for mk, inner in chain:
        # (1) this iteration's optimality mask applied at once
        imm = [1 for ev, cond in opt_masks if cond.key in mk or cond.neg().key in mk]
        if imm:
            d = (m - 1).as_const()
            ctx.check(d is not None and d <= 0, "C03.f PRUNE-DIST", "immediate", opt_masks[0][0].loc(), "a start pruned against F[t+1] is removed before the next end although an anomaly starting at t+1 is admissible only m steps later", found="candidates filtered by the saving mask in the iteration that computed it (distance 1)", expected="distance >= m (delay line)")
            continue
        # (2) delay line
        if "isin" in mk:
            done = False
            for lst in lists.values():
                dl = delay_line(p, loop, lst)
                if isinstance(dl, str):
                    continue
                if f"pop(list#{lst.lid})" not in mk:
                    continue
                av = dl["append"].data["value"]
                aa = single_atom(av.nf) if isinstance(av, Num) and av.nf is not None else None
                ok_app = aa is not None and aa.kind == "app" and aa.args[0] == "idx" and nf_equal(aa.args[1], Scur) and aa.args[2][0][0] == "mask" and any(c.key in aa.args[2][0][1] for _, c in opt_masks)
                ctx.check(ok_app, "C03.f PRUNE-DIST", "delay-line|content", dl["append"].loc(), "each iteration appends exactly the starts its saving mask pruned", found=repr(R(av.nf)) if isinstance(av, Num) else repr(av))
                j_ = mk.find("isin(")
                fa_ = mk[j_ + 5:] if j_ != -1 else ""
                # the mask is membership of each CANDIDATE in the popped set: np.isin(candidates, popped), inverted; the
                # candidates at this point may already have been filtered by the length mask (a filtered view of S)
                first_ok = fa_.startswith(repr(Scur)) or fa_.startswith("[" + repr(Scur)) or fa_.startswith("idx(" + repr(Scur)) or fa_.startswith("[idx(" + repr(Scur))
                ctx.check("invert" in mk and first_ok, "C03.f PRUNE-DIST", "delay-line|removal", dl["pop"].loc(), "the popped starts are removed by value (~np.isin(candidates, popped))", found=mk[:160])
                dist = dl["delay"] + 1
                gap = (dist - m).as_const()
                ctx.check(gap is not None and gap >= 0, "C03.f PRUNE-DIST", "delay", dl["pop"].loc(), "a saving-based pruning decided at step t takes effect m steps later at the earliest", found=f"delay {dl['delay']!r} => distance {dist!r}", expected=f">= {m!r}")
                done = True
                seen_delay = True
            if not done:
                ctx.undecided("C03.f PRUNE-DIST", "delay", drv.loc(), "candidates filtered by np.isin of something that is not a recognised delay line", found=mk[:160])
            continue
        # (3) admissibility: maximum segment length
        want_long = Cond.cmp("<", inner, tcode - M + 2)
        if _keeps_not_too_long(mk, want_long):
            if first:
                ctx.holds("C03.e PRUNE-FORM", "max-length-mask", drv.loc(), "starts whose next segment would exceed max_segment_length are dropped: s < (t+2) - max_segment_length", found=repr(want_long))
            continue
        ctx.violation("C03.e PRUNE-FORM", "unknown-mask", drv.loc(), "the candidate set is filtered by a mask that is neither the saving rule, a delay line nor the maximum-length rule", found=mk[:200], expected=f"{want_long!r}")
    if not any("isin" in mk for mk, _ in chain) and opt_masks:
        # path where the FIFO is still filling: fine
        pass
    has_long = any(_keeps_not_too_long(mk, Cond.cmp("<", inner, tcode - M + 2)) for mk, inner in chain)
    if first:
        ctx.check(has_long, "C03.e PRUNE-FORM", "max-length-applied", drv.loc(), "the maximum-length rule is applied in every iteration that evaluates collective candidates", found=[mk[:80] for mk, _ in chain])


def _keeps_not_too_long(mk, want_long):
    """the filter predicate keeps exactly the starts that are NOT too long"""
    return mk == want_long.neg().key


def _betas(sx):
    v = Num(sym("collective_betas"), (Pdim,), "float")
    sx.atom_shapes[Atom("sym", "collective_betas").key] = (Pdim,)
    return v


# ----------------------------------------------------------------- backtracker


def check_backtracker(ctx, bt: FuncInfo):
    rule = "C03.g IVL-WF"
    ex = new_executor(ctx)

    def thunk(ex):
        a = Num(sym("starts"), (N,), "float", "ndarray", meta={"foreign": True})
        ex.atom_shapes[Atom("sym", "starts").key] = (N,)
        return ex.call_function(bt, [a], {}, None, None)

    paths = run(ctx, ex, thunk)
    rets = returns(paths)
    if not rets:
        ctx.violation(rule, "backtracker", bt.loc(), "never returns")
        return
    seen = set()
    for p in rets:
        loops = main_loop(p, bt.qualname)
        if len(loops) != 1 or loops[0].kind not in ("while", "for"):
            ctx.undecided(rule, "backtracker", bt.loc(), "not a single loop")
            return
        lp = loops[0]
        pre = lp.info["pre"]
        ivar = [n for n, v in pre.items() if isinstance(v, Num) and v.shape == ()]
        if len(ivar) != 1:
            ctx.undecided(rule, "backtracker", bt.loc(), "cannot identify the position variable" if lp.kind == "while" else "cannot identify the watermark variable of the descending scan")
            return
        iname = ivar[0]
        pfacts = list(p.facts)
        if lp.kind == "while":
            # idiom A: `while i >= 0` with the position as the loop-carried variable; a collective anomaly jumps to its start
            iin = NF.atom(Atom("lc", f"{lp.lid}.{iname}.in"))
            if "init" not in seen:
                seen.add("init")
                ctx.check(nf_equal(pre[iname].nf, lift(N) - 1), rule, "start", bt.loc(lp.node), "backtracking starts at the last sample", found=repr(pre[iname].nf), expected="n - 1")
                cond = lp.info.get("cond")
                ctx.check(cond is not None and cond.t[0] == "cmp" and cond.t[1] == "<=0" and nf_equal(cond.t[2], -iin), rule, "condition", bt.loc(lp.node), "while i >= 0", found=repr(cond))
            body_i = lp.info["body_env"].get(iname)
            resume = lambda want: isinstance(body_i, Num) and nf_equal(_strip_int(body_i.nf), want - 1)  # noqa: E731
            shown_resume = repr(body_i)
        else:
            # idiom C: `for i in range(n - 1, -1, -1)` with a watermark w (initially n): positions i >= w are skipped, a
            # collective anomaly lowers w to its start.  The next position visited is then w - 1 = start - 1; after a
            # point anomaly or nothing w is unchanged and (i < w) the scan visits i - 1.
            iin = NF.atom(Atom("lv", lp.lid))
            win = NF.atom(Atom("lc", f"{lp.lid}.{iname}.in"))
            rng = lp.info.get("range")
            if "init" not in seen:
                seen.add("init")
                ctx.check(rng is not None and nf_equal(rng[0], lift(N) - 1), rule, "start", bt.loc(lp.node), "backtracking starts at the last sample", found=repr(rng), expected="n - 1")
                ctx.check(rng is not None and rng[1].as_const() == -1 and rng[2].as_const() == -1, rule, "condition", bt.loc(lp.node), "the scan descends one position at a time down to 0", found=repr(rng), expected="range(n - 1, -1, -1)")
                d0 = (pre[iname].nf - lift(N)).as_const()
                ctx.check(d0 is not None and d0 >= 0, rule, "watermark|initial", bt.loc(lp.node), "no position is skipped before the first collective anomaly: the watermark starts at n", found=repr(pre[iname].nf), expected=">= n")
            body_w = lp.info["body_env"].get(iname)
            is_skip_fact = lambda c: c.t[0] == "cmp" and c.t[1] == "<=0" and nf_equal(_strip_int(c.t[2]), win - iin)  # noqa: E731
            skipf = [(c, v) for c, v in both_polarities(pfacts) if is_skip_fact(c)]
            if not skipf:
                if "watermark|guard" in seen:
                    continue
                seen.add("watermark|guard")
                ctx.violation(rule, "watermark|guard", bt.loc(lp.node), "a path through the scan does not test the watermark: positions inside an extracted collective anomaly are visited again", found=[repr(c) for c, v in pfacts][:3], expected="if i >= watermark: continue")
                continue
            if skipf[0][1]:
                k = "watermark|skip"
                if k not in seen:
                    seen.add(k)
                    silent = not loop_events(p, lp, "list_append") and isinstance(body_w, Num) and nf_equal(body_w.nf, win)
                    ctx.check(silent, rule, k, bt.loc(lp.node), "a position at or above the watermark (inside an extracted collective anomaly) records nothing and leaves the watermark alone", found=f"watermark' = {body_w!r}")
                continue
            pfacts = [(c, v) for c, v in pfacts if not any(is_skip_fact(c2) for c2, _ in both_polarities([(c, v)]))]

            def resume(want, body_w=body_w, iin=iin, win=win):
                if not isinstance(body_w, Num):
                    return False
                if nf_equal(want, iin):
                    return nf_equal(body_w.nf, win)  # unchanged watermark: i - 1 < w is visited next
                return nf_equal(_strip_int(body_w.nf), want)  # watermark lowered to the start: start - 1 is visited next

            shown_resume = f"watermark' = {body_w!r}"
        p = _with_facts(p, pfacts)
        facts = facts_of_path([(c, v) for c, v in p.facts])
        apps = loop_events(p, lp, "list_append")
        start_i = app("idx", sym("starts"), (("at", iin),))
        for e in apps:
            tv = e.data["value"]
            if not isinstance(tv, TupleV) or len(tv.items) != 2 or not all(isinstance(x, Num) for x in tv.items):
                ctx.violation(rule, "tuple", e.loc(), "an anomaly is not recorded as a (start, end) pair", found=repr(tv))
                continue
            lo, hi = tv.items
            lo_nf = _strip_int(lo.nf)
            hi_nf = _strip_int(hi.nf)
            # classify: collective (start from the array) or point (start == i)
            is_point = nf_equal(lo_nf, iin)
            kind = "point" if is_point else "collective"
            k = f"tuple|{kind}"
            if k in seen:
                continue
            seen.add(k)
            facts_i = facts_of_path([(_cond_strip_int(c), v) for c, v in p.facts])
            nonempty = entails(facts_i, Lin.of(hi_nf - lo_nf - 1))
            ctx.check(nonempty, rule, k + "|non-empty", e.loc(), f"every recorded {kind} anomaly (lo, hi) has hi - lo >= 1 under its branch condition", found=f"({lo_nf!r}, {hi_nf!r}) under {[repr(c) + '=' + str(v) for c, v in p.facts if lp in getattr(c, 'loops', [lp])][-3:]}", expected="hi - lo >= 1")
            ctx.check(nf_equal(hi_nf, iin + 1), rule, k + "|end", e.loc(), "the anomaly ends at i + 1 (exclusive end after the current sample)", found=repr(hi_nf), expected="i + 1")
            if is_point:
                ctx.check(nf_equal(hi_nf - lo_nf, NF.const(1)), rule, k + "|length", e.loc(), "a point anomaly has length exactly 1", found=repr(hi_nf - lo_nf))
                # exactness: (i, i+1) is recorded only when the optimal start recorded for position i IS i
                from ..affine import path_cases, satisfiable

                cs, unk = path_cases([(_cond_strip_int(c), v) for c, v in p.facts])
                exact = all((not satisfiable(cc + [Lin.of(start_i - iin - 1)])) and (not satisfiable(cc + [Lin.of(iin - start_i - 1)])) for cc in cs)
                ctx.check(exact, rule, k + "|exact", e.loc(), "a point anomaly at i is recorded only when the optimal start of position i is i itself", found=f"branch facts {[repr(c) + '=' + str(v) for c, v in p.facts][-3:]} do not force starts[i] == i", expected="starts[i] == i under the branch condition")
                ctx.check(resume(iin), rule, k + "|resume", e.loc(), "after a point anomaly the scan resumes at i - 1", found=shown_resume)
            else:
                ctx.check(entails(facts_i, Lin.of(hi_nf - lo_nf - 2)), rule, k + "|not-a-point", e.loc(), "an event recorded as collective has at least 2 samples (length-1 events are point anomalies, which ignore_point_anomalies must be able to omit)", found=f"({lo_nf!r}, {hi_nf!r})", expected="hi - lo >= 2 under the branch condition")
                ctx.check(nf_equal(lo_nf, start_i), rule, k + "|start", e.loc(), "a collective anomaly starts at the recorded optimal start of position i", found=repr(lo_nf), expected=repr(start_i))
                ctx.check(resume(start_i), rule, k + "|resume", e.loc(), "after a collective anomaly the scan resumes just before its start", found=shown_resume, expected=repr(start_i - 1))
        if not apps and "none" not in seen:
            seen.add("none")
            ctx.check(resume(iin), rule, "no-anomaly|resume", bt.loc(lp.node), "without an anomaly at i the scan moves to i - 1", found=shown_resume)
            # completeness: nothing is skipped - the branch without a record is unreachable when position i carries an
            # optimal start 0 <= starts[i] <= i (positions without an anomaly carry NaN, which fails every comparison)
            from ..affine import path_cases, satisfiable

            cs, unk = path_cases([(_cond_strip_int(c), v) for c, v in p.facts])
            dom = [Lin.of(iin - start_i), Lin.of(start_i), Lin.of(iin)]
            skipped = any(satisfiable(cc + dom) for cc in cs)
            ctx.check(not skipped, rule, "no-anomaly|complete", bt.loc(lp.node), "every position that carries an optimal start (0 <= starts[i] <= i) yields a record: the silent branch is reachable only for NaN", found=f"silent branch facts {[repr(c) + '=' + str(v) for c, v in p.facts][-3:]}", expected="unsatisfiable together with 0 <= starts[i] <= i")
    for k in ("tuple|collective", "tuple|point"):
        if k not in seen:
            ctx.violation(rule, k, bt.loc(), f"backtracking never records a {k.split('|')[1]} anomaly")
    # the helper returns (collective anomalies, point anomalies) in that order (the drivers unpack them so)
    allk = {}
    for p in rets:
        for e in p.events:
            if e.kind == "list_append" and isinstance(e.data["value"], TupleV) and len(e.data["value"].items) == 2 and all(isinstance(x, Num) for x in e.data["value"].items):
                lo, hi = e.data["value"].items
                is_pt = "starts" not in repr(lo.nf)
                rvp = p.value
                if isinstance(rvp, TupleV):
                    for pos, x in enumerate(rvp.items):
                        if x is e.data["lst"]:
                            allk.setdefault(pos, set()).add("point" if is_pt else "collective")
    ok_order = allk.get(0) == {"collective"} and allk.get(1) == {"point"}
    ctx.check(ok_order, rule, "result-order", bt.loc(), "the helper returns (collective anomalies, point anomalies) in that order", found={k: sorted(v) for k, v in sorted(allk.items())}, expected="{0: collective, 1: point}")


def _with_facts(p, facts):
    """the same path with a filtered fact list (the watermark test of idiom C is accounted for separately)"""
    import copy

    q = copy.copy(p)
    q.facts = list(facts)
    return q


def _strip_int(nf):
    """int(x) is the identity on integer-valued quantities"""
    from ..nf import evalnf

    def f(a):
        if a.kind == "app" and a.args[0] == "int" and isinstance(a.args[1], NF):
            return _strip_int(a.args[1])
        return None

    return evalnf(nf, f)


def _cond_strip_int(c: Cond):
    t = c.t
    if t[0] == "cmp":
        return Cond("cmp", t[1], _strip_int(t[2]))
    if t[0] in ("and", "or"):
        return Cond(t[0], _cond_strip_int(t[1]), _cond_strip_int(t[2]))
    return c


# ------------------------------------------------------- predict-level wiring


def _drv_summary(ex, func, args, kwargs, so, node):
    from .common import bind_call

    b = bind_call(ex, func, args, kwargs)
    ex.emit("driver_call", node, driver=func.qualname, bound=b)
    ex.list_counter += 2
    c = ListV([], opaque=True, lid=ex.list_counter - 1)
    q = ListV([], opaque=True, lid=ex.list_counter)
    c.role, q.role = "collective", "point"
    from .common import name_result_record

    return name_result_record(ex, func, TupleV([ex.mk("driver_out", func.qualname, 0, shape=(N,), dtype="float"), c, q]))


def _fam_summary(ex, func, args, kwargs, so, node):
    names = func.params
    b = {}
    for i, a in enumerate(args):
        b[names[i]] = a
    b.update(kwargs)
    ex.emit("family_call", node, family=func.name, bound=b)
    key = func.name + "(" + ",".join(f"{k}={valkey(v)}" for k, v in sorted(b.items())) + ")"
    return TupleV([ex.mk("fam_alpha", key, shape=(), dtype="float"), ex.mk("fam_betas", key, shape=(Pdim,), dtype="float")])


def _fac_summary(ex, func, args, kwargs, so, node):
    names = func.params
    b = {}
    for i, a in enumerate(args):
        b[names[i]] = a
    b.update(kwargs)
    ex.emit("components_call", node, bound=b)
    # the list of anomalies whose components are inferred: the parameter named after the anomalies, else the one list
    src = next((v_ for k_, v_ in b.items() if "anomal" in k_ and isinstance(v_, ListV)), None)
    if src is None:
        lists_ = [v_ for v_ in b.values() if isinstance(v_, ListV)]
        src = lists_[0] if len(lists_) == 1 else None
    ex.list_counter += 1
    r = ListV([], opaque=True, lid=ex.list_counter)
    r.role = getattr(src, "role", None)
    r.components_of = src
    return r


def _fmt_summary(ex, func, args, kwargs, so, node):
    ex.emit("format_call", node, owner=func.cls.name if func.cls else getattr(getattr(func, "owner_cls", None), "name", None), args=args, kwargs=kwargs)
    from ..values import OpaqueV

    return OpaqueV("formatted", {"kind": "frame"})


def check_predicts(ctx, drv):
    for name in ("CAPA", "MVCAPA"):
        ctx.guard("C03.h IGNORE-POINT", name, lambda: check_predict(ctx, name, drv), drv.loc())


def check_predict(ctx, name, drv):
    cls = ctx.P.public_class("skchange.anomaly_detectors", name)
    pred = ctx.P.lookup_method(cls, "_predict")
    summ = dict(ABSTRACT_SUMMARIES)
    summ[drv.qualname] = _drv_summary
    for fam in ("dense_mvcapa_penalty", "sparse_mvcapa_penalty", "intermediate_mvcapa_penalty", "combined_mvcapa_penalty"):
        if f"{MV}.{fam}" in ctx.P.functions:
            summ[f"{MV}.{fam}"] = _fam_summary
    fac = [f for f in _reach(ctx, pred).values() if f.cls is None and any("anomal" in q for q in f.params) and any("saving" in q for q in f.params) and any("alpha" in q or "penalt" in q for q in f.params)]
    for f in fac:
        summ[f.qualname] = _fac_summary
    for c in ctx.P.classes.values():
        if "_format_sparse_output" in c.methods:
            summ[c.methods["_format_sparse_output"].qualname] = _fmt_summary
    ex = new_executor(ctx, summ, max_paths=200)
    st = {}

    def thunk(ex):
        ov = {
            "collective_saving": lambda ex: abstract_scorer(ex, ctx.P, SAV, "collective_saving"),
            "point_saving": lambda ex: abstract_scorer(ex, ctx.P, SAV, "point_saving", min_size=NF.const(1)),
            "ignore_point_anomalies": lambda ex: Num(None, (), "bool", cond=Cond("opq", "ignore_point_anomalies")),
        }
        kw = symbolic_hyperparams(ex, ctx.P, cls, ov)
        obj = ex.new_object(cls, [], kw)
        obj.fields["_is_fitted"] = Num(None, (), "bool", cond=Cond.const(True))
        obj.fields["collective_penalty_"] = Num(sym("collective_penalty_"), (), "float")
        obj.fields["point_penalty_"] = Num(sym("point_penalty_"), (), "float")
        st["obj"] = obj
        st["n0"] = len(ex.events)
        return call_method(ex, obj, "predict", frame_sym(ex))

    paths = run(ctx, ex, thunk)
    good = returns(paths)
    if not good:
        ctx.undecided("C03.h IGNORE-POINT", name, pred.loc(), "predict never returns", found=[(p.outcome, p.exc.exc_name if p.exc else "") for p in paths])
        return
    ign = Cond("opq", "ignore_point_anomalies")
    seen = set()
    for p in good:
        # constructor validation paths returned normally; find the ignore decision
        ig = None
        for c, v in p.facts:
            if c.key == ign.key:
                ig = v
            elif c.key == ign.neg().key:
                ig = not v
        fm = [e for e in p.events if e.kind == "format_call"]
        dc = [e for e in p.events if e.kind == "driver_call"]
        if not fm or not dc:
            ctx.violation("C03.h IGNORE-POINT", f"{name}|formatter", pred.loc(), "predict does not pass the driver's anomalies to the formatter", found=f"{len(fm)} formatter calls, {len(dc)} driver calls")
            continue
        arg = fm[-1].data["args"][0] if fm[-1].data["args"] else None
        key = f"{name}|ignore={ig}"
        if key in seen:
            continue
        seen.add(key)
        # sorted(...) of the lists, or a local copy sorted in place (x = list(a); x.extend(b); x.sort())
        src = getattr(arg, "sorted_from", None)
        if src is None and isinstance(arg, ListV) and getattr(arg, "is_sorted", False):
            src = arg
        is_sorted = isinstance(arg, ListV) and getattr(arg, "is_sorted", False) and src is not None
        ctx.check(is_sorted, "C03.h IGNORE-POINT", key + "|sorted", fm[-1].loc(), "the list handed to the formatter is sorted(...)", found=repr(arg))
        if not is_sorted:
            continue
        def _leaf_lists(x):
            """the driver-output lists a list value is made of: a + b (parts), a += b (extended), list(a), a[:] ..."""
            out = []
            ps = getattr(x, "parts", None)
            lo = getattr(x, "list_of", None)
            if ps is not None:
                for q in ps:
                    out.extend(_leaf_lists(q))
            elif isinstance(lo, ListV):
                out.extend(_leaf_lists(lo))  # list(a): a copy of a
            else:
                out.append(x)
            for q in getattr(x, "extended", []) or []:
                out.extend(_leaf_lists(q))
            return out

        parts = _leaf_lists(src)
        roles = sorted(str(getattr(x, "role", "?")) for x in parts)
        want = ["collective"] if ig else ["collective", "point"]
        ctx.check(roles == want, "C03.h IGNORE-POINT", key, fm[-1].loc(), "formatter receives collective + point anomalies, or only the collective ones when ignore_point_anomalies is set", found=roles, expected=want)
        owner = fm[-1].data["owner"]
        want_owner = "SubsetCollectiveAnomalyDetector" if name == "MVCAPA" else "CollectiveAnomalyDetector"
        ctx.check(owner == want_owner, "C03.h IGNORE-POINT", f"{name}|formatter-type", fm[-1].loc(), f"the formatter is {want_owner}'s", found=owner)
        # ------------------------------------------------------------ binding
        b = dc[-1].data["bound"]
        rule = "C03.i BINDING"
        obj = st["obj"]

        pn = {k: v for k, v in b.items()}
        ok_s = any(k for k in pn if "collective" in k and "saving" in k and valkey(pn[k]) == "obj:collective_saving") and any(k for k in pn if "point" in k and "saving" in k and valkey(pn[k]) == "obj:point_saving")
        ctx.check(ok_s, rule, f"{name}|savings", dc[-1].loc(), "the driver receives the detector's collective saving as collective and point saving as point", found={k: valkey(v) for k, v in pn.items() if "saving" in k})
        # the two length limits, each at the driver parameter of its role (named ...min...length / ...max...length)
        kmin = [k for k in pn if "min" in k and "len" in k]
        kmax = [k for k in pn if "max" in k and "len" in k]
        if len(kmin) != 1 or len(kmax) != 1:
            ctx.undecided(rule, f"{name}|lengths", dc[-1].loc(), "the driver's parameters for the minimum and maximum segment length cannot be told by their names", found=list(pn))
        else:
            ok_l = isinstance(pn[kmin[0]], Num) and nf_equal(pn[kmin[0]].nf, sym("min_segment_length")) and isinstance(pn[kmax[0]], Num) and nf_equal(pn[kmax[0]].nf, sym("max_segment_length"))
            ctx.check(ok_l, rule, f"{name}|lengths", dc[-1].loc(), "the driver receives min_segment_length and max_segment_length in their own roles", found={k: valkey(v) for k, v in pn.items() if "len" in k})
        # both savings fitted on the current data before the driver runs
        fits = [e for e in p.events[: p.events.index(dc[-1])] if e.kind == "scorer_fit"]
        fitted = {e.data["obj"].key: valkey(e.data["data"]) for e in fits}
        ctx.check(fitted.get("collective_saving") == "[X]/[1]" and fitted.get("point_saving") == "[X]/[1]", rule, f"{name}|fit-before-run", dc[-1].loc(), "both savings are fitted on the current input before the recursion runs", found=fitted)
        if name == "CAPA":
            # (alpha, betas) may travel as one small record per anomaly kind: its fields count under "<parameter>.<field>"
            pa = dict(pn)
            for k_, v_ in list(pn.items()):
                if isinstance(v_, TupleV) and getattr(v_, "names", None):
                    for nm_, it_ in zip(v_.names, v_.items):
                        pa[f"{k_}.{nm_}"] = it_
            ka_c = [k for k in pa if "collective" in k and "alpha" in k]
            ka_p = [k for k in pa if "point" in k and "alpha" in k]
            if not ka_c or not ka_p:
                ctx.undecided(rule, "CAPA|alphas", dc[-1].loc(), "the driver's parameters for the two alphas cannot be told by their names", found=list(pa))
            else:
                oka = any(isinstance(pa[k], Num) and nf_equal(pa[k].nf, sym("collective_penalty_")) for k in ka_c) and any(isinstance(pa[k], Num) and nf_equal(pa[k].nf, sym("point_penalty_")) for k in ka_p)
                ctx.check(oka, rule, "CAPA|alphas", dc[-1].loc(), "alpha = fitted collective_penalty_ resp. point_penalty_", found={k: valkey(v) for k, v in pa.items() if "alpha" in k})
            okb = all(isinstance(v, Num) and ex.cur_nf(v).is_zero() for k, v in pn.items() if "beta" in k)
            ctx.check(okb, rule, "CAPA|betas", dc[-1].loc(), "CAPA has no per-component penalties (betas == 0)", found={k: valkey(v) for k, v in pn.items() if "beta" in k})
        else:
            fams = [e for e in p.events if e.kind == "family_call"]
            comp = [e for e in p.events if e.kind == "components_call"]
            n, pp = lift(N), lift(Pdim)

            def fam_ok(e, role, scale):
                bb = e.data["bound"]
                vals = list(bb.values())
                try:
                    okn = nf_equal(bb["n"].nf, n) and nf_equal(bb["p"].nf, pp)
                    k = [v for kx, v in bb.items() if "param" in kx][0]
                    okk = nf_equal(k.nf, app("param_size", role, NF.const(1)))
                    oksc = nf_equal(bb["scale"].nf, sym(scale))
                    return okn and okk and oksc
                except Exception:  # noqa: BLE001
                    return False

            if len(fams) < 3:
                ctx.violation(rule, "MVCAPA|families", pred.loc(), "expected penalty-family calls for collective, point and the sparse subset inference", found=[e.data["family"] for e in fams])
            else:
                ctx.check(fams[0].data["family"] == "combined_mvcapa_penalty" and fam_ok(fams[0], "collective_saving", "collective_penalty_scale"), rule, "MVCAPA|collective-penalty", fams[0].loc(), "collective penalties = selected family(n, p, collective get_param_size(1), scale=collective_penalty_scale)", found={k: valkey(v) for k, v in fams[0].data["bound"].items()})
                ctx.check(fams[1].data["family"] == "sparse_mvcapa_penalty" and fam_ok(fams[1], "point_saving", "point_penalty_scale"), rule, "MVCAPA|point-penalty", fams[1].loc(), "point penalties = selected family(n, p, point get_param_size(1), scale=point_penalty_scale)", found={k: valkey(v) for k, v in fams[1].data["bound"].items()})
                # driver receives them in the right roles
                ka = single_atom([v for k, v in pn.items() if "collective" in k and "alpha" in k][0].nf)
                kp = single_atom([v for k, v in pn.items() if "point" in k and "alpha" in k][0].nf)
                kb = single_atom([v for k, v in pn.items() if "collective" in k and "beta" in k][0].nf)
                kq = single_atom([v for k, v in pn.items() if "point" in k and "beta" in k][0].nf)
                okr = all(x is not None and x.kind == "app" for x in (ka, kp, kb, kq)) and ka.args[0] == "fam_alpha" and kb.args[0] == "fam_betas" and ka.args[1].startswith("combined") and kb.args[1] == ka.args[1] and kp.args[1].startswith("sparse") and kq.args[1] == kp.args[1] and kp.args[0] == "fam_alpha" and kq.args[0] == "fam_betas"
                ctx.check(okr, rule, "MVCAPA|penalty-roles", dc[-1].loc(), "(alpha, betas) of the collective family go to the collective role, those of the point family to the point role", found={k: valkey(v)[:60] for k, v in pn.items() if "alpha" in k or "beta" in k})
    if len(seen) < 2:
        ctx.violation("C03.h IGNORE-POINT", f"{name}|flag", pred.loc(), "predict does not branch on ignore_point_anomalies", found=sorted(seen))
