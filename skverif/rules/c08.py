"""C08 - moving window: symmetric two-sided scores and peak-of-run detections."""

from __future__ import annotations

import ast

from ..index import ClassInfo, FuncInfo
from ..nf import NF, Atom, Undecided, app, atoms_of, lift, nf_equal, single_atom, subst, sym
from ..values import NONE, Cond, ListV, NoneV, Num, ObjV, OpaqueV, SliceV, StrV, TupleV, valkey
from .c02 import call_roles, find_driver_call
from .common import (
    is_data_src,
    ABSTRACT_SUMMARIES,
    N,
    Pdim,
    abstract_scorer,
    call_method,
    data_sym,
    frame_sym,
    new_executor,
    returns,
    run,
    symbolic_hyperparams,
)
from .dp import arr_of, loop_events, main_loop

EXPLANATION = (
    "Static decision for every input, bandwidth and change score (uninterpreted evaluate): (a) WINDOW-GEOM - in the transform "
    "reached from MovingWindow._transform_scores the cuts handed to change_score.evaluate are column_stack((L, K, R)) with "
    "K = arange(b, n-b+1), K - L == b and R - K == b as affine normal forms (the score at t compares X[t-b:t] with X[t:t+b]); the "
    "result is zeros(n) with scores[K] = sum over columns, so 0 elsewhere; the score is fitted on the current X before it is "
    "evaluated; (b) PEAK-OF-RUN - changepoints are argmax(scores[lo:hi]) + lo for the runs (lo, hi) of `scores > threshold` (strict) "
    "whose length is >= min_detection_interval; (c) RUNS - the run finder appends (start, i) at a True->False transition and "
    "(start, len) at the end, setting start = i at a False->True transition; (d) wiring of bandwidth / threshold_ / "
    "min_detection_interval from the detector to the helpers and of the result to the formatter. The time-reversal clause follows "
    "from the symmetric window (a) and the reversal symmetry of the score (C12.c). NOT decided: maximality of the runs returned "
    "by the run finder (a loop invariant over the data)."
)
# obligations added during the build phase (seeding rounds, twins, mutation analysis)
ADDED_IN_BUILD = " Also: the run finder's state is the carried variable its branch conditions test (the start marker itself or a separate boolean flag): after a False->True transition it is surely not idle, after recording a run it is reset. PEAK-OF-RUN scan-complete: the loop over the runs is never left by break / return. A path that an isinstance test of the arbitrary change score sends past evaluate() is a violation (a user-defined subclass overriding _evaluate is bypassed)."
EXPLANATION = EXPLANATION + ADDED_IN_BUILD

ASSUMPTIONS = [
    "Python's ast module and evaluation-order/argument-binding semantics as implemented in skverif/symex.py",
    "library model table skverif/models.py (np.arange, np.column_stack, np.zeros, integer-array subscript stores, np.argmax)",
    "user change scores are uninterpreted functions of (object, fitted data, cuts)",
]
MW = ("skchange.change_detectors", "MovingWindow")
BCS = "skchange.change_scores.base.BaseChangeScore"


def check(ctx):
    from .c10 import shared_no_stale

    shared_no_stale(ctx, "C08.d WIRING", [("skchange.change_detectors", "MovingWindow")])
    cls = ctx.P.public_class(*MW)
    ts = ctx.P.lookup_method(cls, "_transform_scores")
    cands = find_driver_call(ctx, ts)
    if len(cands) != 1:
        ctx.undecided("C08 DRIVER", "MovingWindow._transform_scores", ts.loc(), f"expected one transform call receiving the change score, found {len(cands)}")
        return
    call, drv = cands[0]
    ctx.guard("C08.a WINDOW-GEOM", drv.qualname, lambda: check_transform(ctx, drv, call_roles(call, drv)), drv.loc())
    pred = ctx.P.lookup_method(cls, "_predict")
    ext = None
    for n in ast.walk(pred.node):
        if isinstance(n, ast.Call) and isinstance(n.func, (ast.Name, ast.Attribute)):
            r = ctx.P.resolve_expr(pred.module, n.func)
            if isinstance(r, FuncInfo) and r.cls is None and ("threshold" in " ".join(r.params) or any(isinstance(x, ast.Call) and isinstance(x.func, ast.Attribute) and x.func.attr == "argmax" for x in ast.walk(r.node))):
                ext = r
    if ext is None:
        ctx.undecided("C08.b PEAK-OF-RUN", "extractor", pred.loc(), "no changepoint-extraction helper taking a threshold is called by _predict")
    else:
        ctx.guard("C08.b PEAK-OF-RUN", ext.qualname, lambda: check_extract(ctx, ext), ext.loc())
    ctx.guard("C08.d WIRING", "MovingWindow", lambda: check_wiring(ctx, cls, drv, ext), pred.loc())
    ctx.expect_min("C08", len([o for o in ctx.obs if o.status == "HOLDS"]), 12)


def check_transform(ctx, drv, roles):
    rule = "C08.a WINDOW-GEOM"
    ex = new_executor(ctx, ABSTRACT_SUMMARIES)
    b = sym("b")

    def thunk(ex):
        args = {}
        for p in drv.params:
            src = roles.get(p, "")
            if is_data_src(src):
                args[p] = data_sym(ex)
            elif src.startswith("self._"):
                args[p] = abstract_scorer(ex, ctx.P, BCS, "score", width=3)
            elif "bandwidth" in src:
                args[p] = Num(b, (), "int")
            else:
                raise Undecided(f"transform parameter {p} has no recognised role ({src!r})")
        return ex.call_function(drv, [], args, None, None)

    paths = run(ctx, ex, thunk)
    rets = returns(paths)
    if not rets or len(paths) > 8:
        ctx.undecided(rule, drv.qualname, drv.loc(), f"{len(paths)} paths through the transform, {len(rets)} returning")
        return
    for p in paths:
        if p.outcome == "raise":
            ctx.violation(rule, "raises", p.exc.func.loc(p.exc.node) if p.exc.func else drv.loc(), "the transform raises on a path with valid symbolic arguments", found=p.exc.exc_name)
    for k, p in enumerate(rets):
        _check_transform_path(ctx, ex, p, drv, b, first=(k == 0))


def _check_transform_path(ctx, ex, p, drv, b, first=True):
    rule = "C08.a WINDOW-GEOM"
    evs = [e for e in p.events if e.kind == "scorer_evaluate"]
    fits = [e for e in p.events if e.kind == "scorer_fit"]
    if len(evs) == 0 and any(v and "isinstance(" in c.key for c, v in p.facts) and any(e.kind == "abstract_isinstance" for e in p.events):
        # the transform asks whether the arbitrary change score is an instance of one built-in class and then computes the
        # scores itself: a user-defined subclass of that class (its own _evaluate, its own validation) is bypassed
        ie = next(e for e in p.events if e.kind == "abstract_isinstance")
        ctx.violation(rule, "evaluate", drv.loc(), f"on the path taken by instances of {ie.data['cls'].name} the scores are not obtained through the change score's evaluate(): a user-defined subclass that overrides _evaluate gets the built-in kernel's scores", found="0 score evaluations after an isinstance test of the score", expected="change_score.evaluate(cuts) for every change score")
        return
    if len(evs) != 1:
        ctx.undecided(rule, "evaluate", drv.loc(), f"{len(evs)} score evaluations")
        return
    e = evs[0]
    ctx.check(len(fits) == 1 and p.events.index(fits[0]) < p.events.index(e) and e.data["fitted_on"] == "[X]/[1]", "C08.a FIT-FIRST", "fit-before-evaluate", e.loc(), "the change score is fitted on the current X before it is evaluated", found=e.data["fitted_on"])
    ca = single_atom(e.data["cuts"].nf)
    if ca is None or ca.kind != "app" or ca.args[0] != "colstack" or len(ca.args[1]) != 3:
        ctx.violation(rule, "cuts", e.loc(), "the score is not evaluated on (start, split, end) triples", found=repr(e.data["cuts"]))
        return
    L, Kk, R = ca.args[1]
    n = lift(N)
    want_K = app("arange", b, n - b + 1)
    ctx.check(nf_equal(Kk, want_K), rule, "splits", e.loc(), "candidate positions are K = b, ..., n-b", found=repr(Kk), expected=repr(want_K))
    ctx.check(nf_equal(Kk - L, b), rule, "left-window", e.loc(), "the left window holds exactly bandwidth samples: K - L == b (X[t-b:t])", found=repr(Kk - L), expected="b")
    ctx.check(nf_equal(R - Kk, b), rule, "right-window", e.loc(), "the right window holds exactly bandwidth samples: R - K == b (X[t:t+b])", found=repr(R - Kk), expected="b")
    out = p.value
    arr = arr_of(out) if isinstance(out, Num) else None
    if arr is None:
        ctx.violation(rule, "scores", drv.loc(), "the transform does not return an allocated score vector", found=repr(out))
        return
    ok_alloc = arr.init[0] == "zeros" and arr.shape is not None and len(arr.shape) == 1 and nf_equal(lift(arr.shape[0]), n)
    ctx.check(ok_alloc, rule, "scores|alloc", drv.loc(arr.node), "scores is zeros(n): 0 outside the scored positions", found=f"{arr.init[0]} shape {arr.shape}")
    ctx.check(arr.dtype == "float", rule, "scores|dtype", drv.loc(arr.node), "the score vector is float by construction, whatever the dtype of the data (an integer-typed vector truncates the scores)", found=f"dtype {arr.dtype or 'taken from an argument'}", expected="float")
    if len(arr.stores) != 1:
        ctx.violation(rule, "scores|store", drv.loc(), f"{len(arr.stores)} stores into the score vector (expected one)")
        return
    s = arr.stores[0]
    idx, val = s.data["index"], s.data["value"]
    ok_i = len(idx) == 1 and isinstance(idx[0], Num) and nf_equal(idx[0].nf, Kk) and not s.data.get("aug")
    ctx.check(ok_i, rule, "scores|positions", s.loc(), "the aggregated scores are written at the split positions K themselves", found=repr(idx[0]) if idx else "?", expected=repr(Kk))
    want_v = app("sum", NF.atom(single_atom(e.data["result"].nf)), 1)
    ctx.check(isinstance(val, Num) and nf_equal(val.nf, want_v), rule, "scores|value", s.loc(), "the score is the change score summed over columns (axis 1)", found=repr(val), expected=repr(want_v))


def _where_summary(ex, func, args, kwargs, so, node):
    ind = args[0]
    ex.emit("runs_call", node, indicator=ind)
    ex.list_counter += 1
    lo = Num(sym("run_lo"), (), "int")
    hi = Num(sym("run_hi"), (), "int")
    r = ListV([], opaque=True, lid=ex.list_counter, elem=TupleV([lo, hi]))
    r.role = "runs"
    return r


def check_extract(ctx, ext: FuncInfo):
    rule = "C08.b PEAK-OF-RUN"
    # the run finder: the helper called on a comparison of scores with the threshold
    finder = None
    # a local that holds the comparison (mask = scores > threshold; where(mask)) is followed to its single assignment
    assigned = {}
    for n in ast.walk(ext.node):
        if isinstance(n, ast.Assign) and len(n.targets) == 1 and isinstance(n.targets[0], ast.Name):
            assigned.setdefault(n.targets[0].id, []).append(n.value)

    def is_comparison(a):
        if isinstance(a, ast.Compare):
            return True
        return isinstance(a, ast.Name) and len(assigned.get(a.id, [])) == 1 and isinstance(assigned[a.id][0], ast.Compare)

    for n in ast.walk(ext.node):
        if isinstance(n, ast.Call) and isinstance(n.func, (ast.Name, ast.Attribute)) and n.args and is_comparison(n.args[0]):
            r = ctx.P.resolve_expr(ext.module, n.func)
            if isinstance(r, FuncInfo):
                finder = r
    if finder is None:
        ctx.undecided(rule, "run-finder", ext.loc(), "no run-finding helper is applied to a comparison of the scores")
        return
    ctx.guard("C08.c RUNS", finder.qualname, lambda: check_runs(ctx, finder), finder.loc())
    ex = new_executor(ctx, {finder.qualname: _where_summary})
    thr, mdi = sym("threshold"), sym("mdi")

    def thunk(ex):
        sc = Num(sym("scores"), (N,), "float", "ndarray", meta={"foreign": True})
        ex.atom_shapes[Atom("sym", "scores").key] = (N,)
        args = {}
        for p in ext.params:
            if "score" in p:
                args[p] = sc
            elif "threshold" in p:
                args[p] = Num(thr, (), "float")
            elif "interval" in p or "min" in p:
                args[p] = Num(mdi, (), "int")
            else:
                # a record that bundles the remaining arguments: a NamedTuple named in the parameter's annotation
                ann = next((a_.annotation for a_ in ext.node.args.args if a_.arg == p), None)
                rc = ctx.P.resolve_expr(ext.module, ann) if isinstance(ann, (ast.Name, ast.Attribute)) else None
                fields = ex._record_fields(rc) if isinstance(rc, ClassInfo) else None
                if not fields:
                    raise Undecided(f"extractor parameter {p} has no recognised role")
                items = []
                for fn_, _ in fields:
                    if "threshold" in fn_:
                        items.append(Num(thr, (), "float"))
                    elif "interval" in fn_ or "min" in fn_:
                        items.append(Num(mdi, (), "int"))
                    else:
                        raise Undecided(f"field {fn_} of the extractor's record {rc.name} has no recognised role")
                rec = TupleV(items)
                rec.names = [fn_ for fn_, _ in fields]
                rec.record = rc
                args[p] = rec
        return ex.call_function(ext, [], args, None, None)

    paths = run(ctx, ex, thunk)
    rets = returns(paths)
    if not rets:
        ctx.violation(rule, "extractor", ext.loc(), "never returns")
        return
    lo, hi = sym("run_lo"), sym("run_hi")
    got_append = False
    got_skip = False
    for p in rets:
        rc = [e for e in p.events if e.kind == "runs_call"]
        if len(rc) != 1:
            ctx.undecided(rule, "runs", ext.loc(), "the run finder is not called exactly once")
            return
        ind = rc[0].data["indicator"]
        want_ind = Cond.cmp(">", sym("scores"), thr)
        if not got_append and not got_skip:
            ctx.check(isinstance(ind, Num) and ind.cond is not None and ind.cond.key == want_ind.key, rule, "exceedance", rc[0].loc(), "runs are runs of `scores > threshold` (strict)", found=repr(ind), expected=repr(want_ind))
        want_guard = Cond.cmp(">=", hi - lo, mdi)
        gv = None
        for c, v in p.facts:
            if c.key == want_guard.key:
                gv = v
            elif c.key == want_guard.neg().key:
                gv = not v
        apps = [e for e in p.events if e.kind == "list_append"]
        # every run is looked at: the scan over the runs goes on after a run, whatever its length (no break / return)
        for le in [e for e in p.events if e.kind == "loop_enter" and e.func is not None and e.func.qualname == ext.qualname]:
            over = le.data["loop"].info.get("over")
            if getattr(over, "role", None) != "runs" and getattr(getattr(over, "list_of", None), "role", None) != "runs":
                continue  # some other loop of the extractor (a search inside one run may well stop early)
            how = le.data["loop"].info.get("exit", "return")
            if how not in ("fallthrough", "continue"):
                ctx.violation(rule, "scan-complete", le.loc(), f"the scan over the runs ends ({how}) at a run " + ("that is long enough" if gv else "shorter than min_detection_interval") + ": every later run is dropped, however long", found=f"loop exit by {how}", expected="the loop goes on to the next run")
                return
        if gv is None:
            ctx.violation(rule, "min-run-length", ext.loc(), "no branch tests run length >= min_detection_interval", found=[repr(c) for c, _ in p.facts], expected=repr(want_guard))
            return
        if gv:
            got_append = True
            want = app("argmax", app("idx", sym("scores"), (("slice", lo, hi, NF.const(1)),))) + lo
            ok = len(apps) == 1 and isinstance(apps[0].data["value"], Num) and nf_equal(apps[0].data["value"].nf, want)
            ctx.check(ok, rule, "peak", apps[0].loc() if apps else ext.loc(), "a long enough run reports argmax(scores[lo:hi]) + lo (position of the maximum inside the run)", found=repr(apps[0].data["value"]) if apps else "nothing appended", expected=repr(want))
            if apps:
                out = p.value
                ctx.check(out is apps[0].data["lst"], rule, "result", ext.loc(), "the list of peaks is returned as is (in scan order, hence increasing)", found=repr(out))
        else:
            got_skip = True
            ctx.check(len(apps) == 0, rule, "short-run", ext.loc(), "a run shorter than min_detection_interval reports nothing", found=f"{len(apps)} appends")
    ctx.check(got_append and got_skip, rule, "both-branches", ext.loc(), "the run-length guard has both outcomes", nontrivial=False)
    if got_append and got_skip:
        ctx.holds(rule, "scan-complete", ext.loc(), "the scan goes on to the next run after a short run and after a reported one (no break / return inside the loop over the runs)")


def check_runs(ctx, finder: FuncInfo):
    rule = "C08.c RUNS"
    ex = new_executor(ctx, max_paths=200)

    def thunk(ex):
        ind = Num(sym("ind"), (N,), "bool", "ndarray", meta={"foreign": True, "boolarr": True})
        ex.atom_shapes[Atom("sym", "ind").key] = (N,)
        return ex.call_function(finder, [ind], {}, None, None)

    paths = run(ctx, ex, thunk)
    rets = returns(paths)
    if not rets:
        ctx.violation(rule, "finder", finder.loc(), "never returns")
        return
    seen = set()
    for p in rets:
        loops = main_loop(p, finder.qualname)
        if len(loops) != 1:
            ctx.undecided(rule, "finder", finder.loc(), f"{len(loops)} loops")
            return
        lp = loops[0]
        lv = NF.atom(Atom("lv", lp.lid))
        inloop = loop_events(p, lp, "list_append")
        after = [e for e in p.events if e.kind == "list_append" and lp not in e.loops]
        # the carried 'start' variable: the maybe-None one
        pre = lp.info["pre"]
        # the carried 'start' marker: None or an integer sentinel before the loop
        svars = [n for n, v in pre.items() if isinstance(v, NoneV) or (isinstance(v, Num) and v.shape == () and v.nf is not None and v.nf.as_const() is not None)]

        def is_carried_start(x):
            if isinstance(x, OpaqueV):
                return any(x.key == f"{lp.lid}.{n}.in" for n in svars)
            if isinstance(x, Num) and x.nf is not None:
                a = single_atom(x.nf)
                return a is not None and a.kind == "lc" and any(a.args[0] == f"{lp.lid}.{n}.in" for n in svars)
            return False

        def same_as_pre(n, v):
            p0 = pre.get(n)
            if isinstance(p0, NoneV):
                return isinstance(v, NoneV)
            return isinstance(v, Num) and isinstance(p0, Num) and v.nf is not None and nf_equal(v.nf, p0.nf)

        def state_names(p_):
            return [n for n in svars if any(f"{lp.lid}.{n}.in" in repr(c_) for c_, _ in p_.facts)]

        for e in inloop:
            tv = e.data["value"]
            if "in" in seen:
                continue
            seen.add("in")
            ok = isinstance(tv, TupleV) and len(tv.items) == 2 and isinstance(tv.items[1], Num) and nf_equal(tv.items[1].nf, lv) and is_carried_start(tv.items[0])
            ctx.check(ok, rule, "transition-end", e.loc(), "at a True->False transition the run (carried start, i) is recorded: it ends before the first False position", found=repr(tv), expected="(start, i)")
            be = lp.info["body_env"]
            # the 'a run is open' state: the carried variable(s) the branch conditions test - the start variable itself
            # (None / sentinel when idle) or a separate boolean flag
            marker = state_names(p)
            if not marker:
                marker = [n for n in svars if is_carried_start(tv.items[0]) and (f".{n}.in" in (tv.items[0].key if isinstance(tv.items[0], OpaqueV) else repr(tv.items[0])))] if isinstance(tv, TupleV) and tv.items else []
            reset = bool(marker) and all(same_as_pre(n, be.get(n)) for n in marker)
            ctx.check(reset, rule, "transition-reset", e.loc(), "after recording a run the start marker is reset to its 'no open run' value (None / sentinel)", found={n: repr(be.get(n)) for n in svars})
        for e in after:
            tv = e.data["value"]
            if "after" in seen:
                continue
            seen.add("after")
            ok = isinstance(tv, TupleV) and len(tv.items) == 2 and isinstance(tv.items[1], Num) and nf_equal(tv.items[1].nf, lift(N))
            ctx.check(ok, rule, "final-run", e.loc(), "a run still open at the end is recorded as (start, len(indicator))", found=repr(tv), expected="(start, n)")
            # ... and only then: the facts in force say that the start marker does NOT have its idle value after the loop
            from .common import both_polarities

            idle_fact = None
            for c_, v_ in both_polarities(e.facts):
                txt_ = repr(c_)
                if any(f"{lp.lid}.{n_}.out" in txt_ for n_ in svars):
                    if txt_.startswith("is(") and txt_.rstrip(")").endswith("None"):
                        idle_fact = v_ if any(isinstance(pre.get(n_), NoneV) for n_ in svars) else (not v_)
                    elif c_.t[0] == "cmp":
                        for n_ in svars:
                            pv_ = pre.get(n_)
                            at_ = [x_ for x_ in atoms_of(c_.t[2]).values() if x_.kind == "lc" and x_.args[0] == f"{lp.lid}.{n_}.out"]
                            if at_ and isinstance(pv_, Num) and pv_.nf is not None:
                                val_ = subst(c_.t[2], {at_[0].key: pv_.nf}).as_const()
                                if val_ is not None:
                                    holds_at_idle = {"<0": val_ < 0, "<=0": val_ <= 0, "==0": val_ == 0, "!=0": val_ != 0}[c_.t[1]]
                                    idle_fact = v_ if holds_at_idle else (not v_)
                    if idle_fact is not None:
                        break
            ctx.check(idle_fact is False, rule, "final-run|guard", e.loc(), "the final run is recorded only when a run is still open after the loop (the start marker is not idle)", found=f"marker idle: {idle_fact}", expected="marker not idle")
        # a path that sets start = i without appending (False->True)
        be = lp.info["body_env"]
        if not inloop and svars and any(isinstance(be.get(n), Num) and be.get(n).nf is not None and nf_equal(be.get(n).nf, lv) for n in svars):
            if "open" not in seen:
                seen.add("open")
                def surely_open(n, v):
                    p0 = pre.get(n)
                    if isinstance(p0, NoneV):
                        return isinstance(v, Num)
                    if isinstance(v, Num) and isinstance(p0, Num) and v.nf is not None and p0.nf is not None:
                        c0, c1 = p0.nf.as_const(), v.nf.as_const()
                        if c0 is not None and c1 is not None:
                            return c0 != c1
                        return c0 is not None and c0 < 0 and nf_equal(v.nf, lv)  # a position is never the negative sentinel
                    return False

                still_idle = [n for n in state_names(p) if not surely_open(n, be.get(n))]
                ctx.check(not still_idle, rule, "transition-start", finder.loc(lp.node), "at a False->True transition the run start is set to the current position i and the 'run open' state is left idle no longer", found={n: repr(be.get(n)) for n in svars})
    for k, what in (("in", "records a run at a True->False transition"), ("after", "records a run that is still open at the end"), ("open", "opens a run at a False->True transition")):
        if k not in seen:
            ctx.violation(rule, k, finder.loc(), f"no path {what}")
    _runs_transitions(ctx, finder, rets)


def _leaves(c):
    t = c.t
    if t[0] in ("and", "or"):
        return _leaves(t[1]) + _leaves(t[2])
    if t[0] == "not":
        return _leaves(t[1])
    return [c]


def _var_of(c):
    """(variable id, polarity): a leaf condition and its negation are one propositional variable"""
    n = c.neg()
    if n.t[0] == "not" or c.t[0] == "not":
        base = c.t[1] if c.t[0] == "not" else c
        return base.key, c.t[0] != "not"
    k, nk = c.key, n.key
    return (k, True) if k <= nk else (nk, False)


def _eval_prop(c, asg):
    t = c.t
    if t[0] == "const":
        return t[1]
    if t[0] == "and":
        return _eval_prop(t[1], asg) and _eval_prop(t[2], asg)
    if t[0] == "or":
        return _eval_prop(t[1], asg) or _eval_prop(t[2], asg)
    if t[0] == "not":
        return not _eval_prop(t[1], asg)
    v, pol = _var_of(c)
    return asg[v] if pol else (not asg[v])


def _runs_transitions(ctx, finder, rets):
    """the transition table of the run finder: per iteration the effect (open a run / close a run / nothing) is decided
    by exactly (indicator[i], a run is open).  The branch conditions of every path through the loop body are read as
    propositional formulas over the two leaf tests and evaluated on all four combinations."""
    import itertools

    rule = "C08.c RUNS"
    table = {}
    for p in rets:
        loops = main_loop(p, finder.qualname)
        if len(loops) != 1:
            return
        lp = loops[0]
        lv = NF.atom(Atom("lv", lp.lid))
        pre = lp.info["pre"]
        svars = [n for n, v in pre.items() if isinstance(v, NoneV) or (isinstance(v, Num) and v.shape == () and v.nf is not None and v.nf.as_const() is not None)]
        facts = [(c, v) for c, v in p.facts if not any(f"{lp.lid}.{n}.out" in repr(c) for n in svars)]
        leaves = {}
        for c, v in facts:
            for l in _leaves(c):
                vid, pol = _var_of(l)
                txt = repr(l)
                kind = "marker" if any(f"{lp.lid}.{n}.in" in txt for n in svars) else ("indicator" if "idx(ind" in txt else "other")
                leaves[vid] = (kind, l, pol)
        kinds = sorted(k for k, _, _ in leaves.values())
        if kinds != ["indicator", "marker"]:
            ctx.undecided(rule, "transition-table", finder.loc(), f"the loop body branches on {kinds}: expected one test of indicator[i] and one test of the start marker")
            return
        ind_id = next(v for v, (k, _, _) in leaves.items() if k == "indicator")
        mk_id = next(v for v, (k, _, _) in leaves.items() if k == "marker")
        # polarity: variable ind_id true <=> indicator[i] is truthy;  variable mk_id true <=> marker has its idle value
        _, il, ipol = leaves[ind_id]
        base_i = il if ipol else il.neg()  # the positive-variable form
        ind_truthy_when_var_true = not (base_i.t[0] == "cmp" and base_i.t[1] == "==0")
        _, ml, mpol = leaves[mk_id]
        base_m = ml if mpol else ml.neg()
        idle_when_var_true = None
        txt = repr(base_m)
        if txt.startswith("is(") and txt.rstrip(")").endswith("None"):
            idle_when_var_true = any(isinstance(pre.get(n), NoneV) for n in svars)
        elif base_m.t[0] == "cmp":
            # sentinel idiom: evaluate the comparison at the pre-loop value of the marker
            for n in svars:
                pv = pre.get(n)
                if isinstance(pv, Num) and pv.nf is not None:
                    at = [x for x in atoms_of(base_m.t[2]).values() if x.kind == "lc" and x.args[0] == f"{lp.lid}.{n}.in"]
                    if at:
                        val = subst(base_m.t[2], {at[0].key: pv.nf}).as_const()
                        if val is not None:
                            idle_when_var_true = {"<0": val < 0, "<=0": val <= 0, "==0": val == 0, "!=0": val != 0}[base_m.t[1]]
        if idle_when_var_true is None:
            ctx.undecided(rule, "transition-table", finder.loc(), f"cannot read the start-marker test {txt[:80]}")
            return
        be = lp.info["body_env"]
        inloop = loop_events(p, lp, "list_append")
        opened = any(isinstance(be.get(n), Num) and be.get(n).nf is not None and nf_equal(be.get(n).nf, lv) for n in svars)
        effect = "close" if inloop else ("open" if opened else "none")
        for a_, b_ in itertools.product((True, False), repeat=2):
            asg = {ind_id: a_, mk_id: b_}
            if all(_eval_prop(c, asg) == v for c, v in facts):
                truthy = a_ if ind_truthy_when_var_true else (not a_)
                idle = b_ if idle_when_var_true else (not b_)
                table.setdefault((truthy, idle), set()).add(effect)
    want = {(True, True): {"open"}, (True, False): {"none"}, (False, False): {"close"}, (False, True): {"none"}}
    show = {f"ind={k[0]},{'idle' if k[1] else 'run open'}": sorted(v) for k, v in sorted(table.items())}
    ctx.check(table == want, rule, "transition-table", finder.loc(), "open iff (indicator[i] and no run is open); close iff (not indicator[i] and a run is open); otherwise nothing changes", found=show, expected="ind=True,idle: open | ind=True,run open: none | ind=False,run open: close | ind=False,idle: none")


def _name_summary(tag, nout=1):
    def h(ex, func, args, kwargs, so, node):
        from .common import bind_call

        b = bind_call(ex, func, args, kwargs)
        ex.emit("helper_call", node, helper=tag, bound=b)
        if tag == "extract":
            ex.list_counter += 1
            r = ListV([], opaque=True, lid=ex.list_counter)
            r.role = "peaks"
            return r
        return ex.mk("driver_out", tag, 0, shape=(N,), dtype="float")

    return h


def _fmt_summary(ex, func, args, kwargs, so, node):
    ex.emit("format_call", node, owner=func.cls.name if func.cls else getattr(getattr(func, "owner_cls", None), "name", None), args=args, kwargs=kwargs)
    return OpaqueV("formatted", {"kind": "frame"})


def check_wiring(ctx, cls, drv, ext):
    rule = "C08.d WIRING"
    summ = dict(ABSTRACT_SUMMARIES)
    summ[drv.qualname] = _name_summary("transform")
    if ext is not None:
        summ[ext.qualname] = _name_summary("extract")
    for c in ctx.P.classes.values():
        if "_format_sparse_output" in c.methods:
            summ[c.methods["_format_sparse_output"].qualname] = _fmt_summary
    ex = new_executor(ctx, summ)

    def thunk(ex):
        kw = symbolic_hyperparams(ex, ctx.P, cls, {"change_score": lambda ex: abstract_scorer(ex, ctx.P, BCS, "score", width=3)})
        obj = ex.new_object(cls, [], kw)
        obj.fields["_is_fitted"] = Num(None, (), "bool", cond=Cond.const(True))
        obj.fields["threshold_"] = Num(sym("threshold_"), (), "float")
        return call_method(ex, obj, "predict", frame_sym(ex))

    paths = run(ctx, ex, thunk)
    good = returns(paths)
    if not good:
        ctx.undecided(rule, "predict", cls.module.relpath, "predict never returns", found=[(p.outcome, p.exc.exc_name if p.exc else "") for p in paths])
        return
    p = good[0]
    hc = {e.data["helper"]: e for e in p.events if e.kind == "helper_call"}
    t = hc.get("transform")
    if t is None:
        ctx.violation(rule, "transform", cls.module.relpath, "predict does not run the moving-window transform")
        return
    b = t.data["bound"]
    okb = any(isinstance(v, Num) and v.nf is not None and nf_equal(v.nf, sym("bandwidth")) for v in b.values()) and any(valkey(v) == "obj:score" for v in b.values()) and any(isinstance(v, Num) and v.nf is not None and nf_equal(v.nf, sym("X")) and v.pytype == "ndarray" for v in b.values())
    ctx.check(okb, rule, "transform-arguments", t.loc(), "the transform receives X.values, the detector's change score and its bandwidth", found={k: valkey(v) for k, v in b.items()})
    x = hc.get("extract")
    if x is None:
        ctx.violation(rule, "extract", cls.module.relpath, "predict does not run the changepoint extraction")
        return
    bx = dict(x.data["bound"])
    # a small record (NamedTuple) that bundles arguments counts as its named fields
    for k_, v_ in list(bx.items()):
        if isinstance(v_, TupleV) and getattr(v_, "names", None):
            for nm_, it_ in zip(v_.names, v_.items):
                bx[f"{k_}.{nm_}"] = it_
    vals = list(bx.values())
    ok_s = any(isinstance(v, Num) and v.nf is not None and single_atom(v.nf) is not None and single_atom(v.nf).kind == "app" and single_atom(v.nf).args[0] == "driver_out" for v in vals)
    ok_t = any(isinstance(v, Num) and v.nf is not None and nf_equal(v.nf, sym("threshold_")) for k, v in bx.items() if "threshold" in k)
    ok_m = any(isinstance(v, Num) and v.nf is not None and nf_equal(v.nf, sym("min_detection_interval")) for k, v in bx.items() if "interval" in k or "min" in k)
    ctx.check(ok_s and ok_t and ok_m, rule, "extract-arguments", x.loc(), "the extraction receives the transform's scores, the fitted threshold_ and min_detection_interval in their own roles", found={k: valkey(v)[:60] for k, v in bx.items()})
    fm = [e for e in p.events if e.kind == "format_call"]
    ok_f = len(fm) == 1 and fm[0].data["owner"] == "ChangeDetector" and fm[0].data["args"] and getattr(fm[0].data["args"][0], "role", None) == "peaks"
    ctx.check(ok_f, rule, "formatter", fm[0].loc() if fm else cls.module.relpath, "the extracted peaks reach ChangeDetector's formatter unmodified", found=repr(fm[0].data["args"]) if fm else "no formatter call")
    # the published dense scores carry the argument's index
    ser = [e for e in p.events if e.kind == "pandas_ctor" and e.data["which"] == "series"]
    ok_idx = False
    for e in ser:
        ia = e.data.get("index")
        if isinstance(ia, Num) and ia.nf is not None and nf_equal(ia.nf, app("index", sym("X"))):
            ok_idx = True
    ctx.check(ok_idx, rule, "scores-index", ser[0].loc() if ser else cls.module.relpath, "the dense scores are published with the index of the current input", found=[valkey(e.data.get("index")) for e in ser])
