"""C09 - circular binary segmentation reports greedy disjoint above-threshold anomalies."""

from __future__ import annotations

import ast

from ..affine import Lin, entails, facts_of_path, from_cond
from ..index import FuncInfo
from ..nf import NF, Atom, Undecided, app, atoms_of, evalnf, lift, nf_equal, single_atom, subst, sym
from ..values import NONE, Cond, ListV, NoneV, Num, ObjV, OpaqueV, SliceV, StrV, TupleV, valkey
from .c02 import find_driver_call
from .c07 import _arrsub, _strip, loop_cond_strict, check_driver, check_generator, check_selector, check_wiring, discover_helpers, lin_set, seeded_driver_checks
from .common import ABSTRACT_SUMMARIES, N, Pdim, flatten, new_executor, returns, run
from .dp import arr_of, loop_events, main_loop

EXPLANATION = (
    "Static decision for every input and local anomaly score (uninterpreted evaluate): (a) INNER-DOMAIN - the iteration domain of "
    "the inner-interval generator {(i, j)} (two ranges and a guard) equals {start < i, j < end, j - i >= m, (i-start)+(end-j) >= m}, "
    "both inclusions by affine implication; (b) ARGMAX-INNER - each candidate interval is scored on the cuts (start, i, j, end), the "
    "stored score is the column-summed score at its argmax and the reported inner interval is (I[argmax], J[argmax]) with the same "
    "argmax; the score is fitted on the current X first; (c) GREEDY-MASK - selection works on a copy, loops while any(score > "
    "threshold), takes the inner interval of the best remaining candidate, zeroes exactly the candidates that overlap it "
    "(a_end > start and a_start < end) and returns the sorted list; (d) OUT-WRITTEN - every zero-allocated table that the driver "
    "returns (and predict publishes) is written inside the per-interval loop; (e) NONEMPTY - np.argmax never receives an empty "
    "candidate vector: an emptiness test dominates it, or every interval of length >= 2m provably has an inner candidate for all "
    "m >= 1; plus the shared interval generator's non-emptiness (C07.b) and the wiring between detector, driver and formatter. "
    "NOT decided: the greedy loop's invariant, the real-arithmetic part of the seeded-interval grid."
)
# obligations added during the build phase (seeding rounds, twins, mutation analysis)
ADDED_IN_BUILD = ' Also: generator arguments bound by name (none left to a default); loop bounds with min / max and negated extrema are split into affine cases. zeroing (F-30) as in C07.'
ADDED_IN_ROUND_9 = " Round 9: loop-condition as in C07 (three spellings of 'some remaining score is strictly above the threshold', test at the top or in the middle of the body)."
EXPLANATION = EXPLANATION + ADDED_IN_BUILD + ADDED_IN_ROUND_9

ASSUMPTIONS = [
    "Python's ast module and evaluation-order/argument-binding semantics as implemented in skverif/symex.py",
    "library model table skverif/models.py",
    "preconditions established by the constructor and check_data (verified under C14): n >= 2m, max_interval_length >= 2m, 1 < growth_factor <= 2, m >= 1",
    "user local anomaly scores are uninterpreted functions of (object, fitted data, cuts)",
]
BLAS = "skchange.anomaly_scores.base.BaseLocalAnomalyScore"
DET = ("skchange.anomaly_detectors", "CircularBinarySegmentation")


def check(ctx):
    from .c10 import shared_no_stale

    shared_no_stale(ctx, "C09.f WIRING", [("skchange.anomaly_detectors", "CircularBinarySegmentation")])
    cls = ctx.P.public_class(*DET)
    pred = ctx.P.lookup_method(cls, "_predict")
    cands = find_driver_call(ctx, pred)
    if len(cands) != 1:
        ctx.undecided("C09 DRIVER", "CircularBinarySegmentation._predict", pred.loc(), f"expected one driver call receiving the anomaly score, found {len(cands)}")
        return
    call, drv = cands[0]
    gen, sel = discover_helpers(ctx, drv)
    inner = discover_inner(ctx, drv)
    if gen is None or sel is None or inner is None:
        ctx.undecided("C09 DRIVER", drv.qualname, drv.loc(), "could not identify the interval generator / inner-interval generator / greedy selector")
        return
    ctx.guard("C09.a INNER-DOMAIN", inner.qualname, lambda: check_inner(ctx, inner), inner.loc())
    ctx.guard("C09.b ARGMAX-INNER", drv.qualname, lambda: check_driver_c09(ctx, drv, gen, sel, inner), drv.loc())
    ctx.guard("C09.e NONEMPTY", gen.qualname, lambda: check_generator(ctx, gen, "C09"), gen.loc())
    ctx.guard("C09.c GREEDY-MASK", sel.qualname, lambda: check_selector_c09(ctx, sel), sel.loc())
    ctx.guard("C09.f WIRING", "CircularBinarySegmentation", lambda: check_wiring(ctx, cls, drv, "anomaly_score", BLAS, 4, "C09", "CollectiveAnomalyDetector"), pred.loc())
    ctx.guard("C09.f WIRING", "published-scores", lambda: check_published(ctx, cls, drv), pred.loc())
    ctx.expect_min("C09", len([o for o in ctx.obs if o.status == "HOLDS"]), 25)


def discover_inner(ctx, drv):
    """the inner-interval generator: the repo function whose pair of results is unpacked inside the interval loop"""
    from .c07 import _unpack_calls

    for st, r, in_loop in _unpack_calls(ctx, drv):
        if in_loop:
            return r
    return None


# --------------------------------------------------------------- INNER-DOMAIN


def check_inner(ctx, inner: FuncInfo):
    rule = "C09.a INNER-DOMAIN"
    ex = new_executor(ctx)
    S, E, m = sym("start"), sym("end"), sym("m")

    def thunk(ex):
        args = {}
        for p in inner.params:
            if "start" in p:
                args[p] = Num(S, (), "int")
            elif "end" in p:
                args[p] = Num(E, (), "int")
            elif "min" in p:
                args[p] = Num(m, (), "int")
            else:
                raise Undecided(f"parameter {p} of the inner-interval generator has no recognised role")
        return ex.call_function(inner, [], args, None, None)

    paths = run(ctx, ex, thunk)
    rets = returns(paths)
    if not rets:
        ctx.violation(rule, inner.qualname, inner.loc(), "never returns")
        return
    hit = None
    for p in rets:
        apps = [e for e in p.events if e.kind == "list_append"]
        if len(apps) == 2:
            hit = (p, apps)
    if hit is None:
        ctx.violation(rule, "append", inner.loc(), "no path records a candidate (i, j)")
        return
    p, apps = hit
    loops = apps[0].loops
    if len(loops) != 2 or any(l.info.get("range") is None for l in loops):
        ctx.undecided(rule, "loops", inner.loc(), "candidates are not generated by two nested range loops")
        return
    i, j = sym("i"), sym("j")
    lvi, lvj = Atom("lv", loops[0].lid), Atom("lv", loops[1].lid)
    ren = {lvi.key: i, lvj.key: j}
    cons = []
    for l, v in ((loops[0], i), (loops[1], j)):
        lo, hi, st = l.info["range"]
        if st.as_const() != 1:
            ctx.undecided(rule, "loops", inner.loc(), "non-unit step")
            return
        from ..affine import range_constraints

        rc = range_constraints(v, subst(lo, ren), subst(hi, ren))
        if rc is None:
            ctx.undecided(rule, "loops", inner.loc(), f"loop bounds outside the affine fragment (with min / max): range({lo!r}, {hi!r})")
            return
        cons.extend(rc)
    guard_facts = []
    for c, v in apps[0].facts:
        from ..values import Cond as _C

        c2 = _subcond(c, ren)
        r = from_cond(c2, v, True)
        if r is None:
            ctx.undecided(rule, "guard", inner.loc(), f"guard {c!r} outside the affine fragment")
            return
        guard_facts += r
    code = cons + guard_facts
    spec = [Lin.of(i - S - 1), Lin.of(E - 1 - j), Lin.of(j - i - m), Lin.of((i - S) + (E - j) - m)]
    names = ["start < i", "j < end", "j - i >= m (inner length)", "(i - start) + (end - j) >= m (surrounding samples)"]
    for sp, nm in zip(spec, names):
        ctx.check(entails(code, sp), rule, f"code=>spec|{nm}", apps[0].loc(), f"every generated candidate satisfies {nm}", found=[repr(c) for c in code], expected=nm)
    for k, c in enumerate(code):
        ctx.check(entails(spec, c), rule, f"spec=>code|{k}", inner.loc(), "no admissible candidate is excluded by the loop bounds or the guard", found=repr(c), expected="implied by the four defining constraints")
    # what is recorded
    v0, v1 = apps[0].data["value"], apps[1].data["value"]
    ok = isinstance(v0, Num) and isinstance(v1, Num) and nf_equal(subst(v0.nf, ren), i) and nf_equal(subst(v1.nf, ren), j)
    out = p.value
    ok_out = isinstance(out, TupleV) and len(out.items) == 2 and out.items[0].meta.get("from_list") is apps[0].data["lst"] and out.items[1].meta.get("from_list") is apps[1].data["lst"]
    ctx.check(ok and ok_out, rule, "recorded", apps[0].loc(), "the candidate is recorded as (i, j): inner start in the first output, inner end in the second", found=f"{v0!r}, {v1!r}")


def _subcond(c: Cond, ren):
    t = c.t
    if t[0] == "cmp":
        return Cond("cmp", t[1], subst(t[2], ren))
    if t[0] in ("and", "or"):
        return Cond(t[0], _subcond(t[1], ren), _subcond(t[2], ren))
    if t[0] == "not":
        return Cond("not", _subcond(t[1], ren))
    return c


# ------------------------------------------------------------------- driver


def _inner_summary(ex, func, args, kwargs, so, node):
    names = func.params
    b = {}
    for k, a in enumerate(args):
        b[names[k]] = a
    b.update(kwargs)
    ex.emit("inner_call", node, bound=b)
    c = sym("c")
    return TupleV([ex.mk("cand_starts", shape=(c,), dtype="int"), ex.mk("cand_ends", shape=(c,), dtype="int")])


def check_driver_c09(ctx, drv, gen, sel, inner):
    from .c07 import _gen_summary, _sel_summary
    from .common import abstract_scorer, data_sym

    rule = "C09.b ARGMAX-INNER"
    summ = dict(ABSTRACT_SUMMARIES)
    summ[gen.qualname] = _gen_summary
    summ[sel.qualname] = _sel_summary
    summ[inner.qualname] = _inner_summary
    ex = new_executor(ctx, summ)
    m = sym("m")
    n = lift(N)

    def thunk(ex):
        args = {}
        for p in drv.params:
            if p == "X":
                args[p] = data_sym(ex)
            elif "score" in p:
                args[p] = abstract_scorer(ex, ctx.P, BLAS, "score", width=4)
            elif p == "threshold":
                args[p] = Num(sym("threshold"), (), "float")
            elif "min_segment_length" in p:
                args[p] = Num(m, (), "int")
            elif "max_interval_length" in p:
                args[p] = Num(sym("max_interval_length"), (), "int")
            elif "growth" in p:
                args[p] = Num(sym("growth_factor"), (), "float")
            else:
                raise Undecided(f"driver parameter {p} has no recognised role")
        return ex.call_function(drv, [], args, None, None)

    paths = run(ctx, ex, thunk)
    rets = returns(paths)
    if not rets:
        ctx.violation(rule, drv.qualname, drv.loc(), "the driver never returns", found=[p.exc.exc_name for p in paths if p.exc])
        return
    # the path on which the interval is scored
    scored = [p for p in rets if any(e.kind == "scorer_evaluate" and e.loops for e in p.events)]
    if not scored:
        ctx.violation(rule, drv.qualname, drv.loc(), "no path scores an interval")
        return
    q = seeded_driver_checks(ctx, ex, paths, scored, m, n, drv, "C09")
    if q is None:
        return
    p, loop, lv, S, E, e = q
    CS, CE = app("cand_starts"), app("cand_ends")
    ic = [x for x in p.events if x.kind == "inner_call"]
    if ic:
        b = list(ic[0].data["bound"].values())
        ok = len(b) == 3 and nf_equal(b[0].nf, S) and nf_equal(b[1].nf, E) and nf_equal(b[2].nf, m)
        ctx.check(ok, "C09.f WIRING", "inner-arguments", ic[0].loc(), "inner candidates are generated for the interval's own (start, end) and min_segment_length", found=[valkey(x)[:50] for x in b])
    ca = single_atom(e.data["cuts"].nf)
    if ca is None or ca.args[0] != "colstack" or len(ca.args[1]) != 4:
        ctx.violation(rule, "cuts", e.loc(), "the score is not evaluated on (outer start, inner start, inner end, outer end) cuts", found=repr(e.data["cuts"]))
        return
    c0, c1, c2, c3 = ca.args[1]
    ok = nf_equal(c0, S) and nf_equal(c1, CS) and nf_equal(c2, CE) and nf_equal(c3, E)
    ctx.check(ok, rule, "cuts", e.loc(), "cuts are (start, I, J, end) column-wise with the generated inner candidates", found=f"({c0!r}, {c1!r}, {c2!r}, {c3!r})", expected="(start, cand_starts, cand_ends, end)")
    agg = app("sum", NF.atom(single_atom(e.data["result"].nf)), 1)
    am = app("argmax", agg)
    stores = loop_events(p, loop, "store")
    want = {"score": app("idx", agg, (("at", am),)), "inner-start": app("idx", CS, (("at", am),)), "inner-end": app("idx", CE, (("at", am),))}
    found_roles = {}
    for s in stores:
        v = s.data["value"]
        if not isinstance(v, Num):
            continue
        for r, w in want.items():
            if nf_equal(v.nf, w):
                found_roles.setdefault(r, []).append(s)
    ctx.check("score" in found_roles and all(nf_equal(s.data["index"][0].nf, lv) for s in found_roles.get("score", [])), rule, "score", e.loc(), "the candidate interval's score is the column-summed anomaly score at its own argmax, stored at the interval's row", found=[repr(s.data["value"])[:100] for s in stores])
    ctx.check("inner-start" in found_roles and "inner-end" in found_roles, "C09.b IDX-GATHER", "inner-interval", e.loc(), "the reported inner interval is (I[argmax], J[argmax]): a gather on both candidate arrays with the same argmax", found=[repr(s.data["value"])[:100] for s in stores if s not in found_roles.get("score", [])], expected=f"{want['inner-start']!r}, {want['inner-end']!r}")
    # the two-column table of maximisers: inner start in column 0, inner end in column 1, both at the interval's row
    for r, col in (("inner-start", 0), ("inner-end", 1)):
        for s_ in found_roles.get(r, []):
            ix = s_.data["index"]
            if len(ix) == 2:
                okc = isinstance(ix[0], Num) and nf_equal(ix[0].nf, lv) and isinstance(ix[1], Num) and ix[1].nf.as_const() == col
                ctx.check(okc, "C09.d OUT-WRITTEN", f"maximizers|{r}", s_.loc(), f"the published maximiser table holds the {r.replace('-', ' ')} in column {col} of the interval's row", found=f"[{valkey(ix[0])}, {valkey(ix[1])}]", expected=f"[i, {col}]")
            elif len(ix) == 1:
                ctx.check(isinstance(ix[0], Num) and nf_equal(ix[0].nf, lv), "C09.b IDX-GATHER", f"{r}|row", s_.loc(), f"the {r.replace('-', ' ')} is stored at the interval's own row", found=valkey(ix[0]), expected="i")
    odd = [s for s in stores if not any(s in v for v in found_roles.values())]
    for s in odd:
        ctx.violation("C09.b IDX-GATHER", "stray-store", s.loc(), "a per-interval table receives a value that is neither the maximal score nor the maximising inner interval", found=repr(s.data["value"])[:200])
    # ------------------------------------------------------------ NONEMPTY
    rule_ne = "C09.e NONEMPTY"
    size = sym("c")
    guard = None
    for c, v in p.facts:
        if c.t[0] == "cmp" and any(a.kind == "sym" and a.args[0] == "c" for a in atoms_of(c.t[2]).values()):
            guard = (c, v)
    ae = [x for x in p.events if x.kind == "argext" and loop in x.loops]
    if guard is not None:
        c, v = guard
        r = from_cond(c, v, True) or []
        okg = entails(r + [Lin.of(size)], Lin.of(size - 1))
        if not okg and c.t[1] == "==0" and not v and (nf_equal(c.t[2], size) or nf_equal(c.t[2], -size)):
            okg = True  # size != 0 and size >= 0  =>  size >= 1
        ctx.check(okg, rule_ne, "argmax-guarded", ae[0].loc() if ae else e.loc(), "np.argmax is reached only when the candidate set is non-empty (an emptiness test dominates it)", found=f"{c!r} is {v}")
        # the skipped path must leave the tables untouched (score stays 0, never selected)
        skipped = [x for x in rets if x is not p]
        ok_skip = all(not [s for s in x.events if s.kind == "store" and s.loops] for x in skipped)
        ctx.check(ok_skip, rule_ne, "empty-interval-skipped", drv.loc(loop.node), "an interval without inner candidates writes nothing (its score stays 0 and can never exceed a threshold >= 0)", nontrivial=False)
    else:
        # must hold for every admissible m: witness candidate (start+1, start+1+m)
        Ssym, Esym = sym("start"), sym("end")
        pre = [Lin.of(Esym - Ssym - 2 * m), Lin.of(m - 1)]
        i0, j0 = Ssym + 1, Ssym + 1 + m
        ok = entails(pre, Lin.of(Esym - 1 - j0)) and entails(pre, Lin.of((i0 - Ssym) + (Esym - j0) - m))
        ctx.check(ok, rule_ne, "argmax-operand", ae[0].loc() if ae else e.loc(), "every interval of length >= 2m has an inner candidate for every documented m >= 1 (otherwise np.argmax raises on an empty vector)", found="no emptiness test dominates np.argmax; for m = 1 an interval of length 2 has no inner interval strictly inside it", expected="an emptiness guard, or candidates for all m >= 1")
    # ---------------------------------------------------------- OUT-WRITTEN
    rv = p.value
    if isinstance(rv, TupleV):
        for k, o in enumerate(rv.items):
            a = arr_of(o) if isinstance(o, Num) else None
            if a is None or a.init[0] != "zeros":
                continue
            written = any(loop in s.loops for s in a.stores)
            ctx.check(written, "C09.d OUT-WRITTEN", f"output#{k}", drv.loc(a.node), "a zero-allocated table that is returned (and published in `scores`) is written inside the per-interval loop", found=f"{len(a.stores)} stores", expected=">= 1 store per scored interval")
    # the per-interval tables keep their INITIAL value for an interval without inner candidates (skipped): that value must
    # be 0, never above a threshold >= 0 - a table created by np.ones / np.full(.., c) would make skipped intervals win
    if isinstance(rv, TupleV):
        for k, o in enumerate(rv.items):
            a = arr_of(o) if isinstance(o, Num) else None
            if a is None or not any(loop in s_.loops for s_ in a.stores):
                continue
            z = a.init[0] == "zeros" or (a.init[0] == "fill" and isinstance(a.init[1], NF) and a.init[1].is_zero())
            ctx.check(z, "C09.d OUT-WRITTEN", f"output#{k}|initial", drv.loc(a.node), "a per-interval table starts at 0: an interval that is skipped (no admissible inner interval) reports score 0", found=f"initialised by {a.init[0]}" + (f"({a.init[1]!r})" if len(a.init) > 1 and isinstance(a.init[1], NF) else ""), expected="zeros")
    # the driver returns (selected anomalies, scores, maximisers, interval starts, interval ends) - the order _predict unpacks
    if isinstance(rv, TupleV) and all(r in found_roles for r in want):
        okr = len(rv.items) == 5
        if okr:
            okr = isinstance(rv.items[0], ListV) and getattr(rv.items[0], "role", None) == "selected"
            okr = okr and isinstance(rv.items[1], Num) and arr_of(rv.items[1]) is found_roles["score"][0].data["arr"]
            a2 = arr_of(rv.items[2]) if isinstance(rv.items[2], Num) else None
            is_table = a2 is not None and a2.shape is not None and len(a2.shape) == 2
            # or the two inner tables stacked column-wise after the loop: column_stack((inner starts, inner ends))
            m2 = rv.items[2]
            ca2 = single_atom(m2.nf) if isinstance(m2, Num) and m2.nf is not None else None
            is_stack = False
            if ca2 is not None and ca2.kind == "app" and ca2.args[0] == "colstack" and isinstance(ca2.args[1], tuple) and len(ca2.args[1]) == 2:
                ids = []
                for part in ca2.args[1]:
                    pa = single_atom(part) if isinstance(part, NF) else None
                    ids.append(pa.args[0] if pa is not None and pa.kind == "arr" else None)
                is_stack = ids[0] in [s_.data["arr"].aid for s_ in found_roles["inner-start"]] and ids[1] in [s_.data["arr"].aid for s_ in found_roles["inner-end"]]
            okr = okr and (is_table or is_stack)
            okr = okr and isinstance(rv.items[3], Num) and nf_equal(rv.items[3].nf, app("ivl_starts")) and isinstance(rv.items[4], Num) and nf_equal(rv.items[4].nf, app("ivl_ends"))
        ctx.check(okr, "C09.f WIRING", "driver-result-order", drv.loc(), "the driver returns (anomalies, scores, maximisers, interval starts, interval ends) in that order", found=[valkey(x)[:30] for x in rv.items])
    # selector gets (scores, inner starts, inner ends, starts, ends, threshold)
    sc = [x for x in p.events if x.kind == "selector_call"]
    if sc and all(r in found_roles for r in want):
        # each table reaches the selector's parameter of ITS role: the roles of the selector's parameters are read off
        # the selector itself (which parameters it records as the inner interval, which it compares them with)
        bd = sc[0].data["bound"]
        roles_sel = _selector_roles(ctx, sel) if sel is not None else None
        if roles_sel is None or len(bd) != 6:
            ctx.undecided("C09.f WIRING", "selector-arguments", sc[0].loc(), "the roles of the greedy selection's parameters could not be read off the selection", found=list(bd))
        else:
            gv = {r_: bd.get(pn_) for r_, pn_ in roles_sel.items()}
            a_of = lambda x: arr_of(x) if isinstance(x, Num) else None  # noqa: E731
            ok = a_of(gv["scores"]) is found_roles["score"][0].data["arr"] and a_of(gv["inner-start"]) in [s.data["arr"] for s in found_roles["inner-start"]] and a_of(gv["inner-end"]) in [s.data["arr"] for s in found_roles["inner-end"]] and isinstance(gv["start"], Num) and nf_equal(gv["start"].nf, app("ivl_starts")) and isinstance(gv["end"], Num) and nf_equal(gv["end"].nf, app("ivl_ends")) and isinstance(gv["threshold"], Num) and nf_equal(gv["threshold"].nf, sym("threshold"))
            ctx.check(ok, "C09.f WIRING", "selector-arguments", sc[0].loc(), "the greedy selection receives the score table, the inner starts, the inner ends, the interval starts, the interval ends and the threshold, each in its own role", found={k_: valkey(x)[:40] for k_, x in bd.items()})


# ------------------------------------------------------------------- selector


def _selector_roles(ctx, sel):
    """role -> parameter name of the greedy anomaly selection, read off its body: the working copy is made of the SCORES,
    the loop compares it with the THRESHOLD, the two parameters gathered at the argmax and recorded are the INNER start
    and end, the two the mask compares them with are the interval START and END (a_end > start, a_start < end)"""
    from .c07 import check_selector as _cs

    r = _cs(ctx, sel)
    if r is None:
        return None
    p, ex = r
    loops = main_loop(p, sel.qualname)
    if len(loops) != 1:
        return None
    lp = loops[0]
    stores = loop_events(p, lp, "store")
    apps = loop_events(p, lp, "list_append")
    if len(stores) != 1 or len(apps) != 1:
        return None
    work = stores[0].data["arr"]
    out = {}
    if work.init[0] == "copy":
        a0 = single_atom(work.init[1])
        if a0 is not None and a0.kind == "sym":
            out["scores"] = a0.args[0]
    tv = apps[0].data["value"]
    if not (isinstance(tv, TupleV) and len(tv.items) == 2 and all(isinstance(x, Num) and x.nf is not None for x in tv.items)):
        return None
    for r_, x in zip(("inner-start", "inner-end"), tv.items):
        a_ = single_atom(_strip(x.nf))
        b_ = single_atom(a_.args[1]) if a_ is not None and a_.kind == "app" and a_.args[0] == "idx" and isinstance(a_.args[1], NF) else None
        if b_ is None or b_.kind != "sym":
            return None
        out[r_] = b_.args[0]
    rest = [q for q in sel.params if q not in out.values()]
    # the mask: (inner_end > START) & (inner_start < END)
    idx = stores[0].data["index"]
    mask = idx[0].cond if len(idx) == 1 and isinstance(idx[0], Num) else None
    if mask is not None:
        for c_ in flatten(mask, "and"):
            if c_.t[0] != "cmp":
                continue
            syms = {a_.args[0] for a_ in atoms_of(c_.t[2], deep=False).values() if a_.kind == "sym" and a_.args[0] in rest}
            has_is = out["inner-start"] in repr(c_.t[2]) and out["inner-end"] not in repr(c_.t[2])
            has_ie = out["inner-end"] in repr(c_.t[2]) and out["inner-start"] not in repr(c_.t[2])
            if len(syms) == 1:
                if has_ie:
                    out["start"] = next(iter(syms))
                elif has_is:
                    out["end"] = next(iter(syms))
    rest = [q for q in rest if q not in out.values()]
    if len(rest) == 1:
        out["threshold"] = rest[0]
    if set(out) != {"scores", "inner-start", "inner-end", "start", "end", "threshold"}:
        return None
    return out


def check_selector_c09(ctx, sel):
    rule = "C09.c GREEDY-MASK"
    r = check_selector(ctx, sel)
    if r is None:
        return
    p, ex = r
    loops = main_loop(p, sel.qualname)
    if len(loops) != 1 or loops[0].kind != "while":
        ctx.undecided(rule, sel.qualname, sel.loc(), "not a single while loop")
        return
    lp = loops[0]
    forg = [e for e in p.events if e.kind in ("store_foreign", "array_mutate")]
    ctx.check(not forg, rule, "works-on-copy", forg[0].loc() if forg else sel.loc(), "the selection never writes into the caller's score table", found=[repr(e.data.get("target")) for e in forg])
    stores = loop_events(p, lp, "store")
    if len(stores) != 1:
        ctx.violation(rule, "mask-store", sel.loc(), f"{len(stores)} stores per round")
        return
    st = stores[0]
    work = st.data["arr"]
    ctx.check(work.init[0] == "copy" and nf_equal(work.init[1], sym("scores")), rule, "copy", sel.loc(work.node), "the working array is scores.copy()", found=work.init[0])
    cond = lp.info.get("cond")
    thr = sym("threshold")
    okc = loop_cond_strict(cond, work.aid, thr)
    ctx.check(okc, rule, "loop-condition", sel.loc(lp.node), "rounds continue while some remaining score exceeds the threshold (strict >)", found=repr(cond))
    apps = loop_events(p, lp, "list_append")
    am = app("argmax", sym("W"))
    rs_ = _selector_roles(ctx, sel)
    if rs_ is not None:
        names = [rs_["inner-start"], rs_["inner-end"], rs_["start"], rs_["end"]]
    else:
        names = [q for q in sel.params if q not in ("scores", "threshold")]
    a_s, a_e = None, None
    ok = False
    if len(apps) == 1 and isinstance(apps[0].data["value"], TupleV) and len(apps[0].data["value"].items) == 2:
        x, y = apps[0].data["value"].items
        if isinstance(x, Num) and isinstance(y, Num):
            xs, ys = _arrsub(_strip(x.nf), work.aid), _arrsub(_strip(y.nf), work.aid)
            ok = nf_equal(xs, app("idx", sym(names[0]), (("at", am),))) and nf_equal(ys, app("idx", sym(names[1]), (("at", am),)))
            a_s, a_e = _strip(x.nf), _strip(y.nf)
    ctx.check(ok, rule, "pick", apps[0].loc() if apps else sel.loc(), "each round takes the inner interval (start, end) of the highest-scoring remaining candidate", found=repr(apps[0].data["value"]) if apps else "no append")
    if a_s is None:
        return
    idx, val = st.data["index"], st.data["value"]
    mask = idx[0].cond if len(idx) == 1 and isinstance(idx[0], Num) else None
    want_mask = Cond.cmp(">", a_e, sym(names[2])) & Cond.cmp("<", a_s, sym(names[3]))
    got, wnt = (lin_set(mask) if mask is not None else None), lin_set(want_mask)
    ctx.check(got is not None and got == wnt, rule, "overlap-mask", st.loc(), "exactly the candidates overlapping the chosen anomaly are removed: a_end > start and a_start < end", found=repr(mask), expected=repr(want_mask))
    okz = isinstance(val, Num) and val.nf is not None and (nf_equal(val.nf, thr) or nf_equal(val.nf, -sym("inf"))) and not st.data.get("aug")
    ctx.check(okz, rule, "zeroing", st.loc(), "removed candidates get a score that can never exceed the threshold again, whatever its sign: -inf or the threshold itself (F-30: 0.0 still exceeds a tuned threshold of -1e-13 and the loop never ends)", found=repr(val))
    srt = [e for e in p.events if e.kind == "list_sort"]
    ctx.check(len(srt) == 1 and apps and srt[0].data["lst"] is apps[0].data["lst"] and p.value is apps[0].data["lst"] and not srt[0].loops, rule, "sorted-result", srt[0].loc() if srt else sel.loc(), "the collected anomalies are sorted and returned", found=repr(p.value))


# ------------------------------------------------------------ published table


def check_published(ctx, cls, drv):
    """the columns of the published `scores` frame come from the driver's outputs"""
    from .c07 import _drv_summary, _fmt_summary
    from .common import abstract_scorer, call_method, frame_sym, symbolic_hyperparams

    rule = "C09.f WIRING"
    summ = dict(ABSTRACT_SUMMARIES)
    summ[drv.qualname] = _drv_summary
    for c in ctx.P.classes.values():
        if "_format_sparse_output" in c.methods:
            summ[c.methods["_format_sparse_output"].qualname] = _fmt_summary
    ex = new_executor(ctx, summ)

    def thunk(ex):
        kw = symbolic_hyperparams(ex, ctx.P, cls, {"anomaly_score": lambda ex: abstract_scorer(ex, ctx.P, BLAS, "score", width=4)})
        obj = ex.new_object(cls, [], kw)
        obj.fields["_is_fitted"] = Num(None, (), "bool", cond=Cond.const(True))
        obj.fields["threshold_"] = Num(sym("threshold_"), (), "float")
        call_method(ex, obj, "predict", frame_sym(ex))
        return obj

    paths = run(ctx, ex, thunk)
    good = returns(paths)
    if not good:
        ctx.undecided(rule, "published", cls.module.relpath, "predict never returns")
        return
    p = good[0]
    ctor = [e for e in p.events if e.kind == "pandas_ctor" and e.data["which"] == "frame"]
    from ..values import DictV

    ok = False
    found = {}
    for e in ctor:
        d = e.data["data"]
        if isinstance(d, DictV):
            for k, v in d.items:
                if isinstance(k, StrV) and isinstance(v, Num) and v.nf is not None:
                    found[k.s] = repr(v.nf)[:80]
            outs = {}
            for k, v in d.items:
                if isinstance(k, StrV) and isinstance(v, Num) and v.nf is not None:
                    a = [x for x in atoms_of(v.nf).values() if x.kind == "app" and x.args[0] == "driver_out"]
                    if a:
                        outs[k.s] = a[0].args[2]
            # scores column = output 1, interval bounds = outputs 3, 4, argmax columns = output 2
            ok = outs.get("score") == 1 and outs.get("interval_start") == 3 and outs.get("interval_end") == 4 and outs.get("argmax_anomaly_start") == 2 and outs.get("argmax_anomaly_end") == 2
            # the argmax columns are columns 0 and 1 of the maximiser table
            for nm, col in (("argmax_anomaly_start", 0), ("argmax_anomaly_end", 1)):
                v = dict((k.s, v) for k, v in d.items if isinstance(k, StrV)).get(nm)
                va = single_atom(v.nf) if isinstance(v, Num) and v.nf is not None else None
                okcol = va is not None and va.kind == "app" and va.args[0] == "col" and lift(va.args[2]).as_const() == col
                ctx.check(okcol, rule, f"published-columns|{nm}", e.loc(), f"{nm} is column {col} of the maximiser table (all rows)", found=repr(v.nf)[:80] if isinstance(v, Num) and v.nf is not None else valkey(v)[:60], expected=f"maximizers[:, {col}]")
    ctx.check(ok, rule, "published-columns", ctor[0].loc() if ctor else cls.module.relpath, "the published scores table takes score, interval bounds and argmax columns from the corresponding driver outputs", found=found)
