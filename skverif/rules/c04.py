"""C04 - detections are well-formed and respect the configured length limits."""

from __future__ import annotations

import ast

from ..nf import NF, Atom, Undecided, app, atoms_of, lift, nf_equal, single_atom, sym
from ..values import NONE, Cond, DictV, ListV, NoneV, Num, ObjV, OpaqueV, StrV, TupleV, valkey
from .c02 import find_driver_call
from .common import ABSTRACT_SUMMARIES, N, Pdim, call_method, frame_sym, new_executor, norm_src, returns, run, symbolic_hyperparams

EXPLANATION = (
    "Static decision of the structural causes of well-formed output, for every input: (a) FMT-POSTDOM - every returning path of "
    "every registered detector's _predict returns the value of its own type's _format_sparse_output; the three formatters build a "
    "frame with the default RangeIndex (no index=), `ilocs` as int64 resp. IntervalIndex.from_tuples(int pairs, closed=closed) with "
    "default 'left', labels RangeIndex(1, len+1), icolumns one int64 array per anomaly; (b) IVL-WF - every (lo, hi) that can reach "
    "an anomaly formatter has hi - lo >= 1 under its branch condition (CAPA/MVCAPA backtracking: collective >= 2, point == 1, "
    "resuming before the start so anomalies are disjoint; circular binseg inner candidates j >= i + m strictly inside; anomaliser "
    "(first, last + 1)); (c) RANGE - search loops visit exactly the admissible positions (seeded binseg splits in [start+m, end-m], "
    "moving window positions [b, n-b] with the peak inside its run, PELT's newest start t+1-m, CAPA's newest start t+1-m and the "
    "maximum-length rule s >= t+2-max, seeded intervals clipped to [0, n]); (d) SORTED - the list reaching the formatter is "
    "sorted(...) / .sort()-ed (CAPA, MVCAPA, both binary segmentations) or produced by a left-to-right scan (moving window) or the "
    "reversed backtrack (PELT); (e) ICOLS-PROV - MVCAPA's columns are a non-empty prefix order[: argmax+1] of an argsort "
    "permutation. These rules are shared with C02/C03/C07/C08/C09/C16/C17 and re-evaluated here. NOT decided: that greedy selection "
    "leaves changepoints >= m apart / anomalies disjoint (invariant of a data-dependent loop; the masks implementing it are "
    "decided), strict monotonicity of PELT's backtrack (follows from the start set)."
)
# obligations added during the build phase (seeding rounds, twins, mutation analysis)
ADDED_IN_BUILD = " Also: the bindings of the length limits and driver arguments (C02.g, C03.i lengths, C07.e, C08.d, C09.f) and C17's position-order / per-group / no-merging obligations are shared: the limits the detections must respect are the configured ones only if they reach the driver. threshold-nonnegative (F-28): MovingWindow's default threshold is a maximum with a non-negative constant; its tuned twin is the known finding F-29."
ADDED_IN_ROUND_9 = " Round 9: FMT-POSTDOM accepts the formatter call made by a helper or base-class converter _predict delegates to (the value handed back must be the expected formatter's output); C03.e positional-drop is shared."
EXPLANATION = EXPLANATION + ADDED_IN_BUILD + ADDED_IN_ROUND_9

ASSUMPTIONS = [
    "Python's ast module and evaluation-order/argument-binding semantics as implemented in skverif/symex.py",
    "library model table skverif/models.py (pd.DataFrame without index= gets a RangeIndex; IntervalIndex.from_tuples; np.argsort is a permutation)",
]
CD, AD = "skchange.change_detectors", "skchange.anomaly_detectors"
EXPECT_FMT = {
    "MovingWindow": "ChangeDetector", "PELT": "ChangeDetector", "SeededBinarySegmentation": "ChangeDetector",
    "CAPA": "CollectiveAnomalyDetector", "CircularBinarySegmentation": "CollectiveAnomalyDetector",
    "StatThresholdAnomaliser": "CollectiveAnomalyDetector", "MVCAPA": "SubsetCollectiveAnomalyDetector",
}


def check(ctx):
    dets = ctx.P.registry(CD, "CHANGE_DETECTORS") + ctx.P.registry(AD, "ANOMALY_DETECTORS")
    for cls in dets:
        if cls.name not in EXPECT_FMT:
            ctx.undecided("C04.a FMT-POSTDOM", cls.name, cls.module.relpath, "registered detector without a line in the formatter table (unspecified instance)")
            continue
        ctx.guard("C04.a FMT-POSTDOM", cls.name, lambda cls=cls: check_postdom(ctx, cls), cls.module.relpath)
    for q in ("skchange.change_detectors.base.ChangeDetector", "skchange.anomaly_detectors.base.CollectiveAnomalyDetector", "skchange.anomaly_detectors.base.SubsetCollectiveAnomalyDetector"):
        ctx.guard("C04.a FORMATTER", q.split(".")[-1], lambda q=q: check_formatter(ctx, ctx.P.cls(q)))
    shared(ctx)
    ctx.guard("C04.c RANGE", "MovingWindow|threshold-nonnegative", lambda: mw_threshold_nonnegative(ctx))
    ctx.guard("C04.c RANGE", "MovingWindow|threshold-nonnegative|tuned", lambda: mw_tuned_threshold_nonnegative(ctx))
    ctx.expect_min("C04.a FMT-POSTDOM", sum(1 for o in ctx.obs if o.rule == "C04.a FMT-POSTDOM" and o.status == "HOLDS"), 7)
    ctx.expect_min("C04", len([o for o in ctx.obs if o.status == "HOLDS"]), 40)


def check_postdom(ctx, cls):
    rule = "C04.a FMT-POSTDOM"
    from .c11 import _summaries, make_detector

    ex = new_executor(ctx, _summaries(ctx, cls), max_paths=400)

    def thunk(ex):
        obj = make_detector(ex, ctx, cls)
        call_method(ex, obj, "fit", frame_sym(ex, "Xtrain"))
        return call_method(ex, obj, "predict", frame_sym(ex, "X"))

    paths = run(ctx, ex, thunk)
    good = returns(paths)
    pred = ctx.P.lookup_method(cls, "_predict")
    if not good:
        ctx.undecided(rule, cls.name, pred.loc(), "predict never returns in the scenario", found=[(p.outcome, p.exc.exc_name if p.exc else "") for p in paths][:4])
        return
    bad = []
    for p in good:
        # the formatter call that produced the returned value: made by _predict itself or by a helper / converter of a
        # base class that _predict delegates to (e.g. CollectiveAnomalyDetector.dense_to_sparse) - what counts is that the
        # value predict hands back is the output of the expected formatter
        fm = [e for e in p.events if e.kind == "format_call"]
        if not (isinstance(p.value, OpaqueV) and p.value.key == "formatted" and fm and fm[-1].data["owner"] == EXPECT_FMT[cls.name]):
            bad.append((repr(p.value)[:60], [e.data["owner"] for e in fm]))
    ctx.check(not bad, rule, cls.name, pred.loc(), f"every returning path of _predict ({len(good)}) returns {EXPECT_FMT[cls.name]}._format_sparse_output(...)", found=bad[:2] or "formatter output on all paths", expected=EXPECT_FMT[cls.name])


def check_formatter(ctx, cls):
    rule = "C04.a FORMATTER"
    f = cls.methods.get("_format_sparse_output")
    if f is None:
        ctx.undecided(rule, cls.name, cls.module.relpath, "formatter not found")
        return
    ex = new_executor(ctx, max_paths=20)
    st = {}

    def thunk(ex):
        ex.list_counter += 1
        if cls.name == "ChangeDetector":
            arg = ListV([], opaque=True, lid=ex.list_counter)
            arg.numeric = True
        elif cls.name == "CollectiveAnomalyDetector":
            arg = ListV([], opaque=True, lid=ex.list_counter, elem=TupleV([Num(sym("lo"), (), "int"), Num(sym("hi"), (), "int")]))
        else:
            arg = ListV([], opaque=True, lid=ex.list_counter, elem=TupleV([Num(sym("lo"), (), "int"), Num(sym("hi"), (), "int"), Num(sym("cols"), (sym("c"),), "int")]))
        st["arg"] = arg
        return ex.call_function(f, [arg], {}, None, None)

    paths = run(ctx, ex, thunk)
    rets = returns(paths)
    if not rets:
        ctx.undecided(rule, cls.name, f.loc(), f"no returning path through the formatter ({len(paths)} paths)")
        return
    for k, p in enumerate(rets):
        _formatter_path(ctx, cls, f, ex, st, p, "" if len(rets) == 1 else f"#{k}")


def _formatter_path(ctx, cls, f, ex, st, p, sfx):
    rule = "C04.a FORMATTER"
    ctor = [e for e in p.events if e.kind == "pandas_ctor" and e.func is not None and e.func.qualname == f.qualname]
    if len(ctor) != 1 or ctor[0].data["which"] != "frame":
        ctx.violation(rule, cls.name + sfx, f.loc(), "the formatter does not build exactly one DataFrame", found=[e.data["which"] for e in ctor])
        return
    e = ctor[0]
    ctx.check(e.data.get("index") is None, rule, f"{cls.name}|range-index{sfx}", e.loc(), "the sparse output has the default 0..K-1 RangeIndex (no index= is passed)", found=valkey(e.data.get("index")))
    kw = e.data["kwargs"]
    if cls.name == "ChangeDetector":
        cols = kw.get("columns")
        okc = isinstance(cols, ListV) and len(cols.items) == 1 and isinstance(cols.items[0], StrV) and cols.items[0].s == "ilocs"
        dt = kw.get("dtype")
        okd = isinstance(dt, StrV) and dt.s == "int64"
        okdata = e.data["data"] is st["arg"] or (isinstance(e.data["data"], ListV) and e.data["data"].lid == st["arg"].lid)
        ctx.check(okc and okd and okdata, rule, f"ChangeDetector|frame{sfx}", e.loc(), "one column `ilocs` of dtype int64 holding the changepoints as given", found={"columns": valkey(cols), "dtype": valkey(dt)})
        return
    d = e.data["data"]
    if not isinstance(d, DictV):
        ctx.violation(rule, f"{cls.name}|frame{sfx}", e.loc(), "the anomaly frame is not built from named columns", found=repr(d)[:100])
        return
    cols = {k.s: v for k, v in d.items if isinstance(k, StrV)}
    want_cols = ["ilocs", "labels"] + (["icolumns"] if cls.name.startswith("Subset") else [])
    ctx.check(list(cols) == want_cols, rule, f"{cls.name}|columns{sfx}", e.loc(), f"columns {want_cols}", found=list(cols))
    il = cols.get("ilocs")
    okil = isinstance(il, OpaqueV) and il.meta.get("kind") == "intervalindex"
    closed_ok = False
    pairs_ok = False
    if okil:
        ck = il.meta["kwargs"].get("closed")
        closed_ok = ck is not None and ck is p_arg(f, ex, "closed", p)
        a0 = il.meta["args"][0] if il.meta["args"] else None
        comp = getattr(a0, "comp", None)
        if comp is not None:
            el = comp["elem"]
            pairs_ok = isinstance(el, TupleV) and len(el.items) == 2 and all(isinstance(x, Num) and x.dtype == "int" for x in el.items) and nf_equal(el.items[0].nf, sym("lo")) and nf_equal(el.items[1].nf, sym("hi")) and not comp["conds"]
    ctx.check(okil and pairs_ok, rule, f"{cls.name}|intervals{sfx}", e.loc(), "ilocs = IntervalIndex.from_tuples([(int(start), int(end)) for every anomaly]) - one interval per anomaly, none dropped", found=valkey(il)[:120])
    # closed defaults to "left" and is forwarded
    dflt = None
    a = f.node.args
    names = [x.arg for x in a.args]
    if "closed" in names:
        di = names.index("closed") - (len(names) - len(a.defaults))
        if di >= 0 and isinstance(a.defaults[di], ast.Constant):
            dflt = a.defaults[di].value
    ctx.check(okil and dflt == "left" and _forwards_closed(f), rule, f"{cls.name}|left-closed{sfx}", e.loc(), "intervals are left-closed by default and `closed` is forwarded to from_tuples", found=f"default {dflt!r}")
    lb = cols.get("labels")
    oklb = isinstance(lb, OpaqueV) and lb.meta.get("kind") == "rangeindex" and len(lb.meta["args"]) == 2 and isinstance(lb.meta["args"][0], Num) and lb.meta["args"][0].nf.as_const() == 1 and isinstance(lb.meta["args"][1], Num) and _is_len_plus_one(lb.meta["args"][1].nf)
    ctx.check(oklb, rule, f"{cls.name}|labels{sfx}", e.loc(), "labels = RangeIndex(1, K + 1): anomalies are numbered 1..K", found=valkey(lb)[:100])
    if "icolumns" in cols:
        ic = cols["icolumns"]
        comp = getattr(ic, "comp", None)
        okic = comp is not None and isinstance(comp["elem"], Num) and nf_equal(comp["elem"].nf, sym("cols")) and comp["elem"].dtype == "int" and not comp["conds"]
        ctx.check(okic, rule, f"{cls.name}|icolumns", e.loc(), "icolumns[i] = np.array(columns of anomaly i, dtype int64): same elements, same order", found=repr(ic)[:100])


def p_arg(f, ex, name, p):
    """the value bound to parameter `name` on path p (the default when not passed)"""
    for e in p.events:
        pass
    return _DEFAULTS.get((f.qualname, name))


_DEFAULTS = {}


def _forwards_closed(f):
    for n in ast.walk(f.node):
        if isinstance(n, ast.Call) and isinstance(n.func, ast.Attribute) and n.func.attr == "from_tuples":
            for k in n.keywords:
                if k.arg == "closed" and isinstance(k.value, ast.Name) and k.value.id == "closed":
                    return True
    return False


def _is_len_plus_one(nf):
    ats = [a for a in atoms_of(nf, deep=False).values() if a.kind == "app" and a.args[0] in ("listlen", "len")]
    return len(ats) == 1 and nf_equal(nf, NF.atom(ats[0]) + 1)


# ------------------------------------------------- rules shared with other properties

KEEP = [
    # (module, rule substring, key substrings or None)
    ("C03.g IVL-WF", None),
    ("C03.e PRUNE-FORM", ("max-length", "unknown-mask", "positional-drop")),
    ("C03.h IGNORE-POINT", None),
    ("C03.c BELLMAN", ("initial-starts",)),
    ("C02.f BACKTRACK", None),
    ("C02.c IDX-GATHER", ("back-pointer",)),
    ("C02.b BELLMAN", ("initial-starts",)),
    ("C07.a ARGMAX-SPLIT", ("cuts|splits", "cuts|outer")),
    ("C07.a IDX-GATHER", None),
    ("C07.c GREEDY-MASK", ("sorted-result", "containment-mask", "pick")),
    ("C07.d CLIP", None),
    ("C07.b NONEMPTY", ("splits",)),
    ("C08.a WINDOW-GEOM", ("splits", "scores")),
    ("C08.b PEAK-OF-RUN", ("peak", "result", "exceedance")),
    ("C09.a INNER-DOMAIN", None),
    ("C09.b IDX-GATHER", None),
    ("C09.c GREEDY-MASK", ("sorted-result", "overlap-mask", "pick")),
    ("C16.a SUBSET-NF", ("components", "record")),
    ("C17.c ONE-INTERVAL-PER-SEGMENT", ("interval", "position-order", "per-group", "no-merging")),
    # the length limits the detections must respect are the configured ones only if they reach the driver in their roles
    ("C03.i BINDING", ("lengths",)),
    ("C02.g BINDING", ("driver-arguments",)),
    ("C07.e WIRING", ("driver-arguments", "formatter")),
    ("C08.d WIRING", ("transform-arguments", "formatter")),
    ("C09.f WIRING", ("driver-arguments", "formatter")),
]


# obligations of a kept rule that say nothing about the detections' form (the published scores)
DROP = [("C02.f BACKTRACK", "prefix-scores"), ("C02.f BACKTRACK", "published-scores")]


def _wanted(o):
    if any(rule in o.rule and k in o.key for rule, k in DROP):
        return False
    for rule, keys in KEEP:
        if rule in o.rule:
            if keys is None or any(k in o.key for k in keys):
                return True
    return False


def shared(ctx):
    from . import c02, c03, c07, c08, c09, c16, c17

    tag = {"C02": "c RANGE/d SORTED", "C03": "b IVL-WF/c RANGE/d SORTED", "C07": "c RANGE/d SORTED", "C08": "c RANGE/d SORTED", "C09": "b IVL-WF/c RANGE/d SORTED", "C16": "e ICOLS-PROV", "C17": "b IVL-WF"}
    for mod in (c02, c03, c07, c08, c09, c16, c17):
        before = len(ctx.obs)
        name = mod.__name__.split(".")[-1].upper()
        mins = dict(ctx.mins)
        try:
            mod.check(ctx)
        except Undecided as u:
            ctx.undecided(f"C04 via {name}", name, "", str(u))
        ctx.mins = mins
        kept = []
        for o in ctx.obs[before:]:
            if o.status == "UNDECIDED" and o.key == "instance-count":
                continue
            if _wanted(o) or o.status == "UNDECIDED":
                o.rule = f"C04.{tag[name]} ({o.rule})"
                kept.append(o)
        ctx.obs[before:] = kept
    # PELT and CAPA: the newest admissible start leaves a segment of exactly m samples
    newest_start(ctx)


def mw_threshold_nonnegative(ctx):
    """F-28.  The moving-window scores are 0 in the b - 1 unscored positions at either end; with a NEGATIVE threshold those
    positions exceed it, the whole series becomes one run and (for constant data) position 0 is reported - outside
    [bandwidth, n - bandwidth].  The default threshold is an asymptotic formula that turns negative for levels close to
    1 (n = 2b, level = 0.999).  Obligation: every value MovingWindow.get_default_threshold returns is non-negative by
    construction (a maximum with 0, or a non-negative constant).  The tuned threshold is a quantile of the scores and is
    non-negative when they are (an assumption on the score, stated in the evidence)."""
    rule = "C04.c RANGE"
    cls = ctx.P.public_class(CD, "MovingWindow")
    f = ctx.P.lookup_method(cls, "get_default_threshold")
    if f is None:
        ctx.undecided(rule, "MovingWindow|threshold-nonnegative", cls.module.relpath, "MovingWindow.get_default_threshold not found (anchor vanished)")
        return
    from .common import new_executor, returns, run
    from ..nf import single_atom

    ex = new_executor(ctx)

    def thunk(ex):
        kw = {}
        for q in f.params:
            if q in ("self", "cls"):
                continue
            kw[q] = Num(sym(q), (), "float" if q == "level" else "int")
        return ex.call_function(f, [], kw, None, None)

    paths = run(ctx, ex, thunk)
    rets = returns(paths)
    if not rets:
        ctx.undecided(rule, "MovingWindow|threshold-nonnegative", f.loc(), "get_default_threshold never returns in the scenario")
        return
    for p in rets:
        v = p.value
        ok = False
        found = repr(v)[:160]
        if isinstance(v, Num) and v.nf is not None:
            c = v.nf.as_const()
            a = single_atom(v.nf)
            if c is not None:
                ok = c >= 0
            elif a is not None and a.kind == "max":
                ok = any(lift(x).as_const() is not None and lift(x).as_const() >= 0 for x in a.args)
        if not ok and isinstance(v, Num) and v.nf is not None and any(a_.kind in ("max", "min", "abs") or (a_.kind == "app" and a_.args and str(a_.args[0]) in ("clip", "maximum", "where", "opq")) for a_ in atoms_of(v.nf).values()):
            ctx.undecided(rule, "MovingWindow|threshold-nonnegative", f.loc(), "the default threshold goes through a clamp of a form that is not recognised: whether it is non-negative is not decided", found=found)
            continue
        if not ok and not isinstance(v, Num):
            ctx.undecided(rule, "MovingWindow|threshold-nonnegative", f.loc(), "the default threshold is the result of a call without a model", found=found)
            continue
        ctx.check(ok, rule, "MovingWindow|threshold-nonnegative", f.loc(), "the default threshold is non-negative by construction (the scores are 0 in the unscored margins: a negative threshold reports positions outside [bandwidth, n - bandwidth])", found=found, expected="max(<formula>, 0)")


def mw_tuned_threshold_nonnegative(ctx):
    """F-29 (known finding).  The TUNED threshold is the (1 - level) quantile of the training scores.  Cost-based scores
    carry rounding noise of either sign; on constant data the quantile comes out as about -1e-17, the zero-padded margins
    exceed it and position 0 is reported.  The obligation asks for what would rule that out at this site: the tuned
    threshold is non-negative by construction.  (Clamping it contradicts the letter of C15 - "the tuned threshold IS the
    quantile" - by a rounding error, the other repair restructures the extraction; neither is a small safe patch, see
    DESIGN 10.3.)"""
    rule = "C04.c RANGE"
    key = "MovingWindow|threshold-nonnegative|tuned"
    from .common import return_exprs

    cls = ctx.P.public_class(CD, "MovingWindow")
    f = ctx.P.lookup_method(cls, "_tune_threshold")
    if f is None:
        ctx.undecided(rule, key, cls.module.relpath, "MovingWindow._tune_threshold not found (anchor vanished)")
        return
    assigned = {}
    for n in ast.walk(f.node):
        if isinstance(n, ast.Assign) and len(n.targets) == 1 and isinstance(n.targets[0], ast.Name):
            assigned.setdefault(n.targets[0].id, []).append(n.value)

    def clamped(e, depth=0):
        if isinstance(e, ast.Name) and len(assigned.get(e.id, [])) == 1 and depth < 4:
            return clamped(assigned[e.id][0], depth + 1)
        if isinstance(e, ast.Call):
            fn = ast.unparse(e.func)
            if fn in ("max", "np.maximum", "numpy.maximum", "np.fmax") and any(isinstance(a, ast.Constant) and isinstance(a.value, (int, float)) and a.value >= 0 for a in e.args):
                return True
            if fn in ("float", "np.float64") and e.args:
                return clamped(e.args[0], depth + 1)
            if fn in ("np.clip", "numpy.clip") and len(e.args) >= 2 and isinstance(e.args[1], ast.Constant) and isinstance(e.args[1].value, (int, float)) and e.args[1].value >= 0:
                return True
        return False

    rets = return_exprs(f)
    if not rets:
        ctx.undecided(rule, key, f.loc(), "_tune_threshold has no return expression")
        return
    for r in rets:
        ctx.check(clamped(r), rule, key, f.loc(r), "the tuned threshold is non-negative by construction (the scores are 0 in the unscored margins: a threshold of -1e-17, the quantile of cost-based scores of constant data, reports position 0)", found=norm_src(r)[:80] + (" = " + norm_src(assigned[r.id][0])[:80] if isinstance(r, ast.Name) and len(assigned.get(r.id, [])) == 1 else ""), expected="max(np.quantile(scores, 1 - level), 0.0) - or an extraction that looks at the scored positions only")


def newest_start(ctx):
    """segments / collective anomalies are at least min_segment_length long: the start appended
    at step t is t + 1 - m"""
    rule = "C04.c RANGE"
    from .c12 import generic_driver_run
    from .c03 import _pen_summary
    from .dp import loop_events, loop_time, main_loop

    for pkg, name, fn in ((CD, "PELT", "run_pelt"), (AD, "CAPA", "run_base_capa")):
        cls = ctx.P.public_class(pkg, name)
        pred = ctx.P.lookup_method(cls, "_predict")
        cands = find_driver_call(ctx, pred)
        if len(cands) != 1:
            continue
        from .c12 import _evaluating_function

        drv = _evaluating_function(ctx, cands[0][1])
        if drv is None:
            continue

        def go(drv=drv, name=name):
            summ = {}
            for g in ctx.P.functions.values():
                if __import__("skverif.rules.c03", fromlist=["is_penaliser"]).is_penaliser(g):
                    summ[g.qualname] = _pen_summary
            ex, paths = generic_driver_run(ctx, drv, summ)
            # the driver's own parameter for the minimum length (the generic scenario names its symbols after them)
            mins = [q for q in drv.params if "min" in q and "len" in q]
            if len(mins) != 1:
                ctx.undecided(rule, f"{name}|min-length", drv.loc(), "the driver's parameter for the minimum segment length cannot be told by its name", found=drv.params)
                return
            m = sym(mins[0])
            ok_any = False
            for p in returns(paths):
                loops = main_loop(p, drv.qualname)
                if len(loops) != 1:
                    continue
                lp = loops[0]
                t, rng = loop_time(lp)
                for e in loop_events(p, lp, "scorer_evaluate"):
                    ca = single_atom(e.data["cuts"].nf)
                    if ca is None or ca.args[0] != "colstack" or len(ca.args[1]) != 2:
                        continue
                    s_col, e_col = ca.args[1]
                    sa = single_atom(s_col)
                    if sa is None or sa.kind != "app" or sa.args[0] != "concat":
                        continue
                    newest = sa.args[1][-1]
                    ok = nf_equal(e_col - newest, m)
                    ok_any = True
                    ctx.check(ok, rule, f"{name}|min-length", e.loc(), "the newest candidate start leaves a segment of exactly min_segment_length samples (end - start == m), so no reported segment / collective anomaly is shorter", found=f"end - newest start = {e_col - newest!r}", expected="min_segment_length")
                    break
                if ok_any:
                    break
            if not ok_any:
                ctx.undecided(rule, f"{name}|min-length", drv.loc(), "could not find the evaluated (starts, end) pairs with a newly appended start")

        ctx.guard(rule, f"{name}|min-length", go, drv.loc())
