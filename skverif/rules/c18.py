"""C18 - data generators are reproducible and place segments exactly where requested."""

from __future__ import annotations

import ast

from ..affine import Lin, entails, from_cond
from ..nf import NF, Atom, Undecided, app, atoms_of, lift, nf_equal, single_atom, subst, sym
from ..values import Cond, ListV, NoneV, Num, OpaqueV, RangeV, SliceV, StrV, TupleV, valkey
from .common import N, Pdim, frame_sym, new_executor, run

EXPLANATION = (
    "Static decision, for all n, p, seeds, position lists, scalar / per-column / single-number means and variances: the three "
    "generators are abstractly interpreted on symbolic arguments (lists are homogeneous symbolic lists whose i-th element is the "
    "atom at(el, i); zip over L[:-1], L[1:] yields listitem(L, i), listitem(L, i+1)). "
    "(a) SEED-FLOW - on every returning path exactly one random draw happens, it is scipy's multivariate_normal.rvs bound to "
    "(mean = zeros(p), cov = eye(p), size = n, random_state = the caller's random_state), and no other call in the module resolves "
    "into an ambient source of randomness or time (RNG-SOURCE closed world over all call sites of generate.py); "
    "(b) DRAW-SHAPE - scipy squeezes unit dimensions out of the sample, so the draw must be reshaped to (n, p) before its first "
    "use; (c) AFFINE-PLACEMENT - on every path through the segment loop the net effect of the writes to the draw (consecutive "
    "stores to the same rows are composed by substitution) is x[lo:hi] <- mean_i + sqrt(variance_i) * x[lo:hi], reading the same "
    "rows of the same draw it writes, with (lo, hi) = (L[i], L[i+1]) of L = [0] + changepoints + [n] (changing data) or the i-th "
    "(start, end) pair (anomalous data), mean_i / variance_i the i-th element of the normalised lists, and nothing else is "
    "written to the draw; (d) GUARDS - every returning path's branch facts entail (Fourier-Motzkin over the integers) "
    "len(means) = len(variances) = number of segments, 0 <= changepoint <= n-1, "
    "0 <= start < end <= n; conversely (GUARD-EXACT) no raise path is satisfiable together with the valid domain (a single or "
    "per-segment mean / variance, positions inside the data, non-empty anomalies), so consistent arguments are never rejected; "
    "every raise reachable in the generators is a ValueError; (e) FRAME - the returned value is "
    "pd.DataFrame(draw, index=range(n), columns=<p names>); (f) ALTERNATING - generate_alternating_data delegates to "
    "generate_changing_data with n = segment_length*n_segments, changepoints segment_length*i for i in range(1, n_segments), "
    "its own random_state, and mean/variance vectors that select the changed vector exactly on odd segments with n_affected = "
    "int(round(p*affected_proportion)) leading entries; (g) LINSPACE-ROWS - add_linspace_outliers computes positions "
    "np.linspace(0, <row count> - 1, n_outliers) as integers and adds outlier_size to df.iloc[positions] (rows, all columns). "
    "NOT decided: that scipy's draw for a fixed seed is deterministic (library contract), distinctness of the integer-truncated "
    "linspace positions when n_outliers exceeds the row count, disjointness of user-supplied anomalies / sortedness of "
    "changepoints (caller obligations the property does not make the generators validate)."
)
# obligations added during the build phase (seeding rounds, twins, mutation analysis)
ADDED_IN_BUILD = " Also: arguments-untouched - no in-place list operation and no numpy out= write on the caller's lists / per-segment parameters; the segment loop is decided as a zip loop or as an index loop (generic or unrolled) with the same obligations (all segments visited, lengths equal the number of segments, bounds L[i], L[i+1])."
ADDED_IN_ROUND_9 = ' Round 9 (F-32): GUARDS no-anomalies - an empty list of anomalies (anomaly-free data) with scalar / default parameters is generated on every path (n x 1 frame), not rejected and not answered with IndexError; the valid domain of GUARD-EXACT requires at least one mean.'
EXPLANATION = EXPLANATION + ADDED_IN_BUILD + ADDED_IN_ROUND_9

ASSUMPTIONS = [
    "Python's ast module and evaluation-order/argument-binding semantics as implemented in skverif/symex.py",
    "library model table skverif/models.py: multivariate_normal.rvs(mean, cov, size, random_state) is a pure function of its "
    "arguments returning squeeze((size, dim)); np.linspace/np.sqrt/np.asarray/np.eye/np.zeros; pd.DataFrame ctor",
    "a homogeneous symbolic list stands for every concrete list of that element kind (positional atoms at(el, i))",
]
MOD = "skchange.datasets.generate"
GENERATE = "skchange/datasets/generate.py"

#: call targets (resolved dotted names) that would make the output depend on anything but the arguments
AMBIENT_PREFIXES = ("numpy.random", "random.", "time.", "secrets.", "os.urandom", "uuid.", "datetime.")
SEEDED_DRAWS = {"scipy.stats.multivariate_normal.rvs"}


def check(ctx):
    ctx.guard("C18.a RNG-SOURCE", "module", lambda: check_rng_sources(ctx))
    for kind in ("vector", "scalar", "number"):
        for cps in ("list", "int"):
            ctx.guard("C18 generate_changing_data", f"{kind}/{cps}", lambda: check_generator(ctx, "generate_changing_data", kind, cps))
        for an in ("list", "tuple"):
            ctx.guard("C18 generate_anomalous_data", f"{kind}/{an}", lambda: check_generator(ctx, "generate_anomalous_data", kind, an))
    ctx.guard("C18.d GUARDS", "no-anomalies", lambda: check_no_anomalies(ctx))
    ctx.guard("C18.d GUARDS", "anomaly-pair-length", lambda: check_pair_length(ctx))
    ctx.guard("C18.f ALTERNATING", "generate_alternating_data", lambda: check_alternating(ctx))
    ctx.guard("C18.g LINSPACE-ROWS", "add_linspace_outliers", lambda: check_linspace(ctx))
    for rule, m in (("C18.a SEED-FLOW", 10), ("C18.b DRAW-SHAPE", 10), ("C18.c AFFINE-PLACEMENT", 10), ("C18.d GUARDS", 30), ("C18.e FRAME", 10), ("C18.f ALTERNATING", 5), ("C18.g LINSPACE-ROWS", 3), ("C18.a RNG-SOURCE", 4)):
        ctx.expect_min(rule, sum(1 for o in ctx.obs if o.rule == rule), m)


# ----------------------------------------------------------------------------- (a) closed world


def _target_name(P, mod, e):
    tgt = P.resolve_expr(mod, e)
    if isinstance(tgt, tuple) and tgt[0] in ("external", "module"):
        return tgt[1]
    return getattr(tgt, "qualname", None)


#: constructors of explicit generator objects: ambient only when called without a seed argument
RNG_CTORS = {"default_rng", "RandomState", "Generator", "SeedSequence", "PCG64", "MT19937", "Philox", "SFC64", "Random"}


def _is_ambient(name, call):
    last = name.rsplit(".", 1)[-1]
    in_rng = name.startswith("numpy.random.") or name.startswith("random.") or name == "random"
    if in_rng:
        if last in RNG_CTORS:
            return not call.args and not call.keywords
        return True  # module-level stateful functions: np.random.normal, np.random.seed, random.random, ...
    if any(name.startswith(p) for p in ("time.", "secrets.", "uuid.", "datetime.")) or name == "os.urandom":
        return True
    if name.endswith(".rvs") and name not in SEEDED_DRAWS:
        return True  # another scipy draw: SEED-FLOW would not see its random_state
    return False


def check_rng_sources(ctx):
    P = ctx.P
    mod = P.modules[MOD]
    n_calls = 0
    draws = []
    for fq, f in sorted(P.functions.items()):
        if f.module is not mod:
            continue
        for node in ast.walk(f.node):
            if not isinstance(node, ast.Call):
                continue
            n_calls += 1
            name = _target_name(P, mod, node.func)
            src = ast.unparse(node.func)
            if name is None:
                # method calls on local values (x.reshape, means.append, df.iloc...) carry no ambient state
                continue
            if name in SEEDED_DRAWS:
                draws.append((f, node))
                continue
            if _is_ambient(name, node):
                ctx.violation("C18.a RNG-SOURCE", f"{f.name}:{src}", f.loc(node), f"call to {name}: the output would depend on ambient random/time state, not only on the arguments and the seed")
    for f, node in draws:
        ctx.holds("C18.a RNG-SOURCE", f"{f.name}:draw", f.loc(node), "seeded draw site (its random_state binding is decided by SEED-FLOW)")
    ctx.holds("C18.a RNG-SOURCE", "closed-world", GENERATE, f"{n_calls} call sites of the module resolved; none reaches numpy.random / random / time / another rvs")
    # how many call sites there are is a matter of structure (one per generator, or one shared helper); that every
    # generated frame comes from exactly one seeded draw is decided per returning path by SEED-FLOW
    ctx.check(len(draws) >= 1, "C18.a RNG-SOURCE", "draw-sites", GENERATE, f"{len(draws)} seeded draw sites in the module", expected="at least one")
    # module-level state: a module-level RandomState/Generator would be shared between calls
    for st in mod.tree.body:
        if isinstance(st, (ast.Assign, ast.AnnAssign)) and st.value is not None:
            for node in ast.walk(st.value):
                if isinstance(node, ast.Call):
                    name = _target_name(P, mod, node.func)
                    if name and (".random" in name or name.startswith("random")):
                        ctx.violation("C18.a RNG-SOURCE", "module-state", f"{GENERATE}:{st.lineno}", f"module-level random state {name} is shared between calls")
    ctx.holds("C18.a RNG-SOURCE", "module-state", GENERATE, "no module-level random state")


# ----------------------------------------------------------------------------- scenarios


def _numlist(ex, role, elem):
    ex.list_counter += 1
    l = ListV([], opaque=True, lid=ex.list_counter, elem=elem)
    l.numeric = True
    l.role = role
    return l


def _elem(name, kind):
    if kind == "vector":
        return Num(sym(name), (Pdim,), "float")
    return Num(sym(name), (), "float", pytype="number")


def _scenario(ex, fname, kind, pos):
    """symbolic arguments; returns (args, info)"""
    n = Num(N, (), "int", pytype="number")
    rs = Num(sym("random_state"), (), "int", pytype="number")
    info = {"n": N, "rs": rs}
    ex.elem_atoms = {single_atom(sym(x)).key for x in ("means_el", "vars_el", "a0", "a1", "cp")}
    ex.unroll_zip = True
    ex.exact_list_len = True
    if kind == "number":
        means = Num(sym("mean0"), (), "float", pytype="number")
        variances = Num(sym("var0"), (), "float", pytype="number")
        info["mean_i"] = lambda i: sym("mean0")
        info["var_i"] = lambda i: sym("var0")
        info["p"] = NF.const(1)
    else:
        means = _numlist(ex, "means", _elem("means_el", kind))
        variances = _numlist(ex, "variances", _elem("vars_el", kind))
        info["mean_i"] = lambda i: app("at", sym("means_el"), i)
        info["var_i"] = lambda i: app("at", sym("vars_el"), i)
        info["p"] = lift(Pdim) if kind == "vector" else NF.const(1)
    info["means"], info["variances"] = means, variances
    if fname == "generate_changing_data":
        if pos == "list":
            cps = _numlist(ex, "changepoints", Num(sym("cp"), (), "int", pytype="number"))
        else:
            cps = Num(sym("cp"), (), "int", pytype="number")
        info["positions"] = cps
        return [n, cps, means, variances, rs], info
    pair = TupleV([Num(sym("a0"), (), "int", pytype="number"), Num(sym("a1"), (), "int", pytype="number")])
    if pos == "list":
        ex.list_counter += 1
        an = ListV([], opaque=True, lid=ex.list_counter, elem=pair)
        an.role = "anomalies"
    else:
        an = pair
    info["positions"] = an
    return [n, an, means, variances, rs], info


def _elem_constraints(facts):
    """affine constraints of a path, reading `any(c) is False` as `not c` for the generic element"""
    out = []
    for c, v in facts:
        t = c.t
        if t[0] == "any" and not v:
            r = from_cond(t[1], False)
        elif t[0] == "all" and v:
            r = from_cond(t[1], True)
        elif t[0] in ("any", "all"):
            r = None
        else:
            r = from_cond(c, v)
        if r:
            out.extend(r)
    return out


def _len_nf(ex, v):
    if isinstance(v, ListV):
        if not v.opaque:
            return NF.const(len(v.items))
        return ex.list_len(v) if hasattr(ex, "list_len") else app("listlen", v.lid, 0)
    if isinstance(v, TupleV):
        return NF.const(len(v.items))
    return None


def check_generator(ctx, fname, kind, pos):
    P = ctx.P
    f = P.func(f"{MOD}.{fname}")
    ex = new_executor(ctx, max_paths=400)
    holder = {}

    def thunk(ex):
        args, info = _scenario(ex, fname, kind, pos)
        holder["info"] = info
        return ex.call_function(f, args, {}, None, None)

    paths = run(ctx, ex, thunk)
    info = holder["info"]
    key = f"{fname}[{kind}/{pos}]"
    rets = [p for p in paths if p.outcome == "return"]
    ctx.check(len(rets) >= 1, "C18.d GUARDS", f"{key}:reachable", f.loc(), f"{len(rets)} returning paths of {len(paths)}", expected="at least one returning path")
    # every raise is a ValueError
    for p in paths:
        if p.outcome == "raise":
            nm = p.exc.exc_name
            ctx.check(nm == "ValueError", "C18.d GUARDS", f"{key}:raise-kind@{getattr(p.exc.node, 'lineno', 0)}", f.loc(p.exc.node) if p.exc.node is not None else f.loc(), f"inconsistent arguments raise {nm}", expected="ValueError", nontrivial=False)
    for k, p in enumerate(rets):
        check_return_path(ctx, ex, f, fname, key, k, p, info)
    check_guard_exact(ctx, f, fname, key, paths, info)


def check_no_anomalies(ctx):
    """An EMPTY list of anomalies is a list of anomaly positions too (anomaly-free data): with the default (scalar) mean and
    variance the generator returns the n x 1 standard-normal frame - it does not raise, and in particular not IndexError
    from reading the number of columns off a list that was replicated zero times (F-32)."""
    P = ctx.P
    fname = "generate_anomalous_data"
    f = P.func(f"{MOD}.{fname}")
    for kind in ("number", "default"):
        ex = new_executor(ctx, max_paths=100)

        def thunk(ex, kind=kind):
            n = Num(N, (), "int", pytype="number")
            rs = Num(sym("random_state"), (), "int", pytype="number")
            ex.list_counter += 1
            an = ListV([], lid=ex.list_counter)
            kw = {"n": n, "anomalies": an, "random_state": rs}
            if kind == "number":
                kw["means"] = Num(sym("mean0"), (), "float", pytype="number")
                kw["variances"] = Num(sym("var0"), (), "float", pytype="number")
            return ex.call_function(f, [], kw, None, None)

        paths = run(ctx, ex, thunk)
        key = f"{fname}[{kind}/empty-list]"
        bad = [p for p in paths if p.outcome != "return"]
        loc = f.loc(bad[0].exc.node) if bad and bad[0].exc is not None and bad[0].exc.node is not None else f.loc()
        ctx.check(bool(paths) and not bad, "C18.d GUARDS", f"{key}:runs", loc, "an empty list of anomalies (anomaly-free data) with a scalar mean and variance is generated, not rejected", found=[p.exc.exc_name if p.exc else p.outcome for p in bad][:3] or "returns on every path", expected="the n x 1 standard-normal frame")
        for p in paths:
            if p.outcome != "return":
                continue
            v = p.value
            shp = getattr(v, "shape", None)
            ok = shp is not None and len(shp) == 2 and nf_equal(lift(shp[0]), lift(N)) and lift(shp[1]).as_const() == 1
            ctx.check(ok, "C18.e FRAME", f"{key}:shape", f.loc(), "anomaly-free data with scalar parameters have n rows and one column", found=repr(shp), expected="(n, 1)", nontrivial=False)


def _draw_array(p):
    evs = [e for e in p.events if e.kind == "rng_draw"]
    return evs


def check_return_path(ctx, ex, f, fname, key, k, p, info):
    pk = f"{key}#{k}"
    # ---- (a) SEED-FLOW
    draws = _draw_array(p)
    if len(draws) != 1:
        ctx.violation("C18.a SEED-FLOW", pk, f.loc(), f"{len(draws)} random draws on a returning path", expected="exactly one seeded draw")
        return
    d = draws[0]
    b = d.data["bound"]
    rs = b.get("random_state")
    ok_rs = isinstance(rs, Num) and nf_equal(rs.nf, info["rs"].nf)
    ctx.check(ok_rs, "C18.a SEED-FLOW", f"{pk}:random_state", d.loc(), f"random_state of the draw = {valkey(rs) if rs is not None else 'unbound (ambient state)'}", expected="the caller's random_state")
    size = b.get("size")
    mean, cov = b.get("mean"), b.get("cov")
    ok_size = isinstance(size, Num) and nf_equal(size.nf, info["n"])
    ok_mean = isinstance(mean, Num) and mean.nf.as_const() == 0 and mean.shape is not None and len(mean.shape) == 1 and nf_equal(lift(mean.shape[0]), info["p"])
    ok_cov = isinstance(cov, Num) and nf_equal(cov.nf, app("eye", info["p"]))
    ctx.check(ok_size and ok_mean and ok_cov, "C18.a SEED-FLOW", f"{pk}:standard-normal", d.loc(), f"draw(mean={valkey(mean)}, cov={valkey(cov)}, size={valkey(size)})", expected="mean zeros(p), cov eye(p), size n", nontrivial=False)
    # the drawn array
    arr = None
    for e in p.events:
        if e.kind == "alloc" and e.node is d.node:
            arr = e.data.get("arr")
    if arr is None:
        # fall back: array with rvs attribute
        for a in ex.arrays_seen(p) if hasattr(ex, "arrays_seen") else []:
            if getattr(a, "rvs", None) is b:
                arr = a
    stores = [e for e in p.events if e.kind in ("store", "store_foreign", "inplace_aug") and getattr(e.data.get("arr"), "rvs", None) is not None]
    if arr is None and stores:
        arr = stores[0].data["arr"]
    # ---- (b) DRAW-SHAPE
    uses = [e for e in p.events if (e.kind in ("store", "pandas_ctor", "read")) and _uses_draw(e)]
    resh = [e for e in p.events if e.kind == "reshape" and getattr(e.data.get("arr"), "rvs", None) is not None]
    first_use = min((p.events.index(e) for e in uses), default=None)
    ok_shape = False
    found = "the squeezed sample is used as drawn"
    if resh:
        r = resh[0]
        dims = r.data.get("dims")
        ok_dims = dims is not None and len(dims) == 2 and nf_equal(dims[0], info["n"]) and nf_equal(dims[1], info["p"])
        ok_order = first_use is None or p.events.index(r) < first_use
        ok_shape = ok_dims and ok_order
        found = f"reshape to ({', '.join(repr(lift(d)) for d in dims) if dims else '?'})" + ("" if ok_order else " after the first use")
    ctx.check(ok_shape, "C18.b DRAW-SHAPE", pk, d.loc(), found, expected="reshape(n, p) before the first use (scipy returns shape (p,) for n = 1 and (n,) for p = 1)", nontrivial=False)
    # ---- arguments are not mutated: a second call with the same list objects gets the same arguments
    muts = [e for e in p.events if e.kind in ("list_extend", "list_append", "list_mutate", "list_store", "list_pop") and getattr(e.data.get("lst"), "role", None) in ("changepoints", "means", "variances", "anomalies", "anomaly")]
    # numpy's out= writes into an existing array: an element of the caller's means / variances (or a shared array that
    # stands for several segments) is updated in place
    for e in p.events:
        if e.kind == "out_write" and isinstance(e.data.get("target"), Num) and e.data["target"].nf is not None:
            names = {a.args[0] for a in atoms_of(e.data["target"].nf, deep=True).values() if a.kind == "sym"}
            if names & {"means_el", "vars_el", "mean0", "var0"}:
                muts.append(e)
    ctx.check(not muts, "C18.a SEED-FLOW", f"{pk}:arguments-untouched", muts[0].loc() if muts else f.loc(), "the generator does not modify the lists it is given (identical arguments stay identical for the next call)", found=[(f"{e.kind} on {e.data['lst'].role}" if e.kind != "out_write" else f"{e.data['callee']}(..., out=<a per-segment parameter>)") for e in muts][:3] or "no mutation of an argument list", expected="no in-place extend / append / store on an argument", nontrivial=False)
    # ---- (c) AFFINE-PLACEMENT
    check_placement(ctx, ex, f, fname, pk, p, info, stores)
    # ---- (d) GUARDS
    check_guards(ctx, ex, f, fname, pk, p, info)
    # ---- (e) FRAME
    check_frame(ctx, f, pk, p, info)


def _uses_draw(e):
    a = e.data.get("arr")
    if a is not None and getattr(a, "rvs", None) is not None:
        return True
    dt = e.data.get("data")
    if isinstance(dt, Num) and dt.arr is not None and getattr(dt.arr, "rvs", None) is not None:
        return True
    return False


def _slice_nfs(idx):
    if len(idx) != 1 or not isinstance(idx[0], SliceV):
        return None
    s = idx[0]
    if not isinstance(s.step, NoneV):
        return None
    if not isinstance(s.lo, Num) or not isinstance(s.hi, Num):
        return None
    return s.lo.nf, s.hi.nf


def _idx_atoms(nf):
    return [a for a in atoms_of(nf).values() if a.kind == "app" and a.args and a.args[0] == "idx"]


def check_placement(ctx, ex, f, fname, pk, p, info, stores):
    rule = "C18.c AFFINE-PLACEMENT"
    if len(stores) == 0:
        ctx.violation(rule, pk, f.loc(), "a returning path never transforms the draw (a branch skips the segment store)", expected="x[lo:hi] = mean + sqrt(variance)*x[lo:hi] for every segment")
        return
    other = [s_ for s_ in stores if s_.kind != "store"]
    if other:
        ctx.undecided(rule, pk, other[0].loc(), f"the draw is modified through a view ({other[0].kind}: {ast.unparse(other[0].node)[:70]}); composition of view writes is not modelled")
        return
    # the loop over the segments: in the generator itself or in a helper it calls
    loops = [e.data["loop"] for e in p.events if e.kind == "loop_enter" and len(e.loops) == 0]
    seg_loops = [lp for lp in loops if any(lp in e.loops for e in stores)]
    unrolled = [e for e in p.events if e.kind == "zip_unroll"]
    # group consecutive stores that address the same rows: one group = the net effect on one segment
    groups = []
    for s_ in stores:
        sl = _slice_nfs(s_.data["index"])
        if sl is None:
            ctx.violation(rule, f"{pk}:bounds", s_.loc(), "a write to the draw does not address a unit-step row slice [lo:hi)", found=ast.unparse(s_.node)[:80], expected="only rows [lo:hi) of a requested segment are rewritten")
            return
        if groups and nf_equal(groups[-1][0][0], sl[0]) and nf_equal(groups[-1][0][1], sl[1]):
            groups[-1][1].append(s_)
        else:
            groups.append((sl, [s_]))
    if seg_loops:
        # symbolic number of segments: one generic iteration
        if any(not any(lp in s_.loops for lp in seg_loops) for s_ in stores) or len(seg_loops) != 1:
            ctx.violation(rule, pk, stores[-1].loc(), "the draw is also written outside the segment loop", expected="only the per-segment transform")
            return
        if len(groups) != 1:
            ctx.violation(rule, pk, groups[1][1][0].loc(), f"one segment iteration rewrites {len(groups)} different row ranges", expected="only rows [lo:hi) of the segment")
            return
        lp = seg_loops[0]
        todo = [(groups[0], NF.atom(Atom("lv", lp.lid)), lp.info.get("over"))]
    else:
        # the scenario fixes the number of segments (single int changepoint / single anomaly tuple): unrolled zip
        if len(unrolled) > 1:
            ctx.violation(rule, pk, stores[0].loc(), "the draw is transformed outside a loop over the segments", expected="one transform per segment in the loop over zip(positions, means, variances)")
            return
        if unrolled:
            m = unrolled[0].data["length"]
        else:
            # an index loop over a fixed number of segments is unrolled by the engine: the scenario fixes that number
            posv = info["positions"]
            if isinstance(posv, ListV):
                ctx.undecided(rule, pk, stores[0].loc(), "the draw is transformed outside a recognised loop over the segments (a spelling of the generator this rule cannot read)")
                return
            m = 2 if fname == "generate_changing_data" else 1
        if len(groups) != m:
            ctx.violation(rule, pk, stores[-1].loc(), f"{len(groups)} row ranges rewritten for {m} segments", expected="exactly one transform per segment")
            return
        todo = [(g, NF.const(k), None) for k, g in enumerate(groups)]
    for (sl, sts), i, over in todo:
        sk = f"{pk}" if len(todo) == 1 else f"{pk}/seg{i!r}"
        st = sts[-1]
        lo, hi = sl
        if fname == "generate_changing_data":
            okb, why = _changing_bounds(ex, lo, hi, i, info, over, {e.data["lst"].lid: e.data["lst"] for e in p.events if e.kind == "list_read" and isinstance(e.data.get("lst"), ListV)})
        else:
            okb, why = _anomalous_bounds(lo, hi, i, info, over)
        ctx.check(okb, rule, f"{sk}:bounds", st.loc(), why, expected="rows [L[i], L[i+1]) of [0]+changepoints+[n]" if fname == "generate_changing_data" else "rows [start_i, end_i)")
        # net effect of the group on x[lo:hi] in terms of the content O it had when the iteration began
        O = None
        cur = None
        bad = None
        for s_ in sts:
            v = s_.data["value"]
            if not isinstance(v, Num):
                bad = f"stored value is not arithmetic over the draw: {valkey(v)[:80]}"
                break
            same = [a for a in _idx_atoms(v.nf) if _reads_array(a, s_.data["arr"])]
            own = []
            for a in same:
                rs = _read_slice(a)
                if rs is None or not (nf_equal(rs[0], lo) and nf_equal(rs[1], hi)):
                    bad = f"the transform reads other rows of the draw than it writes: {NF.atom(a)!r}"[:200]
                    break
                own.append(a)
            if bad:
                break
            if O is None and own:
                O = own[0]
            nfv = v.nf
            if cur is not None:
                m_ = {a.key: cur for a in own if a.key != O.key}
                if m_:
                    nfv = subst(nfv, m_)
            cur = nfv
        mean_i, var_i = info["mean_i"](i), info["var_i"](i)
        if bad:
            ctx.violation(rule, f"{sk}:value", st.loc(), bad, expected="the same rows of the same draw on both sides")
            continue
        if O is None:
            ctx.violation(rule, f"{sk}:value", st.loc(), "the segment is overwritten without using the seeded draw", found=repr(cur)[:160], expected=f"{mean_i!r} + ({var_i!r})^(1/2) * x[lo:hi]")
            continue
        okv = nf_equal(cur, mean_i + var_i ** _half() * NF.atom(O))
        ctx.check(okv, rule, f"{sk}:value", st.loc(), f"x[{lo!r}:{hi!r}] <- {cur!r}"[:220], expected=f"{mean_i!r} + ({var_i!r})^(1/2) * x[lo:hi] (same rows, same draw)")


def _half():
    from fractions import Fraction

    return Fraction(1, 2)


def _read_slice(a):
    """(lo, hi) of idx(base, ((slice, lo, hi, 1)))"""
    spec = a.args[2:] if len(a.args) > 2 else ()
    flat = []

    def walk(x):
        if isinstance(x, (tuple, list)):
            if len(x) == 4 and x[0] == "slice":
                flat.append(x)
            else:
                for y in x:
                    walk(y)

    walk(spec)
    if len(flat) != 1:
        return None
    _, lo, hi, step = flat[0]
    if lift(step).as_const() != 1:
        return None
    return lift(lo), lift(hi)


def _reads_array(a, arr):
    base = a.args[1]
    for b in atoms_of(base).values():
        if b.kind == "arr" and b.args and b.args[0] == arr.aid:
            return True
    return False


def _changing_bounds(ex, lo, hi, i, info, over, lists=None):
    """lo, hi must be L[i], L[i+1] with L = [0] + changepoints + [n]"""
    pos = info["positions"]
    if not isinstance(pos, ListV):
        # single int changepoint: L = [0, cp, n]
        L = [NF.const(0), pos.nf, lift(info["n"])]
        k = i.as_const()
        if k is None or not (0 <= k < 2):
            return False, f"segment number {i!r}"
        k = int(k)
        ok = nf_equal(lo, L[k]) and nf_equal(hi, L[k + 1])
        return ok, f"rows [{lo!r}:{hi!r}) for segment {k} of L = [0, cp, n]"
    la, ha = single_atom(lo), single_atom(hi)
    if la is None or ha is None or not (la.kind == "app" and la.args[0] == "listitem" and ha.kind == "app" and ha.args[0] == "listitem"):
        return False, f"bounds [{lo!r}:{hi!r}) are not consecutive elements of one list"
    if la.args[1] != ha.args[1]:
        return False, "lower and upper bounds come from different lists"
    if not nf_equal(lift(la.args[2]), i) or not nf_equal(lift(ha.args[2]), i + 1):
        return False, f"bounds are elements {lift(la.args[2])!r} and {lift(ha.args[2])!r} of the position list"
    lid = la.args[1]
    lid = lid.as_const() if isinstance(lid, NF) else lid
    L = _find_list(over, int(lid)) if over is not None else None
    if L is None and lists is not None:
        L = lists.get(int(lid))
    if L is None:
        return False, "position list not found"
    parts = _flatten_parts(L)
    if len(parts) != 3:
        return False, f"position list has {len(parts)} concatenated parts"
    a, b, c = parts
    ok0 = isinstance(a, ListV) and not a.opaque and len(a.items) == 1 and isinstance(a.items[0], Num) and a.items[0].nf.as_const() == 0
    okn = isinstance(c, ListV) and not c.opaque and len(c.items) == 1 and isinstance(c.items[0], Num) and nf_equal(c.items[0].nf, info["n"])
    okm = isinstance(b, ListV) and getattr(b, "role", None) == "changepoints" and getattr(b, "slice_of", None) is None
    if not (ok0 and okn and okm):
        return False, f"position list is {_show_parts(parts)}"
    return True, "rows [L[i], L[i+1]) with L = [0] + changepoints + [n]"


def _show_parts(parts):
    out = []
    for q in parts:
        if isinstance(q, ListV) and not q.opaque:
            out.append("[" + ", ".join(valkey(x) for x in q.items) + "]")
        else:
            out.append(getattr(q, "role", "list"))
    return " + ".join(out)


def _flatten_parts(L):
    ps = getattr(L, "parts", None)
    if ps is None:
        return [L]
    out = []
    for q in ps:
        out.extend(_flatten_parts(q))
    return out


def _find_list(over, lid):
    seen = []

    def walk(v):
        if isinstance(v, ListV):
            if v.lid == lid:
                seen.append(v)
            so = getattr(v, "slice_of", None)
            if so is not None:
                walk(so[0])
            for q in getattr(v, "parts", None) or ():
                walk(q)
            cp = getattr(v, "comp", None)
            if cp is not None:
                walk(cp["iter"])  # a list of records built by a comprehension: the lists it was built from
        elif isinstance(v, OpaqueV) and v.meta.get("parts"):
            for q in v.meta["parts"]:
                walk(q)

    walk(over)
    return seen[0] if seen else None


def _anomalous_bounds(lo, hi, i, info, over):
    pos = info["positions"]
    if isinstance(pos, ListV):
        e0, e1 = app("at", sym("a0"), i), app("at", sym("a1"), i)
    else:
        e0, e1 = sym("a0"), sym("a1")
    if nf_equal(lo, e0) and nf_equal(hi, e1):
        return True, "rows [start_i, end_i) of the i-th anomaly"
    return False, f"rows [{lo!r}:{hi!r})"


# ----------------------------------------------------------------------------- (d) guards


def check_guards(ctx, ex, f, fname, pk, p, info):
    rule = "C18.d GUARDS"
    cons = _elem_constraints(p.facts)
    n = info["n"]
    # the zip of the segment loop: lengths of the three sequences agree
    loops = [e.data["loop"] for e in p.events if e.kind == "loop_enter" and len(e.loops) == 0]
    zl = [lp for lp in loops if isinstance(lp.info.get("over"), OpaqueV) and lp.info["over"].meta.get("kind") == "zip"]
    # a loop over the records an unfiltered comprehension built from zip(positions, means, variances) visits the same
    # tuples in the same order
    zcomp = [lp for lp in loops if lp.info.get("comp_of") is not None and isinstance(lp.info["comp_of"]["iter"], OpaqueV) and lp.info["comp_of"]["iter"].meta.get("kind") == "zip"]
    zip_of = {id(lp): lp.info["over"] for lp in zl}
    for lp in zcomp:
        zip_of[id(lp)] = lp.info["comp_of"]["iter"]
    zl = zl + zcomp
    un = [e for e in p.events if e.kind == "zip_unroll"]
    pos = info["positions"]
    if fname == "generate_changing_data":
        npos = app("listlen", pos.lid, 0) if isinstance(pos, ListV) else NF.const(1)
        nseg = npos + 1
    else:
        nseg = app("listlen", pos.lid, 0) if isinstance(pos, ListV) else NF.const(1)
    idx_lp = None
    idx_unrolled = None
    if len(zl) + len(un) == 0:
        # idiom B: an index loop `for i in range(<number of segments>)` (possibly through enumerate of the positions)
        # that reads means[i] / variances[i] (and L[i], L[i + 1]); for a fixed number of segments the engine unrolls it
        cand = [lp for lp in loops if lp.info.get("range") is not None and any(e.kind == "list_read" and lp in e.loops and _seq_role(e.data.get("lst")) in ("means", "variances") for e in p.events)]
        if len(cand) == 1:
            idx_lp = cand[0]
        elif not cand and nseg.as_const() is not None:
            idx_unrolled = int(nseg.as_const())
    if len(zl) + len(un) != 1 and idx_lp is None and idx_unrolled is None:
        ctx.undecided(rule, f"{pk}:zip", f.loc(), f"{len(zl) + len(un)} zip loops over segments: the segment loop is neither a zip over (positions, means, variances) nor an index loop (a spelling of the generator this rule cannot read)")
        return
    if idx_lp is not None or idx_unrolled is not None:
        zloc = f.loc(idx_lp.node) if idx_lp is not None and getattr(idx_lp, "node", None) is not None else f.loc()
        if idx_lp is not None:
            lo_, hi_, st_ = idx_lp.info["range"]
            lvi = NF.atom(Atom("lv", idx_lp.lid))
            okr = lo_.as_const() == 0 and st_.as_const() == 1 and nf_equal(hi_, nseg)
            ctx.check(okr, rule, f"{pk}:all-segments", zloc, f"the segment loop runs over range({lo_!r}, {hi_!r}, {st_!r})", expected=f"range(0, {nseg!r}): all segments are visited")
        seq = []
        for nm in ("means", "variances"):
            rd = [e for e in p.events if e.kind == "list_read" and (idx_lp in e.loops if idx_lp is not None else not e.loops) and _seq_role(e.data.get("lst")) == nm and e.func is f]
            if idx_lp is not None:
                bad_i = [e for e in rd if not (isinstance(e.data.get("index"), Num) and nf_equal(e.data["index"].nf, lvi))]
            else:
                # the unrolled loop reads every position 0 .. nseg - 1 (reads of element 0 before the loop, e.g. for the
                # number of columns, do not count against it)
                got = {e.data["index"].nf.as_const() for e in rd if isinstance(e.data.get("index"), Num)}
                bad_i = [] if set(range(idx_unrolled)) <= got and all(c is not None and 0 <= c < idx_unrolled for c in got) else rd[:1] or [None]
            if not rd or (bad_i and bad_i != [None]) or bad_i == [None]:
                ctx.violation(rule, f"{pk}:count-{nm}", (bad_i or rd)[0].loc() if (bad_i or rd) and (bad_i or rd)[0] is not None else zloc, f"{nm} is not read at the position of the current segment", found=[valkey(e.data.get("index")) for e in rd][:3] or "not read in the segment loop", expected=f"{nm}[i]")
                return
            seq.append(rd[-1].data["lst"])
        parts = [None, None] + seq if fname == "generate_changing_data" else [None] + seq
    else:
        parts = zip_of[id(zl[0])].meta["parts"] if zl else un[0].data["parts"]
        zloc = f.loc(zl[0].node) if zl and getattr(zl[0], "node", None) is not None else f.loc()
        seq = parts[2:] if fname == "generate_changing_data" else parts[1:]
    if idx_lp is None and fname == "generate_changing_data" and isinstance(pos, ListV) and len(parts) >= 2:
        # every segment is visited: both position sequences are L[:-1] and L[1:] of the same padded list L
        okseg = True
        found = []
        for q, want_lo, want_hi in ((parts[0], 0, -1), (parts[1], 1, 0)):
            so = getattr(q, "slice_of", None)
            if so is None:
                okseg = False
                found.append("not a slice")
                continue
            sl = so[1]
            lo = 0 if isinstance(sl.lo, NoneV) else (sl.lo.nf.as_const() if isinstance(sl.lo, Num) else None)
            hi = 0 if isinstance(sl.hi, NoneV) else (sl.hi.nf.as_const() if isinstance(sl.hi, Num) else None)
            found.append(f"[{'' if lo == 0 else lo}:{'' if hi == 0 else hi}]")
            okseg = okseg and lo == want_lo and hi == want_hi and isinstance(sl.step, NoneV)
        okseg = okseg and getattr(parts[0], "slice_of", (None,))[0] is getattr(parts[1], "slice_of", (None,))[0]
        ctx.check(okseg, rule, f"{pk}:all-segments", zloc, f"segment starts are L{found[0] if found else '?'} and segment ends L{found[1] if len(found) > 1 else '?'}", expected="L[:-1] and L[1:]: all len(changepoints) + 1 segments are visited")
    names = ("means", "variances")
    for nm, q in zip(names, seq):
        ln = _exact_len(ex, p, q)
        ok = ln is not None and (nf_equal(ln, nseg) or (entails(cons, Lin.of(ln - nseg)) and entails(cons, Lin.of(nseg - ln))))
        if not ok and _is_repeat_of(q, nseg):
            ok = True
        ctx.check(ok, rule, f"{pk}:count-{nm}", zloc, f"len({nm}) = {ln!r} on a returning path", expected=f"= number of segments {nseg!r} (else ValueError)")
    if len(seq) != 2:
        # a zip over the positions only whose body reads means[i] / variances[i] by an enumerate counter is a third spelling
        # of the segment loop this rule does not read: undecided, not a violation
        by_index = [e for e in p.events if e.kind == "list_read" and e.func is f and _seq_role(e.data.get("lst")) in ("means", "variances") and (e.loops or not isinstance(e.data.get("index"), Num) or e.data["index"].nf.as_const() != 0)]
        if by_index and len(seq) < 2:
            ctx.undecided(rule, f"{pk}:zip-arity", f.loc(), f"the segment zip has {len(parts)} sequences and the parameters are read by an index inside it: a spelling of the segment loop this rule cannot read")
            return
        ctx.violation(rule, f"{pk}:zip-arity", f.loc(), f"segment zip has {len(parts)} sequences")
    # positions within the data
    if fname == "generate_changing_data":
        cp = sym("cp")
        ok_lo = entails(cons, Lin.of(cp))
        ok_hi = entails(cons, Lin.of(n - 1 - cp))
        ctx.check(ok_lo, rule, f"{pk}:cp>=0", f.loc(), "returning paths entail changepoint >= 0" if ok_lo else "a negative changepoint reaches the draw", expected="ValueError for positions outside the data")
        ctx.check(ok_hi, rule, f"{pk}:cp<=n-1", f.loc(), "returning paths entail changepoint <= n-1" if ok_hi else "a changepoint > n-1 reaches the draw", expected="ValueError for positions outside the data")
    else:
        a0, a1 = sym("a0"), sym("a1")
        ok_lo = entails(cons, Lin.of(a0))
        ok_hi = entails(cons, Lin.of(n - a1))
        ok_ne = entails(cons, Lin.of(a1 - a0 - 1))
        ctx.check(ok_lo, rule, f"{pk}:start>=0", f.loc(), "returning paths entail start >= 0" if ok_lo else "a negative anomaly start reaches the draw", expected="ValueError for positions outside the data")
        ctx.check(ok_hi, rule, f"{pk}:end<=n", f.loc(), "returning paths entail end <= n" if ok_hi else "an anomaly end > n reaches the draw", expected="ValueError for positions outside the data")
        ctx.check(ok_ne, rule, f"{pk}:nonempty", f.loc(), "returning paths entail end - start >= 1" if ok_ne else "an empty anomaly (end <= start) reaches the draw", expected="ValueError for empty anomalies")


from ..affine import dnf_of_cond as _dnf  # noqa: E402


def _valid_domain(fname, info):
    """the arguments the property calls consistent, as a DNF over the scenario's atoms"""
    n = lift(info["n"])
    pos = info["positions"]

    def eq(a, b):
        return [Lin.of(a - b), Lin.of(b - a)]

    def count_cases(lst, nseg):
        if isinstance(lst, ListV):
            ln = app("listlen", lst.lid, 0)
            # one entry for all segments, or one per segment - and at least one entry where the list decides the number
            # of columns (the means): an empty list of means is consistent with nothing, also not with zero anomalies
            least = [Lin.of(ln - 1)] if lst is info.get("means") else []
            return [eq(ln, NF.const(1)), eq(ln, nseg) + least]
        return [[]]  # a single number is always accepted (used for every segment)

    if fname == "generate_changing_data":
        if isinstance(pos, ListV):
            nseg = app("listlen", pos.lid, 0) + 1
        else:
            nseg = NF.const(2)
        cp = sym("cp")
        elem = [Lin.of(cp), Lin.of(n - 1 - cp)]
    else:
        nseg = app("listlen", pos.lid, 0) if isinstance(pos, ListV) else NF.const(1)
        a0, a1 = sym("a0"), sym("a1")
        elem = [Lin.of(a0), Lin.of(a1 - a0 - 1), Lin.of(n - a1)]
    cases = []
    for cm in count_cases(info["means"], nseg):
        for cv in count_cases(info["variances"], nseg):
            cases.append(elem + cm + cv + [Lin.of(n - 1)])
    return cases


def check_guard_exact(ctx, f, fname, key, paths, info):
    """no raise is reachable for consistent arguments: (path facts) and (valid domain) is unsatisfiable"""
    from ..affine import satisfiable

    rule = "C18.d GUARDS"
    valid = _valid_domain(fname, info)
    for k, p in enumerate(q for q in paths if q.outcome == "raise"):
        cases = [[]]
        unknown = []
        for c, v in p.facts:
            d = _dnf(c, v)
            if d is None:
                unknown.append(c)
                continue
            cases = [x + y for x in cases for y in d]
            if len(cases) > 256:
                break
        sat = None
        for pc in cases:
            for vc in valid:
                if satisfiable(pc + vc):
                    sat = (pc, vc)
                    break
            if sat:
                break
        line = getattr(p.exc.node, "lineno", 0)
        loc = f.loc(p.exc.node) if p.exc.node is not None else f.loc()
        last = p.facts[-1][0] if p.facts else None
        if sat is None:
            ctx.holds(rule, f"{key}:exact@{line}#{k}", loc, "this raise is unreachable for consistent arguments (facts and valid domain are jointly unsatisfiable)", nontrivial=False)
        elif unknown:
            ctx.undecided(rule, f"{key}:exact@{line}#{k}", loc, f"raise guarded by a condition outside the affine fragment: {unknown[0]!r}"[:200])
        else:
            ctx.violation(rule, f"{key}:exact@{line}#{k}", loc, f"consistent arguments are rejected: the guard {last!r} admits a valid argument set"[:260], expected="ValueError only for wrong counts, positions outside [0, n-1] / [0, n], or empty anomalies")


def _seq_role(lst):
    """'means' / 'variances' for the (possibly rebuilt: repeated, copied) list of per-segment parameters"""
    r = getattr(lst, "role", None)
    if r in ("means", "variances"):
        return r
    els = [getattr(lst, "elem", None)]
    rp = getattr(lst, "repeat", None)
    if rp is not None and isinstance(rp[0], ListV):
        els += list(rp[0].items) + [getattr(rp[0], "elem", None)]
    if isinstance(lst, ListV) and not lst.opaque:
        els += list(lst.items)
    for el in els:
        if isinstance(el, Num) and el.nf is not None:
            names = {a.args[0] for a in atoms_of(el.nf, deep=True).values() if a.kind == "sym"}
            if names & {"means_el", "mean0"}:
                return "means"
            if names & {"vars_el", "var0"}:
                return "variances"
    return None


def _exact_len(ex, path, q):
    from ..models import exact_list_len

    saved = ex.facts
    ex.facts = list(path.facts)
    try:
        r = exact_list_len(ex, q) if isinstance(q, (ListV, TupleV)) else None
    finally:
        ex.facts = saved
    return r if r is not None else _list_len(q)


def _list_len(q):
    if isinstance(q, ListV):
        if not q.opaque:
            return NF.const(len(q.items))
        return app("listlen", q.lid, 0)
    if isinstance(q, TupleV):
        return NF.const(len(q.items))
    return None


def _is_repeat_of(q, nseg):
    rp = getattr(q, "repeat", None)
    if rp is None:
        return False
    seq, k = rp
    return isinstance(k, Num) and nf_equal(k.nf, nseg) and isinstance(seq, ListV) and (not seq.opaque and len(seq.items) == 1)


def check_pair_length(ctx):
    """an anomaly that is not a (start, end) pair raises ValueError before the draw"""
    P = ctx.P
    f = P.func(f"{MOD}.generate_anomalous_data")
    ex = new_executor(ctx, max_paths=400)

    def thunk(ex):
        ex.elem_atoms = set()
        ex.list_counter += 1
        inner = ListV([], opaque=True, lid=ex.list_counter, elem=Num(sym("a_el"), (), "int", pytype="number"))
        inner.numeric = True
        inner.role = "anomaly"
        ex.list_counter += 1
        an = ListV([], opaque=True, lid=ex.list_counter, elem=inner)
        an.role = "anomalies"
        ex._pair = inner
        means = _numlist(ex, "means", _elem("means_el", "scalar"))
        variances = _numlist(ex, "variances", _elem("vars_el", "scalar"))
        return ex.call_function(f, [Num(N, (), "int", pytype="number"), an, means, variances, Num(sym("random_state"), (), "int")], {}, None, None)

    try:
        paths = run(ctx, ex, thunk)
    except Undecided as u:
        paths = getattr(u, "partial_paths", None) or []
        if not paths:
            raise
    inner = ex._pair
    ln = app("listlen", inner.lid, 0)
    found = False
    for p in paths:
        if p.outcome != "raise":
            continue
        from .common import both_polarities as _bp

        for c, v in _bp(p.facts):  # `not all(len == 2)` and `any(len != 2)` are one guard
            t = c.t
            if t[0] == "any" and v and t[1].t[0] == "cmp" and t[1].t[1] == "!=0" and (nf_equal(t[1].t[2], ln - 2) or nf_equal(t[1].t[2], 2 - ln)):
                if p.exc.exc_name == "ValueError" and not any(e.kind == "rng_draw" for e in p.events):
                    found = True
    ctx.check(found, "C18.d GUARDS", "anomaly-pair-length", f.loc(), "any(len(anomaly) != 2) raises ValueError before the draw" if found else "no ValueError path guarded by any(len(anomaly) != 2)", expected="anomalies that are not (start, end) pairs raise ValueError")
    # a returning path must carry the negated guard
    for k, p in enumerate(q for q in paths if q.outcome == "return"):
        from .common import both_polarities as _bp2

        has = any(c.t[0] == "any" and not v and c.t[1].t[0] == "cmp" and (nf_equal(c.t[1].t[2], ln - 2) or nf_equal(c.t[1].t[2], 2 - ln)) for c, v in _bp2(p.facts))
        ctx.check(has, "C18.d GUARDS", f"anomaly-pair-length:return#{k}", f.loc(), "returning path passed the pair-length guard", nontrivial=False)


# ----------------------------------------------------------------------------- (e) frame


def check_frame(ctx, f, pk, p, info):
    rule = "C18.e FRAME"
    # the frame may be built in the generator itself or in a helper it calls
    ctors = [e for e in p.events if e.kind == "pandas_ctor" and e.data.get("which") == "frame"]
    if len(ctors) != 1:
        ctx.violation(rule, pk, f.loc(), f"{len(ctors)} DataFrame constructions", expected="one")
        return
    c = ctors[0]
    data = c.data.get("data")
    ok_data = isinstance(data, Num) and data.arr is not None and getattr(data.arr, "rvs", None) is not None and data.cond is None and nf_equal(data.nf, NF.atom(single_atom(data.nf))) and not _idx_atoms(data.nf)
    idx = c.data.get("index")
    ok_idx = isinstance(idx, RangeV) and idx.lo.nf.as_const() == 0 and idx.step.nf.as_const() == 1 and nf_equal(idx.hi.nf, info["n"])
    # no index= at all: pandas gives array data the default RangeIndex(0, n), the same labels (a Series / frame would carry
    # its own index - the data obligation above demands the generated ndarray)
    ok_idx = ok_idx or ((idx is None or isinstance(idx, NoneV)) and isinstance(data, Num) and data.pytype == "ndarray" and data.arr is not None)
    cols = c.data.get("columns")
    ncol = _list_len(cols) if cols is not None else None
    ok_cols = cols is None or (ncol is not None and nf_equal(ncol, info["p"])) or _comp_len(cols, info["p"])
    ctx.check(ok_data, rule, f"{pk}:data", c.loc(), f"frame data = {valkey(data)[:80]}", expected="the whole transformed draw")
    ctx.check(ok_idx, rule, f"{pk}:index", c.loc(), f"index = {valkey(idx)[:80] if idx is not None else 'default'}", expected="range(n), i.e. 0..n-1")
    ctx.check(ok_cols, rule, f"{pk}:columns", c.loc(), f"{ncol!r} column names", expected="p column names", nontrivial=False)
    rv = p.value
    ok_ret = rv is c.data.get("result") or (isinstance(rv, OpaqueV) and rv is c.data.get("result")) or _same_frame(rv, c)
    ctx.check(ok_ret, rule, f"{pk}:returned", c.loc(), "the constructed frame is returned" if ok_ret else f"returns {valkey(rv)[:60]}", nontrivial=False)


def _comp_len(cols, p):
    comp = getattr(cols, "comp", None)
    if comp is None or comp["conds"]:
        return False
    it = comp["iter"]
    return isinstance(it, RangeV) and it.step.nf.as_const() == 1 and nf_equal(it.hi.nf - it.lo.nf, p)


def _same_frame(rv, c):
    r = c.data.get("result")
    if r is None:
        return True  # ctor event does not expose its result: identity cannot be contradicted
    return valkey(rv) == valkey(r)


# ----------------------------------------------------------------------------- (f) alternating


def check_alternating(ctx):
    rule = "C18.f ALTERNATING"
    P = ctx.P
    f = P.func(f"{MOD}.generate_alternating_data")
    target = P.func(f"{MOD}.generate_changing_data")
    seen = []

    def summary(ex, func, args, kwargs, so, node):
        seen.append((args, kwargs, node, list(ex.cur_facts()) if hasattr(ex, "cur_facts") else None))
        ex.emit("driver_call", node, callee=func.qualname, args=args, kwargs=kwargs)
        return OpaqueV("frame(generate_changing_data)", {"kind": "generated"})

    ex = new_executor(ctx, summaries={target.qualname: summary}, max_paths=400)
    S, K, p_, m, v, ap, rs = (sym(x) for x in ("n_segments", "segment_length", "p", "mean", "variance", "affected_proportion", "random_state"))

    def thunk(ex):
        args = [Num(S, (), "int", pytype="number"), Num(K, (), "int", pytype="number"), Num(p_, (), "int", pytype="number"), Num(m, (), "float", pytype="number"), Num(v, (), "float", pytype="number"), Num(ap, (), "float", pytype="number"), Num(rs, (), "int", pytype="number")]
        return ex.call_function(f, args, {}, None, None)

    paths = run(ctx, ex, thunk)
    rets = [q for q in paths if q.outcome == "return"]
    ctx.check(len(rets) >= 1, rule, "reachable", f.loc(), f"{len(rets)} returning paths")
    n_aff = None
    for k, q in enumerate(rets):
        calls = [e for e in q.events if e.kind == "driver_call"]
        if len(calls) != 1:
            ctx.violation(rule, f"#{k}:delegation", f.loc(), f"{len(calls)} calls of generate_changing_data", expected="one")
            continue
        c = calls[0]
        b = _bind(target, c.data["args"], c.data["kwargs"])
        n_ = b.get("n")
        ctx.check(isinstance(n_, Num) and nf_equal(n_.nf, S * K), rule, f"#{k}:n", c.loc(), f"n = {valkey(n_)}", expected="segment_length * n_segments")
        r_ = b.get("random_state")
        ctx.check(isinstance(r_, Num) and nf_equal(r_.nf, rs), rule, f"#{k}:random_state", c.loc(), f"random_state = {valkey(r_) if r_ is not None else 'not forwarded (default None: ambient state)'}", expected="the caller's random_state")
        ctx.check(q.value is not None and isinstance(q.value, OpaqueV) and q.value.meta.get("kind") == "generated", rule, f"#{k}:returned", c.loc(), "the delegate's frame is returned", nontrivial=False)
        cps = b.get("changepoints")
        ctx.check(_is_multiples(cps, K, S), rule, f"#{k}:changepoints", c.loc(), f"changepoints = {_show_comp(cps)}", expected="[segment_length * i for i in range(1, n_segments)]")
        for nm, changed, base in (("means", m, 0), ("variances", v, 1)):
            lst = b.get(nm)
            okv, why = _alternating_vectors(ex, q, lst, changed, base, p_, ap, S)
            ctx.check(okv, rule, f"#{k}:{nm}", c.loc(), why, expected=f"segment i gets [{base}]*p for even i and [{changed!r}]*n_affected + [{base}]*(p-n_affected) for odd i; one vector per segment")


def _bind(func, args, kwargs):
    names = [a.arg for a in func.node.args.args]
    b = {}
    for i, a in enumerate(args):
        if i < len(names):
            b[names[i]] = a
    b.update(kwargs)
    return b


def _is_multiples(cps, K, S):
    """list comprehension [K*i for i in range(1, S)]"""
    comp = getattr(cps, "comp", None)
    if not isinstance(cps, ListV) or comp is None or comp["conds"] or not isinstance(comp["elem"], Num):
        return False
    rng = comp["iter"]
    if not isinstance(rng, RangeV):
        return False
    if rng.lo.nf.as_const() != 1 or rng.step.nf.as_const() != 1 or not nf_equal(rng.hi.nf, S):
        return False
    return nf_equal(comp["elem"].nf, K * NF.atom(Atom("lv", comp["ctx"].lid)))


def _show_comp(cps):
    comp = getattr(cps, "comp", None)
    if comp is not None:
        return f"[{valkey(comp['elem'])} for lv in {valkey(comp['iter'])}]"
    return valkey(cps)[:80]


def _alternating_vectors(ex, path, lst, changed, base, p_, ap, S):
    """lst is a list appended to once per iteration of `for i in range(n_segments)`; the appended value is the
    zero/one vector when i % 2 == 0 and the changed vector otherwise"""
    if not isinstance(lst, ListV):
        return False, f"{valkey(lst)[:60]} is not a list"
    # the list itself, or the k-th components of a list of per-segment tuples: [t[k] for t in pairs] / [a for a, _ in pairs]
    proj = None
    comp = getattr(lst, "comp", None)
    if comp is not None and not comp["conds"] and isinstance(comp["iter"], ListV) and isinstance(comp["elem"], OpaqueV):
        import re as _re

        mm = _re.match(r"^elem\(list#(\d+)\)\[(\d+)\]$", comp["elem"].key)
        if mm and int(mm.group(1)) == comp["iter"].lid:
            lst, proj = comp["iter"], int(mm.group(2))
    apps = [e for e in path.events if e.kind == "list_append" and e.data.get("lst") is lst]
    if not apps:
        return False, "nothing is appended to the list"
    loops = {id(e.loops[-1]): e.loops[-1] for e in apps if e.loops}
    if len(loops) != 1 or any(not e.loops for e in apps):
        return False, "vectors are not appended inside one segment loop"
    lp = next(iter(loops.values()))
    rng = lp.info.get("range")
    if rng is None or rng[0].as_const() != 0 or rng[2].as_const() != 1 or not nf_equal(rng[1], S):
        return False, f"segment loop runs over {rng}"
    i = NF.atom(Atom("lv", lp.lid))
    n_aff = app("round", p_ * ap)  # int(np.round(x)): the engine folds int() of a rounded value
    sites = {}
    for e in apps:
        sites.setdefault(id(e.node), []).append(e)
    if len(sites) != 1:
        return False, f"{len(sites)} append sites"
    # per iteration exactly one append; classify by the parity decision in force
    seen_parity = set()
    for e in apps:
        val = e.data.get("value")
        if proj is not None:
            if not (isinstance(val, TupleV) and proj < len(val.items)):
                return False, f"the per-segment record {valkey(val)[:60]} is not a tuple with a component {proj}"
            val = val.items[proj]
        par = _parity(e.facts, i)
        if par is None:
            return False, "appended vector does not depend on the parity of the segment number"
        seen_parity.add(par)
        want = _vec(base, None, p_, n_aff) if par == 0 else _vec(base, changed, p_, n_aff)
        got = _vec_of(val)
        if got is None or not _vec_eq(got, want):
            return False, f"segment parity {par}: vector {_show_vec(got) if got else valkey(val)[:60]}"
    return True, f"parity {sorted(seen_parity)} on this path: even -> [{base}]*p, odd -> [{changed!r}]*n_affected + [{base}]*(p - n_affected)"


def _parity(facts, i):
    """0/1 if the facts in force at the event decide i % 2 == 0 / != 0"""
    for c, v in reversed(list(facts)):
        t = c.t
        if t[0] == "cmp" and t[1] in ("==0", "!=0"):
            d = t[2]
            for sign in (1, -1):
                if nf_equal(d * sign, app("mod", i, NF.const(2))):
                    is_zero = (t[1] == "==0") == bool(v)
                    return 0 if is_zero else 1
    return None


def _vec(base, changed, p_, n_aff):
    """list of (value, count) runs"""
    if changed is None:
        return [(NF.const(base), lift(p_))]
    return [(lift(changed), n_aff), (NF.const(base), lift(p_) - n_aff)]


def _vec_of(v):
    """runs of a list built from [a]*k (+ [b]*m)"""
    if not isinstance(v, ListV):
        return None
    parts = _flatten_parts(v)
    out = []
    for q in parts:
        rp = getattr(q, "repeat", None)
        if rp is None:
            if isinstance(q, ListV) and not q.opaque and all(isinstance(x, Num) for x in q.items):
                for x in q.items:
                    out.append((x.nf, NF.const(1)))
                continue
            return None
        seq, k = rp
        if not (isinstance(seq, ListV) and not seq.opaque and len(seq.items) == 1 and isinstance(seq.items[0], Num) and isinstance(k, Num)):
            return None
        out.append((seq.items[0].nf, k.nf))
    return out


def _vec_eq(a, b):
    return len(a) == len(b) and all(nf_equal(x[0], y[0]) and nf_equal(x[1], y[1]) for x, y in zip(a, b))


def _show_vec(a):
    return " + ".join(f"[{x!r}]*{k!r}" for x, k in a)


# ----------------------------------------------------------------------------- (g) linspace


def check_linspace(ctx):
    rule = "C18.g LINSPACE-ROWS"
    P = ctx.P
    f = P.func(f"{MOD}.add_linspace_outliers")
    ex = new_executor(ctx, max_paths=100)
    k_, sz = sym("n_outliers"), sym("outlier_size")

    def thunk(ex):
        ex._df = frame_sym(ex, "df")
        return ex.call_function(f, [ex._df, Num(k_, (), "int", pytype="number"), Num(sz, (), "float", pytype="number")], {}, None, None)

    paths = run(ctx, ex, thunk)
    rets = [q for q in paths if q.outcome == "return"]
    ctx.check(len(rets) >= 1, rule, "reachable", f.loc(), f"{len(rets)} returning paths")
    for k, q in enumerate(rets):
        sp = [e for e in q.events if e.kind == "space"]
        if len(sp) != 1:
            ctx.violation(rule, f"#{k}:positions", f.loc(), f"{len(sp)} linspace calls", expected="one")
            continue
        s = sp[0]
        lo, hi, num = s.data["lo"], s.data["hi"], s.data["num"]
        ctx.check(isinstance(lo, Num) and lo.nf.as_const() == 0, rule, f"#{k}:first", s.loc(), f"first position {valkey(lo)}", expected="0 (the first row)")
        ctx.check(isinstance(hi, Num) and nf_equal(hi.nf, N - 1), rule, f"#{k}:last", s.loc(), f"last position {valkey(hi)} for an (n, p) frame", expected="n - 1 (the last row, whatever the number of columns)")
        ctx.check(isinstance(num, Num) and nf_equal(num.nf, k_), rule, f"#{k}:count", s.loc(), f"{valkey(num)} positions", expected="n_outliers")
        ctx.check(s.data.get("dtype") == "int" and s.data.get("endpoint", True) is True and s.data.get("fn") == "linspace", rule, f"#{k}:integer", s.loc(), f"np.{s.data.get('fn')}(dtype={s.data.get('dtype')}, endpoint={s.data.get('endpoint', True)})", expected="evenly spaced integer positions including the end point", nontrivial=False)
        st = [e for e in q.events if e.kind == "store_opaque"]
        ok = False
        found = "no row update"
        if len(st) == 1:
            e = st[0]
            tgt = e.data.get("target")
            idx = e.data.get("index")
            val = e.data.get("value")
            res = s.data["result"]
            is_iloc = isinstance(tgt, OpaqueV) and tgt.key.startswith("iloc(")
            on_df = is_iloc and valkey(ex._df) in tgt.key or (is_iloc and "df" in tgt.key)
            ok_idx = len(idx) == 1 and isinstance(idx[0], Num) and nf_equal(idx[0].nf, res.nf)
            cur = [a for a in q.events if a.kind == "augassign" and a.node is e.node]
            ok_val = False
            if isinstance(val, Num) and cur:
                c0 = cur[0].data["cur"]
                ok_val = isinstance(c0, Num) and nf_equal(val.nf, c0.nf + sz)
            ok = is_iloc and on_df and ok_idx and ok_val
            found = f"{ast.unparse(e.node)[:70]}"
        elif len(st) > 1:
            found = f"{len(st)} frame updates"
        ctx.check(ok, rule, f"#{k}:update", st[0].loc() if st else f.loc(), found, expected="df.iloc[positions] += outlier_size (whole rows, by position)")
        ctx.check(q.value is ex._df or valkey(q.value) == valkey(ex._df), rule, f"#{k}:returned", f.loc(), "the updated frame is returned", nontrivial=False)
