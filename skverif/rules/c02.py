"""C02 - PELT returns an exact minimiser of the penalised segmentation cost."""

from __future__ import annotations

import ast

from ..index import FuncInfo
from ..nf import NF, Atom, Undecided, app, atoms_of, lift, nf_equal, single_atom, subst, sym
from ..values import NONE, Cond, ListV, NoneV, Num, ObjV, SliceV, TupleV, valkey
from .common import (
    is_data_src,
    ABSTRACT_SUMMARIES,
    N,
    Pdim,
    _abs_fit,
    abstract_scorer,
    data_sym,
    new_executor,
    norm_src,
    returns,
    run,
    run_spec,
)
from .dp import arr_of, chain_cover, delay_line, interval_of_index, loop_events, main_loop, roleify

EXPLANATION = (
    "Optimality is the theorem of Killick et al. (2012, Thm 3.1, extended to a minimum segment length); the static check decides "
    "its premises on the driver reached from PELT._predict, for every input and every cost (uninterpreted evaluate): (a) DP-COVER - "
    "the index sets written to the table of optimal costs ({0}, [1,m), [m,2m), {t+1}) tile [0,n] exactly and the block [m,2m) holds "
    "C(0,T); (b) BELLMAN - the candidate vector has the normal form F[S] + sum_cols C(S, t+1) + penalty with the newest start t+1-m, "
    "the stored value is that vector at its argmin and is written at index t+1; (c) IDX-GATHER - the back-pointer is S[argmin] with "
    "the same argmin; (d) PRUNE-FORM - the keep mask is F[s]+C(s,t+1)+K <= F[t+1] (or <); (e) PRUNE-DIST - a pruning decided at "
    "step t takes effect at the earliest m steps later (delay-line idiom: one append per iteration, pop(0) guarded by len > m-1) or "
    "m is provably 1; (f) BACKTRACK - the chain i <- prev[i]-1 from n-1 with the artificial 0 dropped reaches the formatter unmodified. "
    "NOT decided: optimality itself (paper induction over a-e) and equality of the final score with the cost of the result."
)
# obligations added during the build phase (seeding rounds, twins, mutation analysis)
ADDED_IN_BUILD = ' Also: (g) BINDING - PELT._predict hands the driver the values of the input, the fitted penalty_, the configured min_segment_length and, on every path, the very cost object the user configured (an arbitrary user cost whose truth value is unknown: a default substituted by `cost or L2Cost()` is reported); the PELT obligations of C10.c NO-STALE-READ are re-run here. The prefix scores PELT publishes are the driver\'s optimal costs: stores into that vector are confined to [: min_segment_length - 1]. published-scores: PELT._transform_scores hands out the stored prefix scores as they are (a running maximum / clip / slice of them is a violation).'
EXPLANATION = EXPLANATION + ADDED_IN_BUILD

ASSUMPTIONS = [
    "Python's ast module and evaluation-order/argument-binding semantics as implemented in skverif/symex.py",
    "library model table skverif/models.py (np.concatenate, np.argmin, boolean-mask indexing, np.isin)",
    "specification /verif/spec/dp.py transcribes the optimal-partitioning recursion and the PELT pruning rule",
    "the paper proof (Killick et al. 2012) that connects the premises checked here to optimality",
    "user costs are uninterpreted functions of (object, fitted data, cuts) that satisfy the split inequality",
]


def find_driver_call(ctx, method: FuncInfo, scorer_attr_prefix="_"):
    """The call in `method` that hands a scorer attribute of self to a module-level function."""
    cands = []
    for n in ast.walk(method.node):
        if isinstance(n, ast.Call):
            r = ctx.P.resolve_expr(method.module, n.func) if isinstance(n.func, (ast.Name, ast.Attribute)) else None
            if isinstance(r, FuncInfo) and r.cls is None:
                for a in list(n.args) + [k.value for k in n.keywords]:
                    if isinstance(a, ast.Attribute) and isinstance(a.value, ast.Name) and a.value.id == "self" and a.attr.startswith("_") and ("cost" in a.attr or "score" in a.attr or "saving" in a.attr):
                        cands.append((n, r))
                        break
    return cands


def call_roles(call: ast.Call, func: FuncInfo):
    """param name -> role derived from the argument expression at the call site"""
    roles = {}
    names = func.params
    pairs = [(names[i], a) for i, a in enumerate(call.args) if i < len(names)] + [(k.arg, k.value) for k in call.keywords if k.arg]
    for p, a in pairs:
        roles[p] = ast.unparse(a)
    return roles


def check(ctx):
    from .c10 import shared_no_stale

    shared_no_stale(ctx, "C02.g BINDING", [("skchange.change_detectors", "PELT")])
    cls = ctx.P.public_class("skchange.change_detectors", "PELT")
    pred = ctx.P.lookup_method(cls, "_predict")
    cands = find_driver_call(ctx, pred)
    if len(cands) != 1:
        ctx.undecided("C02 DRIVER", "PELT._predict", pred.loc(), f"expected exactly one driver call receiving the cost, found {len(cands)}")
        return
    call, drv = cands[0]
    roles = call_roles(call, drv)
    ctx.guard("C02 DRIVER", drv.qualname, lambda: check_driver(ctx, drv, roles), drv.loc())
    ctx.guard("C02.f BACKTRACK", drv.qualname, lambda: check_predict_wiring(ctx, cls, pred, call, drv), pred.loc())
    ctx.expect_min("C02", len([o for o in ctx.obs if o.status == "HOLDS"]), 12)


def role_args(ex, ctx, drv: FuncInfo, roles):
    """symbolic arguments for the driver according to the call-site roles"""
    args = {}
    st = {}
    a = drv.node.args
    defaults = dict(zip([x.arg for x in a.args][len(a.args) - len(a.defaults):], a.defaults))
    for p in drv.params:
        src = roles.get(p, "")
        if is_data_src(src) or (p == drv.params[0] and p.lower().startswith("x")):
            # the data role (whether the call site hands over the data unchanged is decided by BINDING driver-data)
            v = data_sym(ex)
            st["X"] = v
        elif src.startswith("self._") and any(w in src for w in ("cost", "score", "saving")):
            v = abstract_scorer(ex, ctx.P, "skchange.costs.base.BaseCost", "cost", param="none")
            st["cost"] = v
        elif "min_segment_length" in src or p == "min_segment_length":
            v = Num(sym("m"), (), "int")
        elif "penalty" in src or p == "penalty":
            v = Num(sym("penalty"), (), None)  # any real number type (int 0 is a valid penalty)
        elif p in defaults and isinstance(defaults[p], ast.Constant) and isinstance(defaults[p].value, (int, float)):
            v = Num(sym(p), (), "float" if isinstance(defaults[p].value, float) else "int")
        else:
            raise Undecided(f"driver parameter {p} has no recognised role (call-site argument {src!r})")
        args[p] = v
    return args, st


def check_driver(ctx, drv: FuncInfo, roles):
    ex = new_executor(ctx, ABSTRACT_SUMMARIES)
    st = {}

    def thunk(ex):
        args, s = role_args(ex, ctx, drv, roles)
        st.update(s)
        st["args"] = args
        return ex.call_function(drv, [], dict(args), None, None)

    paths = run(ctx, ex, thunk)
    rets = returns(paths)
    if not rets:
        ctx.violation("C02 DRIVER", drv.qualname, drv.loc(), "the driver never returns", found=[p.exc.exc_name for p in paths if p.exc])
        return
    for p in paths:
        if p.outcome == "raise":
            ctx.violation("C02 DRIVER", drv.qualname + "|raises", p.exc.func.loc(p.exc.node) if p.exc.func else drv.loc(), "the driver raises on a path with valid symbolic arguments", found=p.exc.exc_name)
    m, penalty = sym("m"), sym("penalty")
    split_cost = None
    for pn, v in st["args"].items():
        if pn not in ("min_segment_length", "penalty") and isinstance(v, Num) and v.shape == () and single_atom(v.nf) is not None and single_atom(v.nf).args[0] == pn:
            split_cost = v.nf
    # analyse each returning path (they differ only in the pop decision)
    done_static = False
    for p in rets:
        loops = main_loop(p, drv.qualname)
        if len(loops) != 1:
            ctx.undecided("C02 DRIVER", drv.qualname, drv.loc(), f"expected one main loop in the driver, found {len(loops)}")
            return
        loop = loops[0]
        rv = p.value
        if not isinstance(rv, TupleV) or len(rv.items) != 2:
            ctx.undecided("C02 DRIVER", drv.qualname, drv.loc(), "the driver does not return (optimal costs, changepoints)")
            return
        F = arr_of(rv.items[0])
        if F is None:
            ctx.undecided("C02 DRIVER", drv.qualname, drv.loc(), "the returned optimal costs are not a view of an allocated table")
            return
        if not done_static:
            done_static = True
            check_cover(ctx, ex, p, drv, loop, F, rv, m, penalty, st)
            check_bellman(ctx, ex, p, drv, loop, F, m, penalty, split_cost, st)
            check_backtrack(ctx, ex, p, drv, rv, st)
        check_prune_dist(ctx, ex, p, drv, loop, F, m, st)


# ------------------------------------------------------------------ DP-COVER


def check_cover(ctx, ex, p, drv, loop, F, rv, m, penalty, st):
    rule = "C02.a DP-COVER"
    n1 = lift(N) + 1
    shape_ok = F.shape is not None and len(F.shape) == 1 and nf_equal(lift(F.shape[0]), n1)
    ctx.check(shape_ok, rule, "table|length", drv.loc(F.node), "the table of optimal costs has one entry per prefix 0..n", found=f"shape {F.shape}", expected="(n + 1,)")
    ctx.check(F.dtype == "float", rule, "table|dtype", drv.loc(F.node), "the table is a float array whatever the numeric type of the penalty (an integer-typed table would truncate the stored costs)", found=f"dtype {F.dtype or 'taken from an argument'}", expected="float")
    # the published scores are the optimal costs of the prefixes X[0:1], ..., X[0:n]: F[1:]
    out0 = rv.items[0]
    oi = out0.meta.get("index") if isinstance(out0, Num) else None
    ok_out = False
    found = "the whole table" if isinstance(out0, Num) and out0.arr is F and not oi else "?"
    if oi is not None and len(oi) == 1 and isinstance(oi[0], SliceV):
        sl = oi[0]
        lo = sl.lo.nf.as_const() if isinstance(sl.lo, Num) else None
        ok_out = lo == 1 and isinstance(sl.hi, NoneV) and isinstance(sl.step, NoneV)
        found = f"F[{'' if isinstance(sl.lo, NoneV) else valkey(sl.lo)}:{'' if isinstance(sl.hi, NoneV) else valkey(sl.hi)}]"
    ctx.check(ok_out, rule, "table|published", drv.loc(), "the returned scores are F[1:], the optimal cost of every non-empty prefix", found=found, expected="F[1:]")
    ivs = []
    # initial contents
    if F.init[0] == "fill":
        # every slot starts with the fill value: slots not written later keep it
        written = []
        for s in F.stores:
            iv = interval_of_index(s.data["index"], loop if loop in s.loops else None)
            if iv is not None:
                written.append(iv)
        cur = NF.const(0)
        gaps = []
        for a_, b_ in sorted(written, key=lambda t: repr(t[0])):
            pass
        # treat the fill as covering [0, first written index)
        firsts = [w for w in written]
        lo_candidates = [w[0] for w in firsts]
        # find the written interval chain start: the smallest lower bound is the one no other interval ends at
        starts_ = [w for w in firsts if not any(nf_equal(w[0], o[1]) for o in firsts)]
        if len(starts_) == 1:
            ivs.append((NF.const(0), starts_[0][0], F.init[1], "init"))
        else:
            ctx.undecided(rule, "table|init", drv.loc(F.node), "cannot place the fill-initialised prefix of the table")
            return
    elif F.init[0] == "concat":
        off = NF.const(0)
        for part in F.init[1]:
            ln = lift(part.shape[0]) if part.shape else None
            if ln is None:
                ctx.undecided(rule, "table|init", drv.loc(F.node), "initial part of unknown length")
                return
            c = part.nf
            if not (c.is_zero() and part.arr is not None and part.arr.init[0] == "zeros"):
                ivs.append((off, off + ln, part.nf, "init"))
            off = off + ln
    elif F.init[0] != "zeros":
        ctx.undecided(rule, "table|init", drv.loc(F.node), f"table initialised by {F.init[0]}")
        return
    for s in F.stores:
        inloop = loop in s.loops
        iv = interval_of_index(s.data["index"], loop if inloop else None)
        if iv is None or s.data.get("aug"):
            ctx.undecided(rule, "table|store", s.loc(), "store into the table with an index outside the affine fragment", found=norm_src(s.node))
            return
        ivs.append((iv[0], iv[1], s.data["value"], s))
    ok, msg = chain_cover([(a, b) for a, b, _, _ in ivs], NF.const(0), n1)
    ctx.check(ok, rule, "table|partition", drv.loc(), "the index sets written to the table partition [0, n] (every prefix gets exactly one value)", found=msg, expected="{0} | [1,m) | [m,2m) | {t+1 : t in [2m-1, n)}")
    # F[0] == -penalty
    first = [x for x in ivs if nf_equal(x[0], NF.const(0))]
    if F.init[0] == "fill" and first:
        # all prefixes shorter than m keep the fill value; F[0] is among them
        pass
    if first:
        v = first[0][2]
        vn = v if isinstance(v, NF) else (v.nf if isinstance(v, Num) else None)
        ctx.check(vn is not None and nf_equal(vn, -penalty), rule, "table|F[0]", drv.loc(F.node), "F[0] == -penalty (the first segment pays no penalty)", found=repr(vn), expected=repr(-penalty))
    # block [m, 2m) == C(0, T)
    blk = [x for x in ivs if nf_equal(x[0], m) and nf_equal(x[1], 2 * m)]
    if not blk:
        ctx.violation(rule, "table|first-block", drv.loc(), "no store initialises the prefixes of length m..2m-1 (which cannot contain a changepoint)")
    else:
        v = blk[0][2]

        def sargs(sx):
            cost = abstract_scorer(sx, ctx.P, "skchange.costs.base.BaseCost", "cost", param="none")
            _abs_fit(sx, cost, [data_sym(sx)], {}, None)
            return [cost, Num(m, (), "int")]

        want, _ = run_spec(ctx, "dp", "pelt_first_block", sargs, ABSTRACT_SUMMARIES)
        ctx.check(isinstance(v, Num) and nf_equal(v.nf, want.nf), rule, "table|first-block", blk[0][3].loc() if hasattr(blk[0][3], "loc") else drv.loc(), "F[T] == sum_cols C(0, T) for T in [m, 2m)", found=repr(v), expected=repr(want.nf))
    # prefixes shorter than m carry no information: whatever is stored there must not be read
    # by the recursion (reads are F[S] with S >= m or 0) - covered by BELLMAN's start set.


# -------------------------------------------------------------------- BELLMAN


def _loop_t(loop):
    """(t as a normal form over the loop variable, (first t, last t + 1, step))"""
    from .dp import loop_time

    return loop_time(loop)


def check_bellman(ctx, ex, p, drv, loop, F, m, penalty, split_cost, st):
    rule = "C02.b BELLMAN"
    tcode, rng = _loop_t(loop)
    # loop range: t from 2m-1 to n-1
    ctx.check(nf_equal(rng[0], 2 * m - 1) and nf_equal(rng[1], lift(N)) and rng[2].as_const() == 1, "C02.a DP-COVER", "loop|range", drv.loc(loop.node), "the recursion visits t = 2m-1, ..., n-1", found=f"[{rng[0]!r}, {rng[1]!r})", expected="[2m-1, n)")
    fstores = [s for s in F.stores if loop in s.loops]
    if len(fstores) != 1:
        ctx.undecided(rule, "table-store", drv.loc(), f"{len(fstores)} stores into the table inside the loop (expected one)")
        return
    fs = fstores[0]
    val = fs.data["value"]
    # candidate set carried into the iteration
    evals = [e for e in loop_events(p, loop, "scorer_evaluate")]
    if len(evals) != 1:
        ctx.undecided(rule, "evaluate", drv.loc(), f"{len(evals)} cost evaluations per iteration (expected one)")
        return
    cuts = evals[0].data["cuts"]
    ca = single_atom(cuts.nf)
    if ca is None or ca.args[0] != "colstack" or len(ca.args[1]) != 2:
        ctx.violation(rule, "cuts", evals[0].loc(), "the cost is not evaluated on (start, end) pairs", found=repr(cuts))
        return
    Scur = ca.args[1][0]
    lcs = [a for a in atoms_of(Scur).values() if a.kind == "lc"]
    if len(lcs) != 1:
        ctx.undecided(rule, "start-set", evals[0].loc(), "the evaluated starts do not derive from exactly one loop-carried candidate set", found=repr(Scur))
        return
    Satom = lcs[0]
    t = sym("t")
    lv = Atom("lv", loop.lid)
    rolemap = {Satom.key: sym("S"), lv.key: t - (tcode - NF.atom(lv))}
    R = lambda x: roleify(ex, x, {F.aid: "F"}, rolemap)  # noqa: E731

    def sargs(sx):
        cost = abstract_scorer(sx, ctx.P, "skchange.costs.base.BaseCost", "cost", param="none")
        _abs_fit(sx, cost, [data_sym(sx)], {}, None)
        Fv = Num(sym("F"), (lift(N) + 1,), "float")
        sx.atom_shapes[Atom("sym", "F").key] = (lift(N) + 1,)
        Sv = Num(sym("S"), (sym("len(S)"),), "int")
        sx.atom_shapes[Atom("sym", "S").key] = (sym("len(S)"),)
        return [Fv, Sv, Num(t, (), "int"), cost, Num(penalty, (), "float"), Num(m, (), "int")]

    want, _ = run_spec(ctx, "dp", "pelt_candidates", sargs, ABSTRACT_SUMMARIES)
    # the stored value must be cand[argmin(cand)]
    va = single_atom(val.nf) if isinstance(val, Num) else None
    if va is None or va.kind != "app" or va.args[0] != "idx" or len(va.args[2]) != 1 or va.args[2][0][0] != "at":
        ctx.violation(rule, "stored-value", fs.loc(), "the value stored for prefix t+1 is not an element of a candidate vector", found=repr(val))
        return
    cand = va.args[1]
    pos = va.args[2][0][1]
    pa = single_atom(pos)
    ctx.check(nf_equal(R(cand), want.nf), rule, "candidates", evals[0].loc(), "candidate vector == F[S] + sum_cols C(S, t+1) + penalty with S = carried starts + [t+1-m]", found=repr(R(cand)), expected=repr(want.nf))
    is_argmin = pa is not None and pa.kind == "app" and pa.args[0] == "argmin" and nf_equal(pa.args[1], cand)
    ctx.check(is_argmin, rule, "minimum", fs.loc(), "the stored value is the candidate vector at its own argmin (the minimum)", found=repr(pos), expected="argmin(candidates)")
    # stored at index t+1
    idx = fs.data["index"]
    ctx.check(len(idx) == 1 and isinstance(idx[0], Num) and nf_equal(R(idx[0].nf), t + 1), rule, "index", fs.loc(), "the optimum of prefix X[0:t+1] is stored at table index t+1 (the end used in the cuts)", found=repr(R(idx[0].nf)) if idx and isinstance(idx[0], Num) else "?", expected="t + 1")
    # initial candidate set {0}
    pre = loop.info.get("pre", {})
    init_ok = False
    meta = ex.atom_meta.get(Satom.key, {})
    pv = meta.get("pre")
    if isinstance(pv, Num) and pv.nf is not None and pv.nf.is_zero() and pv.shape is not None and len(pv.shape) == 1 and lift(pv.shape[0]).as_const() == 1:
        init_ok = True
    ctx.check(init_ok, rule, "initial-starts", drv.loc(loop.node), "the candidate set starts as {0}", found=repr(pv), expected="array([0])")

    # ---------------------------------------------------------------- IDX-GATHER
    rule_g = "C02.c IDX-GATHER"
    bps = [s for s in loop_events(p, loop, "store") if s.data["arr"] is not F]
    bps = [s for s in bps if isinstance(s.data["value"], Num) and any(a.kind == "app" and a.args[0] == "argmin" for a in atoms_of(s.data["value"].nf).values())]
    if len(bps) != 1:
        ctx.violation(rule_g, "back-pointer", drv.loc(), f"{len(bps)} back-pointer stores per iteration (expected one)")
    else:
        b = bps[0]
        bv = b.data["value"]
        want_bp = app("idx", Scur, (("at", pos),))
        ctx.check(nf_equal(bv.nf, want_bp), rule_g, "back-pointer", b.loc(), "the back-pointer is the start that attains the minimum: S[argmin] (a gather on the evaluated start set)", found=repr(R(bv.nf)), expected=repr(R(want_bp)))
        bi = b.data["index"]
        ctx.check(len(bi) == 1 and isinstance(bi[0], Num) and nf_equal(R(bi[0].nf), t), rule_g, "back-pointer|index", b.loc(), "the back-pointer of prefix X[0:t+1] is stored at position t", found=repr(R(bi[0].nf)) if bi and isinstance(bi[0], Num) else "?", expected="t")
        st["prev"] = b.data["arr"]
        # prefixes that the loop never visits (t < 2m-1) keep the initial back-pointer: they cannot contain a changepoint,
        # so it must be 0 (segment starts at the first sample); anything else sends the backtracking chain astray
        P = b.data["arr"]
        init = getattr(P, "init", None)
        zero_init = init is not None and (init[0] == "zeros" or (init[0] == "fill" and isinstance(init[1], NF) and init[1].is_zero()))
        other = [s_ for s_ in P.stores if s_ is not b]
        ctx.check(zero_init and not other, rule_g, "back-pointer|initial", drv.loc(P.node), "positions the recursion never visits (t < 2m-1) keep the back-pointer 0 (one segment from the first sample); no other store into the back-pointer table", found=f"initialised by {init[0] if init else '?'}({init[1]!r})" if init and len(init) > 1 else f"initialised by {init}", expected="zeros / repeat(0, n), int")
        pshape = P.shape is not None and len(P.shape) == 1 and nf_equal(lift(P.shape[0]), lift(N))
        ctx.check(pshape and P.dtype == "int", rule_g, "back-pointer|table", drv.loc(P.node), "one integer back-pointer per sample", found=f"shape {P.shape} dtype {P.dtype}", expected="(n,) int")

    # ---------------------------------------------------------------- PRUNE-FORM
    rule_p = "C02.d PRUNE-FORM"
    masks = _find_masks(ex, p, loop, Scur)
    if not masks:
        ctx.holds(rule_p, "mask", drv.loc(), "no candidate is ever pruned (optimal partitioning without pruning)")
        st["masks"] = []
        return
    st["masks"] = masks
    Fnew = val.nf
    want_keep, _ = run_spec(
        ctx, "dp", "pelt_keep", lambda sx: [Num(cand, None, "float"), Num(Fnew, (), "float"), Num(penalty, (), "float"), Num(split_cost if split_cost is not None else NF.const(0), (), "float")]
    )
    wk = want_keep.cond
    for ev, cond, negated in masks:
        keep = cond.neg() if negated else cond
        ok = keep.t[0] == "cmp" and wk.t[0] == "cmp" and keep.t[1] in ("<=0", "<0") and nf_equal(keep.t[2], wk.t[2])
        if ok:
            ctx.holds(rule_p, "mask", ev.loc(), "starts are kept iff F[s] + C(s,t+1) + K <= F[t+1] (Killick's rule)", found=repr(R(keep.t[2])) + " " + keep.t[1])
            continue
        # slack analysis: keep.d - wk.d = const multiple of penalty/split_cost
        verdict = "UNDECIDED"
        if keep.t[0] == "cmp" and keep.t[1] in ("<=0", "<0"):
            diff = keep.t[2] - wk.t[2]
            c = diff.as_const()
            if c is not None and c <= 0:
                verdict = "HOLDS"  # constant slack towards keeping more
            else:
                # a non-negative multiple of penalty / split_cost?
                for base in (penalty, split_cost):
                    if base is None:
                        continue
                    ratio = (diff / base).as_const() if not base.is_zero() else None
                    if ratio is not None:
                        verdict = "VIOLATION" if ratio > 0 else "HOLDS"
        if verdict == "HOLDS":
            ctx.holds(rule_p, "mask", ev.loc(), "the keep mask prunes no more than Killick's rule (slack towards keeping)", found=repr(R(keep.t[2])))
        elif verdict == "VIOLATION":
            ctx.violation(rule_p, "mask", ev.loc(), "the keep mask discards starts that Killick's rule keeps (the comparison is shifted towards pruning)", found=f"{R(keep.t[2])!r} {keep.t[1]}", expected=f"{R(wk.t[2])!r} <=0")
        else:
            if keep.t[0] == "cmp" and keep.t[1] in ("<=0", "<0"):
                ctx.violation(rule_p, "mask", ev.loc(), "the keep mask is not the PELT pruning inequality", found=f"{R(keep.t[2])!r} {keep.t[1]}", expected=f"{R(wk.t[2])!r} <=0")
            else:
                ctx.violation(rule_p, "mask", ev.loc(), "the keep mask is not an inequality between the candidates and the new optimum", found=repr(keep), expected=repr(wk))


def _find_masks(ex, p, loop, Scur):
    """boolean-mask filters of the evaluated start set inside the loop: (event, cond, negated)"""
    out = []
    seen = set()
    for e in loop_events(p, loop, "read"):
        parts = e.data["parts"]
        if len(parts) == 1 and isinstance(parts[0], tuple) and parts[0][0] == "mask" and nf_equal(e.data["base"].nf, Scur):
            mk = e.data["index"][0]
            if isinstance(mk, Num) and mk.cond is not None and mk.cond.key not in seen:
                c = mk.cond
                if c.t[0] == "opq":
                    continue
                seen.add(c.key)
                # S[~keep] selects the pruned ones: cond here is the selection predicate
                out.append((e, c, True))
    return out


# ----------------------------------------------------------------- PRUNE-DIST


def check_prune_dist(ctx, ex, p, drv, loop, F, m, st):
    rule = "C02.e PRUNE-DIST"
    masks = st.get("masks")
    if masks is None:
        return
    if not masks:
        ctx.holds(rule, "no-pruning", drv.loc(), "nothing is pruned")
        return
    # how does the loop-carried start set change over one iteration?
    post = None
    for e in p.events:
        if e.kind == "loop_exit" and e.data["loop"] is loop:
            post = e.data["post"]
    carried = [n for n in loop.info.get("carried", [])]
    # name of the candidate variable: the one whose 'in' atom is Satom
    sname = None
    for n in carried:
        if Atom("lc", f"{loop.lid}.{n}.in").key in {a.key for a in atoms_of(_first_col(p, loop)).values()}:
            sname = n
    if sname is None or post is None:
        ctx.undecided(rule, "candidate-update", drv.loc(), "cannot identify the loop-carried candidate variable")
        return
    newS = post.get(sname)
    key = "delay"
    # case analysis on the update expression of the candidate set
    a = single_atom(newS.nf) if isinstance(newS, Num) and newS.nf is not None else None
    Scur = _first_col(p, loop)
    lists = {id(e.data["lst"]): e.data["lst"] for e in loop_events(p, loop, "list_append")}
    if a is not None and a.kind == "app" and a.args[0] == "idx" and nf_equal(a.args[1], Scur) and a.args[2][0][0] == "mask":
        # filtered in this iteration: by which mask?
        mk = a.args[2][0][1]
        # immediate: mask is (a function of) this iteration's keep mask
        for ev, cond, neg in masks:
            if cond.key in mk or cond.neg().key in mk:
                # distance 1: exact only if m == 1
                d = (m - 1).as_const()
                ctx.check(d is not None and d <= 0, rule, "immediate", ev.loc(), "a start pruned against F[t+1] is removed before the next end although a changepoint at t+1 is admissible only m steps later", found="candidates filtered in the iteration that computed the mask (distance 1)", expected="distance >= m (delay line) or min_segment_length == 1")
                return
        # via isin of a popped element
        for lst in lists.values():
            dl = delay_line(p, loop, lst)
            if isinstance(dl, str):
                continue
            popped = dl["pop"]
            if f"pop(list#{lst.lid})" in mk or "isin" in mk:
                # what is appended must be the pruned starts of this iteration
                av = dl["append"].data["value"]
                aa = single_atom(av.nf) if isinstance(av, Num) and av.nf is not None else None
                ok_app = aa is not None and aa.kind == "app" and aa.args[0] == "idx" and nf_equal(aa.args[1], Scur) and aa.args[2][0][0] == "mask" and any(c.key in aa.args[2][0][1] or c.neg().key in aa.args[2][0][1] for _, c, _ in masks)
                ctx.check(ok_app, rule, "delay-line|content", dl["append"].loc(), "each iteration appends exactly the starts its mask pruned", found=repr(av))
                # the removal must be by value (isin), negated
                ok_rm = "isin" in mk and "invert" in mk
                # np.isin(candidates, popped): membership of each CANDIDATE in the popped set (the mask has the candidates' length)
                j = mk.find("isin(")
                if ok_rm and j != -1:
                    first_arg = mk[j + 5:]
                    ok_rm = first_arg.startswith(repr(Scur)) or first_arg.startswith("[" + repr(Scur) + "]")
                ctx.check(ok_rm, rule, "delay-line|removal", popped.loc(), "the popped starts are removed from the candidates by value (~np.isin)", found=mk[:200])
                dist = dl["delay"] + 1
                gap = (dist - m).as_const()
                ctx.check(gap is not None and gap >= 0, rule, key, popped.loc(), "a pruning decided at step t takes effect m steps later at the earliest (FIFO delay + 1 >= min_segment_length)", found=f"delay {dl['delay']!r} iterations => distance {dist!r}", expected=f">= {m!r}")
                return
        ctx.undecided(rule, key, drv.loc(), "the candidate set is filtered by a mask that is neither this iteration's mask nor a delay line", found=mk[:200])
        return
    if a is not None and nf_equal(newS.nf, Scur):
        # not filtered on this path (the pop branch was not taken): nothing to show here
        ctx.holds(rule, "delay|not-yet", drv.loc(), "on the path where the FIFO is still filling no start is removed", nontrivial=False)
        return
    ctx.undecided(rule, key, drv.loc(), "unrecognised update of the candidate set", found=repr(newS))


def _first_col(p, loop):
    evals = loop_events(p, loop, "scorer_evaluate")
    ca = single_atom(evals[0].data["cuts"].nf)
    return ca.args[1][0]


# ------------------------------------------------------------------ BACKTRACK


def check_backtrack(ctx, ex, p, drv, rv, st):
    rule = "C02.f BACKTRACK"
    # the second output must be the backtracking helper applied to the back-pointer array
    cp = rv.items[1]
    # analyse the helper on its own
    helper = None
    from .common import return_exprs

    for v in return_exprs(drv):
        if isinstance(v, ast.Tuple) and len(v.elts) == 2:
            second = v.elts[1]
            if isinstance(second, ast.Name):
                # `cpts = helper(prev); return costs, cpts`
                one = [n for n in ast.walk(drv.node) if isinstance(n, ast.Assign) and len(n.targets) == 1 and isinstance(n.targets[0], ast.Name) and n.targets[0].id == second.id]
                if len(one) == 1:
                    second = one[0].value
            if isinstance(second, ast.Call) and isinstance(second.func, (ast.Name, ast.Attribute)):
                r = ctx.P.resolve_expr(drv.module, second.func)
                if isinstance(r, FuncInfo):
                    helper = (r, second)
    if helper is None:
        ctx.undecided(rule, "helper", drv.loc(), "the changepoints are not produced by a backtracking helper called in the return statement")
        return
    hf, hcall = helper
    # argument must be the back-pointer array
    prev = st.get("prev")
    if prev is not None and len(hcall.args) == 1 and isinstance(hcall.args[0], ast.Name):
        pass
    ex2 = new_executor(ctx)

    def thunk(ex2):
        prevv = Num(sym("prev"), (N,), "int", "ndarray", meta={"foreign": True})
        ex2.atom_shapes[Atom("sym", "prev").key] = (N,)
        return ex2.call_function(hf, [prevv], {}, None, None)

    paths = run(ctx, ex2, thunk)
    rets = returns(paths)
    if not rets or len(rets) != len(paths) or len(rets) > 2:
        ctx.undecided(rule, "helper", hf.loc(), f"backtracking helper has {len(paths)} paths ({len(rets)} returning)")
        return
    # Two idioms are decided.  (A) every visited start is collected and the artificial start 0 is dropped afterwards:
    # one path, result list[-2::-1].  (B) the artificial start is skipped inside the loop: the start is collected iff the
    # next index prev[i] - 1 is >= 0 (two paths), result list[::-1].
    first = True
    collected = {}
    for hp in rets:
        loops = main_loop(hp, hf.qualname)
        if len(loops) != 1 or loops[0].kind != "while":
            ctx.undecided(rule, "helper", hf.loc(), "backtracking helper is not a single while loop")
            return
        lp = loops[0]
        pre = lp.info["pre"]
        ivar = [n for n, v in pre.items() if isinstance(v, Num) and v.shape == ()]
        if len(ivar) != 1:
            ctx.undecided(rule, "helper", hf.loc(), "cannot identify the chain index variable")
            return
        iname = ivar[0]
        i0 = pre[iname]
        iin = NF.atom(Atom("lc", f"{lp.lid}.{iname}.in"))
        cond = lp.info.get("cond")
        body_i = lp.info["body_env"].get(iname)
        want_next = app("idx", sym("prev"), (("at", iin),)) - 1
        if first:
            first = False
            ctx.check(nf_equal(i0.nf, lift(N) - 1), rule, "start", hf.loc(lp.node), "the chain starts at the last sample, i = n - 1", found=repr(i0.nf), expected="n - 1")
            okc = cond is not None and cond.t[0] == "cmp" and cond.t[1] == "<=0" and nf_equal(cond.t[2], -iin)
            ctx.check(okc, rule, "condition", hf.loc(lp.node), "the chain is followed while i >= 0", found=repr(cond), expected="i >= 0")
        ok_step = isinstance(body_i, Num) and nf_equal(body_i.nf, want_next)
        if not ok_step or "step" not in collected:
            collected["step"] = True
            ctx.check(ok_step, rule, "step", hf.loc(lp.node), "i <- prev[i] - 1 (jump to the sample before the segment start)", found=repr(body_i), expected=repr(want_next))
        apps = [e for e in loop_events(hp, lp, "list_append")]
        ok_val = all(isinstance(e.data["value"], Num) and nf_equal(e.data["value"].nf, app("idx", sym("prev"), (("at", iin),))) for e in apps) and len(apps) <= 1
        if not ok_val:
            ctx.violation(rule, "collect", apps[0].loc() if apps else hf.loc(), "what is collected is not the visited segment start prev[i] (once per visit)", found=[repr(e.data["value"]) for e in apps])
            return
        # the decision (if any) that guards the append on this path: a test of the next index prev[i] - 1 >= 0
        gval = None
        for c, v in hp.facts:
            if c.t[0] == "cmp" and c.t[1] in ("<=0", "<0") and (nf_equal(c.t[2], -want_next) or nf_equal(c.t[2], -(want_next + 1)) or nf_equal(c.t[2], want_next + 1) or nf_equal(c.t[2], want_next)):
                # normalise to the truth of (prev[i] - 1 >= 0)
                if nf_equal(c.t[2], -want_next) and c.t[1] == "<=0":
                    gval = v
                elif nf_equal(c.t[2], -(want_next + 1)) and c.t[1] == "<0":
                    gval = v          # -(prev[i]) < 0  <=>  prev[i] >= 1
                elif nf_equal(c.t[2], want_next) and c.t[1] == "<0":
                    gval = not v      # prev[i] - 1 < 0
                elif nf_equal(c.t[2], want_next + 1) and c.t[1] == "<=0":
                    gval = not v      # prev[i] <= 0
        collected.setdefault("paths", []).append((bool(apps), gval, hp, apps))
    pinfo = collected.get("paths", [])
    out_slices = set()
    for has_app, gval, hp, apps in pinfo:
        out = hp.value
        src = out.meta.get("from_list") if isinstance(out, Num) else None
        sl = getattr(src, "slice_of", None)
        if sl is None:
            out_slices.add("no-slice")
            continue
        s_ = sl[1]
        lo = None if isinstance(s_.lo, NoneV) else (s_.lo.nf.as_const() if isinstance(s_.lo, Num) else "?")
        hi_none = isinstance(s_.hi, NoneV)
        stp = s_.step.nf.as_const() if isinstance(s_.step, Num) else None
        out_slices.add((lo, hi_none, stp))
    if len(pinfo) == 1 and pinfo[0][0] and pinfo[0][1] is None:
        ctx.holds(rule, "collect", pinfo[0][3][0].loc(), "each visited segment start prev[i] is collected exactly once")
        ok_ret = out_slices == {(-2, True, -1)}
        ctx.check(ok_ret, rule, "result", hf.loc(), "the result is the collected starts in reverse (increasing) order without the last collected one (the artificial start 0)", found=sorted(map(str, out_slices)), expected="list[-2::-1]")
    elif len(pinfo) == 2 and sorted((a_, g_) for a_, g_, _, _ in pinfo) == [(False, False), (True, True)]:
        ctx.holds(rule, "collect", hf.loc(), "a visited segment start is collected iff the chain continues (prev[i] - 1 >= 0): the artificial start 0, where the chain ends, is skipped")
        ok_ret = out_slices <= {(None, True, -1), (-1, True, -1)} and bool(out_slices)
        ctx.check(ok_ret, rule, "result", hf.loc(), "the result is the collected starts in reverse (increasing) order", found=sorted(map(str, out_slices)), expected="list[::-1]")
    else:
        ctx.violation(rule, "collect", hf.loc(), "the visited segment starts are neither all collected (and the artificial 0 dropped afterwards) nor collected exactly when the chain continues", found=[(a_, g_) for a_, g_, _, _ in pinfo], expected="one unconditional append, or an append guarded by prev[i] - 1 >= 0")


def _check_reported_scores(ctx, p, pred):
    """the prefix scores the detector reports (self.scores) are the driver's optimal costs: entries t >= min_segment_length - 1
    (prefixes X[0:t+1] of at least the minimum length) reach the reported series as the driver returned them"""
    rule = "C02.f BACKTRACK"
    from ..values import SliceV, NoneV

    sts = [e for e in p.events if e.kind == "attr_store" and e.data["attr"] == "scores" and isinstance(e.data["obj"], ObjV)]
    if not sts:
        ctx.undecided(rule, "prefix-scores", pred.loc(), "predict stores no `scores` attribute: where the prefix scores are reported is not recognised")
        return
    m = sym("min_segment_length")
    for e in sts[-1:]:
        v = e.data["value"]
        root = v
        while isinstance(root, Num) and isinstance(root.meta.get("alias_of"), Num):
            root = root.meta["alias_of"]
        a = single_atom(root.nf) if isinstance(root, Num) and root.nf is not None else None
        if not (a is not None and a.kind == "app" and a.args[0] == "driver_out" and a.args[2] == 0):
            ctx.violation(rule, "prefix-scores", e.loc(), "the reported prefix scores are not the optimal costs the driver returned", found=valkey(v)[:120], expected="driver output #0")
            continue
        arr = v.arr if v.arr is not None else root.arr
        bad, unk = [], []
        for sv in (arr.stores if arr is not None else []):
            idx = sv.data["index"]
            hi = None
            if len(idx) == 1 and isinstance(idx[0], SliceV) and isinstance(idx[0].lo, (NoneV, Num)) and isinstance(idx[0].hi, Num) and isinstance(idx[0].step, NoneV) and idx[0].hi.nf is not None:
                lo = idx[0].lo
                if isinstance(lo, NoneV) or (lo.nf is not None and lo.nf.as_const() is not None and lo.nf.as_const() >= 0):
                    hi = idx[0].hi.nf
            d = (hi - (m - 1)).as_const() if hi is not None else None
            if d is not None and d <= 0:
                continue  # only placeholders of prefixes shorter than the minimum length are overwritten
            (bad if d is not None else unk).append(sv)
        for sv in bad:
            ctx.violation(rule, "prefix-scores", sv.loc(), "predict overwrites the score of a prefix of admissible length (entry t belongs to the prefix X[0:t+1] of length t + 1: entries from min_segment_length - 1 on are optimal costs)", found=f"store at [{','.join(valkey(i) for i in sv.data['index'])}]", expected="stores confined to [: min_segment_length - 1]")
        for sv in unk:
            ctx.undecided(rule, "prefix-scores", sv.loc(), "a store into the reported scores whose extent is not decided", found=f"store at [{','.join(valkey(i) for i in sv.data['index'])}]")
        if not bad and not unk:
            ctx.holds(rule, "prefix-scores", e.loc(), "the reported prefix scores are the driver's optimal costs, unmodified from entry min_segment_length - 1 on", found=valkey(v)[:80])


def _check_transform_scores(ctx, cls):
    """the prefix scores are also what transform_scores hands out: the `scores` series predict stored, as it is"""
    rule = "C02.f BACKTRACK"
    from .common import return_exprs

    f = ctx.P.lookup_method(cls, "_transform_scores")
    if f is None or f.cls is None or f.cls.name != cls.name:
        ctx.undecided(rule, "published-scores", cls.module.relpath, "PELT._transform_scores not found (anchor vanished)")
        return
    me = f.params[0] if f.params else "self"
    changing = {"cummax", "cummin", "cumsum", "cumprod", "clip", "abs", "round", "diff", "shift", "rolling", "fillna", "ffill", "bfill", "sort_values", "rank", "pct_change", "expanding", "ewm", "where", "mask", "add", "sub", "mul", "div", "iloc", "loc", "head", "tail", "drop", "dropna"}
    assigned = {}
    for n in ast.walk(f.node):
        if isinstance(n, ast.Assign) and len(n.targets) == 1 and isinstance(n.targets[0], ast.Name):
            assigned.setdefault(n.targets[0].id, []).append(n.value)
    for r0 in return_exprs(f):
        r = r0
        hops = 0
        while isinstance(r, ast.Name) and len(assigned.get(r.id, [])) == 1 and hops < 4:
            r = assigned[r.id][0]  # a local that holds the value to be returned
            hops += 1
        e = r
        while isinstance(e, ast.Call) and isinstance(e.func, ast.Attribute) and e.func.attr in ("copy", "rename") and not (e.func.attr == "rename" and not e.args and not e.keywords):
            e = e.func.value  # a copy / a renamed copy of the series holds the same values
        if isinstance(e, ast.Attribute) and isinstance(e.value, ast.Name) and e.value.id == me and e.attr == "scores":
            ctx.holds(rule, "published-scores", f.loc(r), "transform_scores returns the prefix scores predict stored, unmodified")
            continue
        txt = norm_src(r)
        inner = [n for n in ast.walk(r) if isinstance(n, ast.Attribute) and isinstance(n.value, ast.Name) and n.value.id == me and n.attr == "scores"]
        altered = any(isinstance(n, ast.Call) and isinstance(n.func, ast.Attribute) and n.func.attr in changing for n in ast.walk(r)) or any(isinstance(n, (ast.BinOp, ast.Subscript, ast.UnaryOp)) for n in ast.walk(r))
        if inner and altered:
            ctx.violation(rule, "published-scores", f.loc(r), "transform_scores does not hand out the prefix scores as predict stored them: the reported score of a prefix is no longer its optimal penalised cost (the optimal cost is not monotone in the prefix when min_segment_length > 1 or costs are negative)", found=txt[:100], expected="return self.scores")
        else:
            ctx.undecided(rule, "published-scores", f.loc(r), "what transform_scores returns is not recognised as the stored prefix scores", found=txt[:100])


def check_predict_wiring(ctx, cls, pred, call, drv):
    """the driver's changepoints reach the formatter unmodified"""
    rule = "C02.f BACKTRACK"
    from .c15 import _driver_summary
    from .common import frame_sym, call_method, symbolic_hyperparams

    ex = new_executor(ctx, dict(ABSTRACT_SUMMARIES, **{drv.qualname: _driver_summary("PELT")}))
    st = {}

    def thunk(ex):
        # the cost is an arbitrary user-defined cost object (its truth value, length, ... are unknown)
        kw = symbolic_hyperparams(ex, ctx.P, cls, {"cost": lambda ex: abstract_scorer(ex, ctx.P, "skchange.costs.base.BaseCost", "user_cost", param="none")})
        obj = ex.new_object(cls, [], kw)
        obj.fields["_is_fitted"] = Num(None, (), "bool", cond=Cond.const(True))
        obj.fields["penalty_"] = Num(sym("penalty_"), (), "float")
        return call_method(ex, obj, "predict", frame_sym(ex))

    paths = run(ctx, ex, thunk)
    good = returns(paths)
    if not good:
        ctx.undecided(rule, "wiring", pred.loc(), "predict never returns")
        return
    for p in good:
        ctors = [e for e in p.events if e.kind == "pandas_ctor" and e.func is not None and e.func.name == "_format_sparse_output"]
        ok = False
        found = "formatter not reached"
        for e in ctors:
            d = e.data["data"]
            a = single_atom(d.nf) if isinstance(d, Num) and d.nf is not None else None
            found = repr(d)
            if a is not None and a.kind == "app" and a.args[0] == "driver_out" and a.args[2] == 1:
                ok = True
        ctx.check(ok, rule, "wiring", pred.loc(), "the changepoints returned by the driver are passed to the formatter unmodified", found=found, expected="driver output #1")
        _check_reported_scores(ctx, p, pred)
        _check_transform_scores(ctx, cls)
        # argument binding at the call site: penalty_ and min_segment_length
        calls = [e for e in p.events if e.kind == "driver_call"]
        if calls:
            b = calls[-1].data["bound"]
            okb = isinstance(b.get("penalty"), Num) and nf_equal(b["penalty"].nf, sym("penalty_")) and isinstance(b.get("min_segment_length"), Num) and nf_equal(b["min_segment_length"].nf, sym("min_segment_length"))
            ctx.check(okb, "C02.g BINDING", "driver-arguments", calls[-1].loc(), "the driver receives the fitted penalty_ and the configured min_segment_length", found={k: valkey(v) for k, v in b.items() if k in ("penalty", "min_segment_length")})
            # ... the cost the user configured (not a default substituted for it on some path)
            cparam = next((q for q in drv.params if "cost" in q), None)
            cv = b.get(cparam) if cparam else None
            okc = isinstance(cv, ObjV) and cv.key == "user_cost"
            ctx.check(okc, "C02.g BINDING", "driver-cost", calls[-1].loc(), "the driver minimises the cost object the user configured, on every path (a default substituted by a truth test of the object - `cost or L2Cost()` - replaces a user cost that is falsy, e.g. of length 0 before fit)", found=valkey(cv)[:80] if cv is not None else "nothing", expected="the user's cost object")
            # ... and the data itself: the values of the (normalised) input frame, not a transformed copy
            dparam = drv.params[0] if drv.params else None
            dv = b.get(dparam)
            okx = isinstance(dv, Num) and dv.nf is not None and nf_equal(dv.nf, sym("X"))
            ctx.check(okx, "C02.g BINDING", "driver-data", calls[-1].loc(), "the driver receives the values of the input as they are (costs are evaluated on the data, not on a centred / scaled copy)", found=valkey(dv)[:120] if dv is not None else "nothing", expected="X.values")
