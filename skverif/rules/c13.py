"""C13 - evaluate either rejects a cuts array or scores exactly the cuts it describes."""

from __future__ import annotations

import ast

from ..index import ClassInfo, FuncInfo
from ..nf import NF, Atom, Undecided, app, atoms_of, lift, nf_equal, single_atom, subst, sym
from ..values import NONE, Cond, ListV, NoneV, Num, ObjV, OpaqueV, StrV, TupleV, valkey
from .common import atoms_of_cond, both_polarities, K, N, Pdim, call_method, data_sym, guard_outcomes, new_executor, norm_src, raise_loc, returns, run

EXPLANATION = (
    "Static decision by exhaustive path enumeration of evaluate() for every registered scorer (the `_evaluate` kernels are cut off "
    "at their entry): (a) CHECK-DOMINATES-KERNEL - no class overrides `evaluate`, no code other than BaseIntervalScorer.evaluate "
    "calls `_evaluate`, and every path that reaches a kernel has passed as_2d_array and the cuts check; (b) SANITISE-RANGE - every "
    "path from the cuts argument to a kernel (where cuts subscript fitted arrays: the sinks) carries the facts not any(cuts < 0) "
    "and not any(cuts > N) with N the normal form of the fitted row count; the guards must exist and, when they fire, end in "
    "ValueError; (c) CHECK-COMPLETE - guards for ndim != 2 (ndim > 2 in as_2d_array), non-integer dtype, wrong number of columns "
    "and a row difference below min_size exist on every scorer's path, fire into ValueError and nothing else is raised; "
    "LocalAnomalyScore additionally bounds the inner size and the pooled surrounding size by min_size. Values of accepted cuts are "
    "decided under C01/C06."
)
# obligations added during the build phase (seeding rounds, twins, mutation analysis)
ADDED_IN_BUILD = ' Also: three scenarios per scorer (ndarray of unknown shape and dtype; any array-like container; (k, width) integer array); no cast of the cuts to an integer dtype before their own dtype was tested (cast-before-dtype-check); signed-differences - the spacing test is decided on differences of a signed type (a signed cast before np.diff / before the test, or a signed-integer dtype test): unsigned cuts cannot wrap around (finding F-24); rank-of-argument - on every path to the kernel the facts about the rank of the argument as given exclude more than two dimensions. min-size-value: the required spacing of each directly implemented scorer equals the reference table (1, 2, p + 1, 1, 1), fitted on (n, p) data and on a 1-D series (p = 1). dtype-exact (F-26): the dtype test that admits cuts excludes timedelta64 (dtype.kind in \'iu\', or the hierarchy test with an explicit exclusion). kernel-dtype-int64: on every path the cuts reach the kernel through an unconditional cast to a 64-bit signed type. compare-before-dtype-check: no value of the cuts is compared before the dtype fact (TypeError for ValueError on non-numeric arrays).'
EXPLANATION = EXPLANATION + ADDED_IN_BUILD

ASSUMPTIONS = [
    "Python's ast module and evaluation-order/argument-binding semantics as implemented in skverif/symex.py",
    "library model table skverif/models.py (np.issubdtype, np.diff, np.any/np.all, ndarray.ndim/shape/dtype)",
    "kernels are reachable only through BaseIntervalScorer.evaluate (checked by the who-may-call rule on the whole package)",
]

SCORERS = [
    ("skchange.costs", "L2Cost", 2, None),
    ("skchange.costs", "GaussianVarCost", 2, None),
    ("skchange.costs", "GaussianCovCost", 2, None),
    ("skchange.change_scores", "CUSUM", 3, None),
    ("skchange.change_scores", "ChangeScore", 3, ("skchange.costs", "L2Cost", None)),
    ("skchange.anomaly_scores", "L2Saving", 2, None),
    ("skchange.anomaly_scores", "Saving", 2, ("skchange.costs", "L2Cost", "fixed")),
    ("skchange.anomaly_scores", "LocalAnomalyScore", 4, ("skchange.costs", "GaussianVarCost", None)),
]


def check(ctx):
    check_who_may_call(ctx)
    regs = []
    for reg in (("skchange.costs", "COSTS"), ("skchange.change_scores", "CHANGE_SCORES"), ("skchange.anomaly_scores", "ANOMALY_SCORES")):
        regs += [c.name for c in ctx.P.registry(*reg)]
    covered = {s[1] for s in SCORERS}
    for name in regs:
        if name not in covered:
            ctx.undecided("C13 TABLE", name, "", "registered scorer without a scenario (unspecified instance)")
    n_k = 0
    for pkg, name, width, inner in SCORERS:
        for mode in ("shape-unknown", "any-container", "shape-known"):
            ctx.guard("C13.a CHECK-DOMINATES-KERNEL", f"{name}|{mode}", lambda: check_scorer(ctx, pkg, name, width, inner, mode))
            n_k += 1
    for pkg, name, width, inner in SCORERS:
        if name in MIN_SPACING:
            ctx.guard("C13.c CHECK-COMPLETE", f"{name}|min-size-value", lambda: check_min_size_value(ctx, pkg, name), "")
    ctx.expect_min("C13.b SANITISE-RANGE", sum(1 for o in ctx.obs if o.rule == "C13.b SANITISE-RANGE" and o.status == "HOLDS"), 16)
    ctx.stats["sinks"] = count_sinks(ctx)


# the minimum spacing each directly implemented scorer requires (the smallest interval its definition scores), as a function
# of the number of variables p - the reference confirmed on the tree the checks were built on; adapters take their cost's
# (C06.d MIN-SIZE-WIRE)
MIN_SPACING = {
    "L2Cost": lambda p: NF.const(1),
    "GaussianVarCost": lambda p: NF.const(2),
    "GaussianCovCost": lambda p: lift(p) + 1,
    "CUSUM": lambda p: NF.const(1),
    "L2Saving": lambda p: NF.const(1),
}


def check_min_size_value(ctx, pkg, name):
    """the spacing bound is the scorer's required one whatever container the data came in: a univariate series handed over
    as a 1-D array is one variable (p = 1), not n of them - a larger bound rejects cuts the property says are accepted"""
    rule = "C13.c CHECK-COMPLETE"
    cls = ctx.P.public_class(pkg, name)
    loc = cls.methods["min_size"].loc() if "min_size" in cls.methods else cls.module.relpath
    for label, shape, p in (("2-D data (n, p)", (N, Pdim), Pdim), ("1-D data (n,)", (N,), NF.const(1))):
        ex2 = new_executor(ctx)

        def thunk(ex2, shape=shape):
            X = data_sym(ex2, shape=shape)
            obj = make_obj(ex2, ctx, pkg, name, None)
            call_method(ex2, obj, "fit", X)
            return ex2.getattr(obj, "min_size", None)

        paths = run(ctx, ex2, thunk)
        rets = returns(paths)
        want = MIN_SPACING[name](p)
        if not rets:
            ctx.undecided(rule, f"{name}|min-size-value|{label[:3]}", loc, "fit never returns on " + label, found=sorted({(q.outcome, q.exc.exc_name if q.exc else "") for q in paths})[:3])
            continue
        for q in rets:
            v = q.value
            if not (isinstance(v, Num) and v.nf is not None):
                ctx.undecided(rule, f"{name}|min-size-value|{label[:3]}", loc, "min_size has no normal form (a call without a model): not decided", found=repr(v)[:100])
                continue
            ok = isinstance(v, Num) and v.nf is not None and nf_equal(v.nf, want)
            ctx.check(ok, rule, f"{name}|min-size-value|{label[:3]}", loc, f"fitted on {label} the minimum spacing is {want!r}", found=repr(v), expected=repr(want))


def check_who_may_call(ctx):
    rule = "C13.a CHECK-DOMINATES-KERNEL"
    base = ctx.P.cls("skchange.base.base_interval_scorer.BaseIntervalScorer")
    for c in ctx.P.subclasses(base, strict=True):
        if "evaluate" in c.methods:
            ctx.violation(rule, f"{c.name}|override", c.methods["evaluate"].loc(), "a scorer overrides evaluate(): the shared validation no longer dominates its kernel")
    bad = []
    for f in ctx.P.functions.values():
        for n in ast.walk(f.node):
            if isinstance(n, ast.Call) and isinstance(n.func, ast.Attribute) and n.func.attr == "_evaluate":
                if not (f.cls is not None and f.cls.qualname == base.qualname and f.name == "evaluate"):
                    bad.append((f, n))
    for f, n in bad:
        ctx.violation(rule, f"{f.qualname}|direct-kernel-call", f.loc(n), "`_evaluate` is called from outside BaseIntervalScorer.evaluate: cuts reach a kernel unchecked")
    if not bad:
        ctx.holds(rule, "who-may-call", base.module.relpath, f"`_evaluate` is called only by BaseIntervalScorer.evaluate ({len(ctx.P.functions)} functions scanned) and no subclass overrides evaluate")
    ev = base.methods.get("evaluate")
    if ev is None:
        ctx.undecided(rule, "evaluate", base.module.relpath, "BaseIntervalScorer.evaluate not found")


def _kernel_summary(ex, func, args, kwargs, so, node):
    cuts = args[0] if args else kwargs.get("cuts")
    ex.emit("kernel_enter", node, owner=func.cls.name if func.cls else None, cuts=cuts, facts=list(ex.facts))
    return ex.mk("kernel_out", func.qualname, shape=None, dtype="float")


def make_obj(ex, ctx, pkg, name, inner):
    cls = ctx.P.public_class(pkg, name)
    args = []
    if inner is not None:
        ipkg, iname, imode = inner
        icls = ctx.P.public_class(ipkg, iname)
        iargs = [Num(NF.const(0), (), "float")] if imode == "fixed" else []
        args = [ex.new_object(icls, iargs, {})]
    return ex.new_object(cls, args, {})


def check_scorer(ctx, pkg, name, width, inner, mode):
    cls = ctx.P.public_class(pkg, name)
    summ = {}
    # cut the analysis at the kernel entry of THIS scorer (inner costs of adapters are not entered)
    k = ctx.P.lookup_method(cls, "_evaluate")
    if k is None:
        ctx.undecided("C13.a CHECK-DOMINATES-KERNEL", name, cls.module.relpath, "no _evaluate")
        return
    summ[k.qualname] = _kernel_summary
    ex = new_executor(ctx, summ, max_paths=200)

    def thunk(ex):
        X = data_sym(ex)
        obj = make_obj(ex, ctx, pkg, name, inner)
        call_method(ex, obj, "fit", X)
        if mode == "shape-known":
            cuts = Num(sym("cuts"), (K, NF.const(width)), "int", "ndarray", meta={"foreign": True})
            ex.atom_shapes[Atom("sym", "cuts").key] = (K, NF.const(width))
        elif mode == "any-container":
            # a list / tuple / ndarray / frame: which container the caller used is not known
            cuts = Num(sym("cuts"), None, None, "arraylike", meta={"foreign": True})
        else:
            cuts = Num(sym("cuts"), None, None, "ndarray", meta={"foreign": True})
        return call_method(ex, obj, "evaluate", cuts)

    paths = run(ctx, ex, thunk)
    loc = cls.module.relpath
    reach = [p for p in paths if any(e.kind == "kernel_enter" for e in p.events)]
    # ---------------------------------------------------- only ValueError is raised
    for p in paths:
        if p.outcome == "raise" and p.exc.exc_name != "ValueError":
            ctx.violation("C13.c CHECK-COMPLETE", f"{name}|{mode}|raise-kind", raise_loc(p, loc), "evaluate rejects a cuts array with something other than ValueError", found=p.exc.exc_name, expected="ValueError")
    if not reach:
        ctx.violation("C13.a CHECK-DOMINATES-KERNEL", f"{name}|{mode}", loc, "no path reaches the kernel: every cuts array is rejected", found=[p.exc.exc_name for p in paths if p.exc][:4])
        return
    if mode == "shape-known":
        # whether a (k, width) integer array is accepted depends on its entries, never on the number k of cuts
        kkey = Atom("sym", "k").key
        # a deciding guard that looks at the number of rows ONLY (a guard that also reads entries, e.g. `cuts.size > 0 and
        # cuts.min() < 0`, is about the entries)
        badk = [p for p in paths if p.outcome == "raise" and p.facts and atoms_of_cond(p.facts[-1][0]) and all(a.key == kkey for a in atoms_of_cond(p.facts[-1][0]))]
        ctx.check(not badk, "C13.c CHECK-COMPLETE", f"{name}|row-count", raise_loc(badk[0], loc) if badk else loc, "no rejection is decided by the number of rows of the cuts array (a test of the wrong dimension)", found=repr(badk[0].facts[-1][0])[:120] if badk else "no such guard", expected="guards on the last dimension, the dtype, the entries")
    cuts_s = sym("cuts")
    n = lift(N)
    if mode == "shape-known":
        # -------------------------------------------------- SANITISE-RANGE
        mn, mx = app("minall", cuts_s), app("maxall", cuts_s)

        first_col, last_col = app("col", cuts_s, NF.const(0)), app("col", cuts_s, NF.const(width - 1))

        def lowp(c):
            # any(cuts < 0) | cuts.min() < 0 | any(cuts[:, 0] < 0)  (rows are strictly increasing)
            if c.t[0] == "any" and c.t[1].t[0] == "cmp" and c.t[1].t[1] == "<0" and (nf_equal(c.t[1].t[2], cuts_s) or nf_equal(c.t[1].t[2], first_col)):
                return True
            return c.t[0] == "cmp" and c.t[1] == "<0" and (nf_equal(c.t[2], mn) or nf_equal(c.t[2], app("minall", first_col)))

        def highp(c):
            # any(cuts > N) | cuts.max() > N | any(cuts[:, -1] > N)  (rows are strictly increasing)
            if c.t[0] == "any" and c.t[1].t[0] == "cmp" and c.t[1].t[1] == "<0" and (nf_equal(c.t[1].t[2], n - cuts_s) or nf_equal(c.t[1].t[2], n - last_col)):
                return True
            return c.t[0] == "cmp" and c.t[1] == "<0" and (nf_equal(c.t[2], n - mx) or nf_equal(c.t[2], n - app("maxall", last_col)))

        def holds_on(p, pred):
            for c, v in both_polarities(p.facts):
                for sub, vv in _flat_or(c, v):
                    if pred(sub) and vv is False:
                        return True
            return False

        ok_low = all(holds_on(p, lowp) for p in reach)
        ok_high = all(holds_on(p, highp) for p in reach)
        ke = [e for p in reach for e in p.events if e.kind == "kernel_enter"]
        ctx.check(ok_low, "C13.b SANITISE-RANGE", f"{name}|lower", ke[0].loc(), "every path to the kernel has established not any(cuts < 0): no negative position can wrap around in a prefix-sum subscript", found=_facts(reach[0]), expected="a dominating `any(cuts < 0)` guard that raises ValueError")
        ctx.check(ok_high, "C13.b SANITISE-RANGE", f"{name}|upper", ke[0].loc(), "every path to the kernel has established not any(cuts > N), N the fitted row count: no slice is silently truncated", found=_facts(reach[0]), expected=f"a dominating `any(cuts > {n!r})` guard that raises ValueError")
        # fired guards raise ValueError
        for nm, pred in (("lower", lowp), ("upper", highp)):
            fired = [p for p in paths if any(pred(sub) and vv for c, v in both_polarities(p.facts) for sub, vv in _flat_or(c, v))]
            if fired:
                ctx.check(all(p.outcome == "raise" and p.exc.exc_name == "ValueError" for p in fired), "C13.b SANITISE-RANGE", f"{name}|{nm}|raises", raise_loc(fired[0], loc), "an out-of-range cut is rejected with ValueError", found=[(p.outcome, p.exc.exc_name if p.exc else "") for p in fired])
        # ------------------------------------------------ spacing / min_size
        # consecutive differences ALONG each row (axis 1) of the cuts array itself
        # the row differences D of the cuts array, in one canonical spelling: np.diff(cuts, axis=1) is expanded to the
        # explicit column form cuts[:, 1:] - cuts[:, :-1] (for two columns: cuts[:, 1] - cuts[:, 0])
        D = _rowdiff(cuts_s, width)

        def expand(nf):
            mp = {a.key: D for a in atoms_of(nf).values() if a.kind == "app" and a.args[0] == "diff" and a.args[4] in (1, -1) and nf_equal(lift(a.args[1]), cuts_s) and a.args[2] == "none" and a.args[3] == "none"}
            return subst(nf, mp) if mp else nf

        def mentions_cuts(nf):
            return any(a.kind == "sym" and a.args[0] == "cuts" for a in atoms_of(nf, deep=True).values())

        def dpred(c):
            if not (c.t[0] == "any" and c.t[1].t[0] == "cmp"):
                return False
            g = expand(c.t[1].t[2])
            return mentions_cuts(g) and (not mentions_cuts(g - D) or not mentions_cuts(g + D))
        fired = guard_outcomes(paths, dpred)
        ok = bool(fired) and all(p.outcome == "raise" and p.exc.exc_name == "ValueError" for p in fired) and all(any(dpred(c) and v is False for c, v in both_polarities(p.facts)) for p in reach)
        ctx.check(ok, "C13.c CHECK-COMPLETE", f"{name}|spacing", raise_loc(fired[0], loc) if fired else loc, "rows whose consecutive differences are below min_size are rejected with ValueError on every path to the kernel", found=f"{len(fired)} rejecting paths")
        # the bound used is the scorer's own min_size
        ms = _min_size_nf(ex, ctx, pkg, name, inner)
        if ms is not None and fired:
            want = lambda c: c.t[0] == "any" and c.t[1].t[0] == "cmp" and c.t[1].t[1] == "<0" and nf_equal(expand(c.t[1].t[2]), D - ms)  # noqa: E731
            if name != "LocalAnomalyScore":
                ctx.check(bool(guard_outcomes(paths, want)), "C13.c CHECK-COMPLETE", f"{name}|min-size-bound", raise_loc(fired[0], loc), "the spacing bound is the scorer's own min_size (strictly increasing and at least min_size apart)", found=[repr(c) for p in fired[:1] for c, v in both_polarities(p.facts) if dpred(c)], expected=f"any(diff(cuts) < {ms!r})")
        if name == "LocalAnomalyScore" and fired:
            # the four cut points need only be strictly increasing: a flank may be a single sample
            # (the pooled surroundings and the inner interval are what min_size bounds)
            want1 = lambda c: c.t[0] == "any" and c.t[1].t[0] == "cmp" and c.t[1].t[1] == "<0" and nf_equal(expand(c.t[1].t[2]), D - 1)  # noqa: E731
            ctx.check(bool(guard_outcomes(paths, want1)), "C13.c CHECK-COMPLETE", f"{name}|flank-bound", raise_loc(fired[0], loc), "consecutive cut points are required to be strictly increasing only (each flank >= 1 sample); min_size bounds the inner interval and the pooled surroundings, not each flank", found=[repr(c) for p in fired[:1] for c, v in both_polarities(p.facts) if dpred(c)], expected="any(diff(cuts) < 1)")
        if name == "LocalAnomalyScore" and ms is not None:
            # exact bounds: the inner interval [a, b) and the pooled surroundings [s, a) + [b, e) each hold at least min_size rows
            c = [app("col", cuts_s, NF.const(j)) for j in range(4)]
            inner_sz = c[2] - c[1]
            surr_sz = (c[1] - c[0]) + (c[3] - c[2])

            def size_guard(sz):
                return lambda q: q.t[0] == "any" and q.t[1].t[0] == "cmp" and q.t[1].t[1] == "<0" and nf_equal(q.t[1].t[2], sz - ms)

            for nm, sz in (("inner", inner_sz), ("surrounding", surr_sz)):
                hit = guard_outcomes(paths, size_guard(sz))
                okg = bool(hit) and all(p.outcome == "raise" and p.exc.exc_name == "ValueError" for p in hit) and all(any(size_guard(sz)(q) and v is False for q, v in both_polarities(p.facts)) for p in reach)
                ctx.check(okg, "C13.c CHECK-COMPLETE", f"{name}|{nm}-size", raise_loc(hit[0], loc) if hit else loc, f"rows whose {nm} part ({'cuts[:,2] - cuts[:,1]' if nm == 'inner' else '(cuts[:,1] - cuts[:,0]) + (cuts[:,3] - cuts[:,2])'}) holds fewer than min_size samples are rejected with ValueError on every path to the kernel", found=f"{len(hit)} rejecting paths; size guards seen: {sorted({repr(q)[:90] for p in paths for q, v in p.facts if q.t[0] in ('any', 'all') and 'diff' not in q.key})[:4]}", expected=f"any({sz!r} < {ms!r})")
    else:
        # ------------------------------------------------ ndim / dtype / width
        nd = lambda c: c.t[0] == "cmp" and any(a.kind == "app" and a.args[0] == "ndim" for a in atoms_of(c.t[2]).values())  # noqa: E731
        def dt(c):
            """the test 'is an integer array': np.issubdtype(., np.integer), or a kind test that admits exactly i and u.  A
            kind test for ONE of them (`kind == "i"`) is only half of it and is combined per path (kind_state)"""
            if not (c.t[0] == "opq" and "issubdtype" in c.key and "integer" in c.key):
                return False
            import re as _re

            m = _re.search(r"\[kind:([a-zA-Z]+)\]$", str(c.t[1]))
            return m is None or set(m.group(1)) == {"i", "u"}

        def wd(c):
            """an equality test of the last dimension of the caller's array: opaque for an array of unknown shape, a
            comparison of the free dimension after a 1-D row vector was reshaped to (1, -1)"""
            if c.t[0] == "opq" and "shape(" in c.key and ("cmp!=" in c.key or "cmp==" in c.key):
                return True
            return c.t[0] == "cmp" and c.t[1] in ("!=0", "==0") and any(a.kind == "app" and a.args[0] == "freedim" for a in atoms_of(c.t[2]).values())

        # ndim: paths to the kernel must have ndim == 2 established (possibly after the 1-D reshape)
        # every path to the kernel has established that the argument AS GIVEN is a vector or a matrix: a helper that
        # squeezes / reshapes an array of higher rank into a matrix lets a 3-D cuts array be scored silently
        def rank_of_original(p):
            """the set of ranks of the original cuts array that the path facts admit, out of {1, 2, 3 (= more)}"""
            ranks = {1, 2, 3}
            for c, v in p.facts:
                if c.t[0] != "cmp":
                    continue
                tops = atoms_of(c.t[2], deep=False)
                ats = [a for a in tops.values() if a.kind == "app" and a.args[0] == "ndim" and nf_equal(lift(a.args[1]), cuts_s)]
                if len(ats) != 1 or len(tops) != 1:
                    continue
                keep = set()
                for r in ranks:
                    val = subst(c.t[2], {ats[0].key: NF.const(r)}).as_const()
                    if val is None:
                        keep.add(r)
                        continue
                    holds = {"<0": val < 0, "<=0": val <= 0, "==0": val == 0, "!=0": val != 0}[c.t[1]]
                    # rank "3" stands for every rank >= 3: a strict / non-strict bound at 3 behaves the same for all of them
                    if holds == v:
                        keep.add(r)
                ranks = keep
            return ranks

        too_deep = [p for p in reach if 3 in rank_of_original(p)]
        ctx.check(not too_deep, "C13.c CHECK-COMPLETE", f"{name}|{mode}|rank-of-argument" if mode != "shape-unknown" else f"{name}|rank-of-argument", raise_loc(too_deep[0], loc) if too_deep else loc, "on every path to the kernel the cuts argument as given has at most two dimensions (a 3-D array is rejected, not squeezed or reshaped into a matrix)", found=(_facts(too_deep[0]) if too_deep else "rank in {1, 2} established on every path"), expected="ValueError for more than two dimensions")
        rej_nd = [p for p in paths if p.outcome == "raise" and any(nd(c) for c, v in both_polarities(p.facts)) and not any(dt(c) or (c.t[0] == "not" and dt(c.t[1])) or wd(c) for c, v in both_polarities(p.facts))]
        ctx.check(bool(rej_nd) and all(p.exc.exc_name == "ValueError" for p in rej_nd), "C13.c CHECK-COMPLETE", f"{name}|ndim", raise_loc(rej_nd[0], loc) if rej_nd else loc, "arrays that are not 2-D (after a 1-D row vector is reshaped) are rejected with ValueError", found=f"{len(rej_nd)} rejecting paths")
        def _kind_chars(c):
            """the dtype kinds a kind test admits (`dtype.kind in "iu"`, `dtype.kind == "i"`), else None"""
            import re as _re

            if c.t[0] != "opq":
                return None
            raw = str(c.t[1])
            m = _re.search(r"\[kind:([a-zA-Z]+)\]$", raw) or _re.search(r"dtypekind\(.*,([a-zA-Z]+)\)$", raw)
            return set(m.group(1)) if m else None

        def dtype_fact(c, v):
            """None if the fact is not about the dtype, else True when it says 'integer'"""
            if c.t[0] == "or":
                # kind == "i" or kind == "u": the kind test spelled as a disjunction of equalities
                from .common import flatten as _fl

                ks = [_kind_chars(q) for q in _fl(c, "or")]
                if all(k is not None for k in ks) and set().union(*ks) == {"i", "u"}:
                    return v
            if dt(c):
                return v
            if c.t[0] == "not" and dt(c.t[1]):
                return not v
            return None

        def kind_state(facts):
            """(admitted, excluded): the dtype kinds the single-kind tests decided on this path admit / exclude"""
            admitted, excluded = None, set()
            for c, v in both_polarities(facts):
                ks = _kind_chars(c)
                if ks is None or dt(c):
                    continue
                if v:
                    admitted = set(ks) if admitted is None else (admitted & ks)
                else:
                    excluded |= ks
            return admitted, excluded

        def says_integer(facts):
            if any(dtype_fact(c, v) is True for c, v in both_polarities(facts)):
                return True
            adm, _exc = kind_state(facts)
            return adm is not None and bool(adm) and adm <= {"i", "u"}

        def dtype_rejects(p):
            adm0, exc0 = kind_state(p.facts)
            if {"i", "u"} <= exc0:
                return True  # neither a signed nor an unsigned integer kind: the single-kind tests all failed
            """the guard that holds the dtype test fired: the test itself said 'not integer', or a disjunction that has
            'not integer' among its alternatives came out true (`if not is_int or is_timedelta: raise`)"""
            from .common import flatten

            for c, v in both_polarities(p.facts):
                if dtype_fact(c, v) is False:
                    return True
                if c.t[0] == "or" and v is True and any(dtype_fact(q, True) is False for q in flatten(c, "or")):
                    return True
            return False

        fired = [p for p in paths if dtype_rejects(p)]
        ok = bool(fired) and all(p.outcome == "raise" and p.exc.exc_name == "ValueError" for p in fired) and all(says_integer(p.facts) for p in reach)
        ctx.check(ok, "C13.c CHECK-COMPLETE", f"{name}|{mode}|dtype" if mode != "shape-unknown" else f"{name}|dtype", raise_loc(fired[0], loc) if fired else loc, "non-integer cuts are rejected with ValueError on every path to the kernel", found=f"{len(fired)} rejecting paths")
        # ... and the test that admits them is exact: numpy files timedelta64 under np.integer, so np.issubdtype(dtype,
        # np.integer) alone lets an array of durations through (F-26); the kind test `dtype.kind in "iu"` does not, nor does
        # the hierarchy test together with an explicit exclusion of timedelta64
        def exact_int(p):
            fs = [(c, v) for c, v in both_polarities(p.facts)]
            by_kind = any(dtype_fact(c, v) is True and "[kind:" in c.key for c, v in fs) or (not any(dtype_fact(c, v) is True for c, v in fs) and says_integer(p.facts))
            no_td = any(c.t[0] == "opq" and "issubdtype" in c.key and "timedelta64" in c.key and v is False for c, v in fs)
            return by_kind or no_td

        inexact = [p for p in reach if not exact_int(p)]
        ctx.check(not inexact and bool(reach), "C13.c CHECK-COMPLETE", f"{name}|{mode}|dtype-exact", raise_loc(fired[0], loc) if fired else loc, "the dtype test that admits the cuts admits plain integers only (timedelta64 is a subtype of np.integer in numpy's hierarchy: cuts given as durations must be rejected, not scored)", found=("np.issubdtype(cuts.dtype, np.integer) alone" if inexact else "dtype.kind in 'iu' (or the hierarchy test with timedelta64 excluded)"), expected="cuts.dtype.kind in 'iu'")
        # the dtype that is tested is the caller's: no conversion to an integer type (which truncates fractions silently)
        # happens before the test has been passed
        ckey = Atom("sym", "cuts").key
        early = {}
        n_cast = 0
        for p in paths:
            for e in p.events:
                if e.kind != "cast":
                    continue
                v = e.data["value"]
                if not (isinstance(v, Num) and v.nf is not None and ckey in atoms_of(v.nf)):
                    continue
                n_cast += 1
                if e.data["dtype"] != "float" and not says_integer(list(e.facts)):
                    early.setdefault(e.loc(), e)
        # ... and no VALUE of the cuts is compared before that either: `cuts < 0` on an array of strings, dates or objects
        # raises numpy's TypeError, not the ValueError the property promises for "not an integer array".  The facts of a
        # path are in the order they were decided: a comparison of cut values decided before the dtype is known is early.
        if mode != "shape-known":
            early_cmp = None
            for p in paths:
                seen = []
                for c, v in p.facts:
                    seen.append((c, v))
                    if says_integer(seen):
                        break
                    leaves, todo = [], [c]
                    while todo:
                        x = todo.pop()
                        if x.t[0] in ("and", "or"):
                            todo.extend([x.t[1], x.t[2]])
                        elif x.t[0] in ("not", "any", "all"):
                            todo.append(x.t[1])
                        else:
                            leaves.append(x)
                    if any(x.t[0] == "cmp" and ckey in atoms_of(x.t[2]) and not any(a.kind == "app" and a.args and a.args[0] in ("ndim", "freedim", "len", "size", "dim") for a in atoms_of(x.t[2], deep=False).values()) for x in leaves):
                        early_cmp = (p, c)
                        break
                if early_cmp:
                    break
            ctx.check(early_cmp is None, "C13.c CHECK-COMPLETE", f"{name}|{mode}|compare-before-dtype-check", loc, "no value of the cuts is compared before their dtype has been tested (a comparison on a non-numeric array raises TypeError instead of the promised ValueError)", found=(repr(early_cmp[1])[:120] if early_cmp else "dtype first"), expected="the integer-dtype test dominates every comparison of cut values")
        # the spacing test is decided on SIGNED differences: for cuts of an unsigned integer dtype (which the dtype test
        # admits) cuts[:, j+1] - cuts[:, j] wraps around to a huge positive number for a decreasing row, and the row is
        # scored silently.  Accepted: the operand of np.diff went through a cast to a signed integer type; a cast of the
        # cuts to a signed type precedes the spacing test; or the dtype test itself demands a signed integer.
        from ..models import _signed_target

        D2 = None
        for p in reach[:1]:
            signed_guard = any("signedinteger" in c.key for c, v in both_polarities(p.facts) if dtype_fact(c, v) is not None or "issubdtype" in c.key)
            diffs = [e for e in p.events if e.kind == "diff" and isinstance(e.data["operand"], Num) and e.data["operand"].nf is not None and ckey in atoms_of(e.data["operand"].nf, deep=True) and e.func is not None and "check" in e.func.name]
            sp_keys = {c.key for c, v in p.facts if _is_spacing_fact(c, ckey)}
            casts = [e for e in p.events if e.kind == "cast" and isinstance(e.data["value"], Num) and e.data["value"].nf is not None and ckey in atoms_of(e.data["value"].nf) and _signed_target(e.data.get("target")) is True and not any(c.key in sp_keys for c, _ in e.facts)]
            # differences taken after strictly increasing rows have been established (on signed differences) cannot wrap
            unsigned_diff = [e for e in diffs if e.data["operand"].meta.get("signed") is not True and not any(c.key in sp_keys for c, _ in e.facts)]
            ok_sd = signed_guard or (bool(casts) and not unsigned_diff)
            where = (unsigned_diff[0].loc() if unsigned_diff else (diffs[0].loc() if diffs else loc))
            ctx.check(ok_sd, "C13.c CHECK-COMPLETE", f"{name}|{mode}|signed-differences", where, "the spacing of the cuts is tested on signed differences (a cast to a signed integer type before the differences are taken, or a signed-integer dtype test): unsigned cuts cannot wrap around", found=("np.diff of the cuts as given (their dtype may be unsigned)" if unsigned_diff else ("no cast to a signed type before the spacing test" if not casts else "signed")), expected="np.diff(cuts.astype(np.int64, copy=False), axis=1) or np.issubdtype(cuts.dtype, np.signedinteger)")
        # the kernels do signed arithmetic on the cuts (-n, n * log(...), differences): what they receive is of a signed
        # integer type - the dtype test demands it, or the validated cuts are cast to one on the way (finding F-25: valid
        # unsigned cuts were scored with wrapped-around lengths)
        for p in reach[:1]:
            signed_guard = any("signedinteger" in c.key for c, v in both_polarities(p.facts) if "issubdtype" in c.key)
            ke_ = [e for e in p.events if e.kind == "kernel_enter"]
            kc = ke_[0].data.get("cuts") if ke_ else None
            ok_k = signed_guard or (isinstance(kc, Num) and kc.meta.get("signed") is True)
            ctx.check(ok_k, "C13.c CHECK-COMPLETE", f"{name}|{mode}|kernel-dtype-signed", ke_[0].loc() if ke_ else loc, "the cuts handed to the kernel are of a signed integer type (cast after validation, or a signed-integer dtype test): unsigned cuts cannot wrap around in the kernel's arithmetic", found=("signed" if ok_k else "the validated cuts are handed on in their own dtype (may be unsigned)"), expected="self._evaluate(cuts.astype(np.int64, copy=False)) or np.issubdtype(cuts.dtype, np.signedinteger)")
        # ... on EVERY path to the kernel, and in 64 bits: the kernels multiply lengths (n * before_n, n * p); valid cuts
        # given as int8 / int16 / int32 overflow there if they are handed on in their own dtype
        narrow = []
        for p in reach:
            ke2 = [e for e in p.events if e.kind == "kernel_enter"]
            kc2 = ke2[0].data.get("cuts") if ke2 else None
            if not (isinstance(kc2, Num) and kc2.meta.get("signed") is True and kc2.meta.get("wide") is True):
                narrow.append((p, ke2))
        if reach:
            ctx.check(not narrow, "C13.c CHECK-COMPLETE", f"{name}|{mode}|kernel-dtype-int64", (narrow[0][1][0].loc() if narrow and narrow[0][1] else loc), "on every path the cuts are handed to the kernel as 64-bit signed integers (an unconditional cast after validation): products of lengths of narrow integer cuts (int8, int16) cannot overflow in the kernels", found=(f"{len(narrow)} of {len(reach)} paths hand the cuts on in their own dtype" if narrow else "int64 on every path"), expected="self._evaluate(cuts.astype(np.int64, copy=False))")
        for l, e in early.items():
            ctx.violation("C13.c CHECK-COMPLETE", f"{name}|{mode}|cast-before-dtype-check", l, "the cuts are converted to an integer (or caller-independent) dtype before their own dtype has been tested: fractional cuts are truncated and scored silently", found=f"{e.data['how']} to {e.data['dtype'] or 'a computed dtype'}: {norm_src(e.node)[:80]}", expected="np.issubdtype(cuts.dtype, np.integer) established first")
        firedw = [p for p in paths if p.outcome == "raise" and any(wd(c) for c, v in both_polarities(p.facts)) and p.exc.func is not None and "check_cuts" in p.exc.func.name]
        okw = bool(firedw) and all(p.exc.exc_name == "ValueError" for p in firedw) and all(any(wd(c) for c, v in both_polarities(p.facts)) for p in reach)
        ctx.check(okw, "C13.c CHECK-COMPLETE", f"{name}|width", raise_loc(firedw[0], loc) if firedw else loc, "a cuts array with the wrong number of columns is rejected with ValueError", found=f"{len(firedw)} rejecting paths")
        # the expected width is the class's expected_cut_entries
        exp = ctx.P.lookup_class_attr(cls, "expected_cut_entries")
        wv = exp[1].value if exp is not None and isinstance(exp[1], ast.Constant) else None
        ctx.check(wv == width, "C13.c CHECK-COMPLETE", f"{name}|expected-width", loc, f"{name} expects {width} cut entries", found=wv, nontrivial=False)


def _is_spacing_fact(c, ckey):
    """an any/all test of a DIFFERENCE of entries of the cuts array: a diff atom over the cuts, or two distinct cuts-derived
    atoms (columns, slices) with opposite signs"""
    if c.t[0] not in ("all", "any") or not isinstance(c.t[1], Cond) or c.t[1].t[0] != "cmp":
        return False
    nf = c.t[1].t[2]
    from ..nf import as_linear

    tops = atoms_of(nf, deep=False)
    mention = [a for a in tops.values() if a.key == ckey or ckey in atoms_of(NF.atom(a), deep=True)]
    if any(a.kind == "app" and a.args[0] == "diff" for a in mention):
        return True
    lin = as_linear(nf)
    if lin is None:
        return len(mention) >= 2
    signs = {(k > 0) for a, k in lin[1].items() if any(a.key == m.key for m in mention)}
    return len(mention) >= 2 and signs == {True, False}


def _rowdiff(cuts_s, width):
    """cuts[:, 1:] - cuts[:, :-1] as the engine spells it for an array with `width` columns"""
    cols = [app("col", cuts_s, NF.const(j)) for j in range(width)]
    if width == 2:
        return cols[1] - cols[0]
    return app("colstack", tuple(cols[1:])) - app("colstack", tuple(cols[:-1]))


def _flat_or(c, v):
    """(sub-condition, value) pairs implied by a decided disjunction/conjunction"""
    t = c.t
    if t[0] == "any" and isinstance(t[1], Cond) and t[1].t[0] == "or":
        # any(A | B) == any(A) or any(B)
        yield from _flat_or(Cond("or", Cond("any", t[1].t[1]), Cond("any", t[1].t[2])), v)
        return
    if t[0] == "or" and v is False:
        yield from _flat_or(t[1], False)
        yield from _flat_or(t[2], False)
    elif t[0] == "and" and v is True:
        yield from _flat_or(t[1], True)
        yield from _flat_or(t[2], True)
    elif t[0] == "and" and v is False and (_is_nonempty_test(t[1]) or _is_nonempty_test(t[2])):
        # `cuts.size > 0 and (...)` decided False: for an empty batch there is no row to protect,
        # otherwise the other conjunct is False
        other = t[2] if _is_nonempty_test(t[1]) else t[1]
        yield from _flat_or(other, False)
    elif t[0] == "or" and v is True:
        # at least one holds: report each as 'possibly true' only when it is the single disjunct
        yield (c, True)
        yield (t[1], True)
        yield (t[2], True)
    else:
        yield (c, v)


def _is_nonempty_test(c):
    """size > 0 / len > 0 of the cuts array (a product of its symbolic dimensions)"""
    if c.t[0] != "cmp" or c.t[1] not in ("<0", "<=0", "!=0"):
        return False
    ats = atoms_of(c.t[2]).values()
    return bool(ats) and all(a.kind == "sym" and a.args[0] == "k" for a in ats)


def _facts(p):
    return [f"{c!r}={v}" for c, v in both_polarities(p.facts)][-6:]


def _min_size_nf(ex, ctx, pkg, name, inner):
    ex2 = new_executor(ctx)
    holder = {}

    def thunk(ex2):
        X = data_sym(ex2)
        obj = make_obj(ex2, ctx, pkg, name, inner)
        call_method(ex2, obj, "fit", X)
        return ex2.getattr(obj, "min_size", None)

    try:
        paths = ex2.run_paths(thunk)
    except Undecided:
        return None
    r = returns(paths)
    if len(r) == 1 and isinstance(r[0].value, Num) and r[0].value.nf is not None:
        return r[0].value.nf
    return None


def count_sinks(ctx):
    """subscripts / slices of fitted arrays by cut-derived values inside the kernels (evidence)"""
    n = 0
    for f in ctx.P.functions.values():
        if f.is_njit or f.name in ("_evaluate",):
            params = set(f.params)
            for node in ast.walk(f.node):
                if isinstance(node, ast.Subscript) and isinstance(node.value, ast.Name) and node.value.id in ("sums", "sums2", "X"):
                    n += 1
    return n
