"""C11 - outputs do not depend on how the same numbers are passed in."""

from __future__ import annotations

import ast

from ..index import ClassInfo, FuncInfo
from ..nf import NF, Atom, Undecided, app, atoms_of, lift, nf_equal, single_atom, subst, sym
from ..values import NONE, Cond, DictV, ListV, NoneV, Num, ObjV, OpaqueV, StrV, TupleV, valkey
from .c02 import find_driver_call
from .common import ABSTRACT_SUMMARIES, N, Pdim, call_method, data_sym, frame_sym, new_executor, norm_src, returns, run, symbolic_hyperparams

EXPLANATION = (
    "Container typestate decided by path enumeration with the data argument in state RAW (whatever the caller passed: ndarray | "
    "Series | DataFrame): (a) NORMALISE-DOMINATES-USE - in every public data entry point (fit, update, predict, transform, "
    "transform_scores of each detector; fit of each scorer) every pandas-only or ndarray-only use of the data value (attribute, "
    "method, subscript, operand of a pandas function) is dominated by a normalisation of that value: check_data (-> DataFrame), "
    "pd.DataFrame(X), np.asarray / as_2d_array (-> ndarray); len(), .shape[0], .ndim and handing the value on to another entry "
    "point are allowed on RAW; (b) CARRY-INDEX - every dense output (a Series/DataFrame with one row per sample built in _predict / "
    "_transform_scores, and the result of sparse_to_dense) takes index= from the frame of the CURRENT argument, never from the "
    "training data or a fresh range; (c) NAME-FREE - no column of a user frame is selected by label (only positional access), so "
    "column names cannot matter; (e) AS-2D - as_2d_array turns a vector into one column (one row with vector_as_column=False), "
    "returns a matrix unchanged and rejects more than two dimensions with ValueError; (d) FLOAT-KERNEL - prefix-sum builders, kernels and score tables accumulate in float arrays, so "
    "integer input is promoted before any division and float scores are never truncated into integer tables. NOT decided: pandas' "
    "own handling of PeriodIndex/DatetimeIndex inside the calls the library makes; integer overflow of X**2 for huge values."
)
# obligations added during the build phase (seeding rounds, twins, mutation analysis)
ADDED_IN_BUILD = ' Also: VALUES-ONLY - the C10.c obligations of all six detectors (no cache of an earlier call keyed on the index); check_series keeps index names at every call site (sibling agreement); drivers-positional - every value a detection driver returns is an array / list, never a labelled pandas object that `pd.Series(values, index=X.index)` would re-align; AS-2D - the three cases of as_2d_array decided on facts about the rank of the operand as given (a squeezed / reshaped operand has a rank of its own). COLUMNS-BY-POSITION (C16.c frame): dense outputs have one column per input column whatever the labels. shape[k >= 1] and tuple-unpacking of .shape of the un-normalised argument count as container-specific uses.'
ADDED_IN_ROUND_9 = ' Round 9: CARRY-INDEX judges pandas objects that are returned by the entry point or stored on the detector; an n-row Series that only serves a computation inside the method is not an output.'
EXPLANATION = EXPLANATION + ADDED_IN_BUILD + ADDED_IN_ROUND_9

ASSUMPTIONS = [
    "Python's ast module and evaluation-order/argument-binding semantics as implemented in skverif/symex.py",
    "library model table skverif/models.py: which attributes/methods exist on ndarray, Series and DataFrame alike (len, shape, ndim) and which functions accept all three (np.asarray, pd.DataFrame)",
    "check_data is a normaliser (its own conversion of ndarray and Series input is decided under C14.c); check_series returns its argument (sktime 1.1.0)",
]
CHECK_DATA = "skchange.utils.validation.data.check_data"
CD, AD = "skchange.change_detectors", "skchange.anomaly_detectors"


def raw(name="X"):
    return OpaqueV(name, {"kind": "raw"})


def _check_data_norm(ex, func, args, kwargs, so, node):
    names = func.params
    b = {}
    for i, a in enumerate(args):
        b[names[i]] = a
    b.update(kwargs)
    ex.emit("normalise", node, how="check_data", value=b.get("X"))
    # what check_data establishes on its returning path: at least min_length rows
    ml = b.get("min_length")
    if isinstance(ml, Num) and ml.nf is not None and ml.cond is None:
        if not hasattr(ex, "established"):
            ex.established = []
        ex.established.append(Cond.cmp(">=", lift(N), ml.nf))
    r = Num(sym("X"), (N, Pdim), "float", "frame", meta={"normalised": True, "foreign": True})
    ex.atom_shapes[Atom("sym", "X").key] = (N, Pdim)
    return r


def _s2d_summary(ex, func, args, kwargs, so, node):
    names = func.params
    b = {}
    for i, a in enumerate(args):
        b[names[i]] = a
    b.update(kwargs)
    ex.emit("s2d_call", node, bound=b, owner=func.cls.name if func.cls else None)
    return OpaqueV("dense", {"kind": "frame"})


def detectors(ctx):
    return ctx.P.registry(CD, "CHANGE_DETECTORS") + ctx.P.registry(AD, "ANOMALY_DETECTORS")


def check(ctx):
    for cls in detectors(ctx):
        for entry in ("fit", "predict", "transform", "transform_scores", "update"):
            ctx.guard("C11.a NORMALISE-DOMINATES-USE", f"{cls.name}.{entry}", lambda cls=cls, entry=entry: check_entry(ctx, cls, entry), cls.module.relpath)
    ctx.guard("C11.a NORMALISE-DOMINATES-USE", "scorers", lambda: check_scorers(ctx))
    ctx.guard("C11.b CARRY-INDEX", "converters", lambda: check_converters(ctx))
    ctx.guard("C11.b CARRY-INDEX", "check_data", lambda: check_normaliser_keeps_index(ctx))
    ctx.guard("C11.b CARRY-INDEX", "check_series", lambda: check_series_keeps_names(ctx))
    ctx.guard("C11.b CARRY-INDEX", "drivers-positional", lambda: check_drivers_positional(ctx))
    # the index half of this property: index labels are never used as positions (rule C05.a)
    from . import c05

    before = len(ctx.obs)
    for q in c05.CONVERTERS:
        cls = ctx.P.cls(q)
        ctx.guard("C11.b LABELS-NOT-POSITIONS", cls.name, lambda cls=cls: c05.check_s2d(ctx, cls), cls.module.relpath)
    ctx.obs[before:] = [o for o in ctx.obs[before:] if "KIND-S2D" in o.rule or o.status != "HOLDS"]
    for o in ctx.obs[before:]:
        o.rule = o.rule.replace("C05.a KIND-S2D", "C11.b LABELS-NOT-POSITIONS (C05.a)")
    # whatever the column names: the dense output of the subset detectors has one label column per input column, by position
    from . import c16

    before = len(ctx.obs)
    ctx.guard("C11.b COLUMNS-BY-POSITION", "SubsetCollectiveAnomalyDetector", lambda: c16.check_dense(ctx))
    ctx.obs[before:] = [o for o in ctx.obs[before:] if o.key == "frame" or o.status == "UNDECIDED"]
    for o in ctx.obs[before:]:
        o.rule = o.rule.replace("C16.c DENSE-MARK", "C11.b COLUMNS-BY-POSITION (C16.c DENSE-MARK)")
    ctx.guard("C11.d FLOAT-KERNEL", "accumulators", lambda: check_float(ctx))
    ctx.guard("C11.e AS-2D", "as_2d_array", lambda: check_as_2d(ctx))
    ctx.guard("C11.d FLOAT-KERNEL", "anomaliser-statistics", lambda: shared_statistic_dtype(ctx))
    # results are a function of the VALUES handed to this call: no cache keyed on the index / container of an earlier one
    from .c10 import shared_no_stale

    shared_no_stale(ctx, "C11.c VALUES-ONLY", [("skchange.change_detectors", "PELT"), ("skchange.change_detectors", "SeededBinarySegmentation"), ("skchange.change_detectors", "MovingWindow"), ("skchange.anomaly_detectors", "CircularBinarySegmentation"), ("skchange.anomaly_detectors", "CAPA"), ("skchange.anomaly_detectors", "MVCAPA")])
    ctx.expect_min("C11.a NORMALISE-DOMINATES-USE", sum(1 for o in ctx.obs if "NORMALISE" in o.rule), 30)


def shared_statistic_dtype(ctx):
    """integer or float dtype holding the same numbers: the per-segment statistics of StatThresholdAnomaliser must not be
    stored in an array of the DATA's dtype (a mean of 10.5 becomes 10 for int64 input and is compared with the bounds as
    such).  The C17.b `statistic-dtype` obligation, re-run under the C11 id; nothing else of C17 is repeated here."""
    from . import c17

    before = len(ctx.obs)
    mins = dict(ctx.mins)
    try:
        c17.check(ctx)
    except Undecided:
        pass
    ctx.mins = mins
    kept = [o for o in ctx.obs[before:] if o.key == "statistic-dtype"]
    for o in kept:
        o.rule = f"C11.d FLOAT-KERNEL ({o.rule})"
    ctx.obs[before:] = kept
    if not kept:
        ctx.holds("C11.d FLOAT-KERNEL", "anomaliser-statistics", "skchange/anomaly_detectors/anomalisers.py", "no buffer of per-segment statistics takes its dtype from the data (C17.b statistic-dtype does not fire)", nontrivial=False)


def _summaries(ctx, cls):
    from .c07 import _fmt_summary
    from .c14 import _generic_driver_summary

    summ = dict(ABSTRACT_SUMMARIES)
    if CHECK_DATA in ctx.P.functions:
        summ[CHECK_DATA] = _check_data_norm
    for c in ctx.P.classes.values():
        if "_format_sparse_output" in c.methods:
            summ[c.methods["_format_sparse_output"].qualname] = _fmt_summary
        if "sparse_to_dense" in c.methods:
            summ[c.methods["sparse_to_dense"].qualname] = _s2d_summary
    for k in ctx.P.classes.values():
        for m in k.methods.values():
            if m.name in ("_predict", "_transform_scores", "_tune_threshold", "_fit"):
                for call, drv in find_driver_call(ctx, m):
                    summ[drv.qualname] = _generic_driver_summary
    if AS2D in ctx.P.functions:
        summ[AS2D] = _as2d_norm
    return summ


AS2D = "skchange.utils.validation.data.as_2d_array"


def _as2d_norm(ex, func, args, kwargs, so, node):
    from ..models import is_raw

    x = args[0] if args else kwargs.get("X")
    if not is_raw(x):
        return NotImplemented
    ex.emit("normalise", node, how="as_2d_array", value=x)
    r = Num(sym("X"), (N, Pdim), "float", "ndarray", meta={"normalised": True, "foreign": True})
    ex.atom_shapes[Atom("sym", "X").key] = (N, Pdim)
    return r


def make_detector(ex, ctx, cls):
    ov = {}
    if cls.name == "StatThresholdAnomaliser":
        inner = ctx.P.public_class(CD, "PELT")
        ov["change_detector"] = lambda ex: ex.new_object(inner, [], symbolic_hyperparams(ex, ctx.P, inner, {}))
    return ex.new_object(cls, [], symbolic_hyperparams(ex, ctx.P, cls, ov))


def check_entry(ctx, cls, entry):
    rule = "C11.a NORMALISE-DOMINATES-USE"
    if ctx.P.lookup_method(cls, entry) is None:
        return
    if entry == "transform_scores" and ctx.P.lookup_method(cls, "_transform_scores").cls.name == "BaseDetector":
        return  # not implemented by this detector
    ex = new_executor(ctx, _summaries(ctx, cls), max_paths=400)
    st = {}

    def thunk(ex):
        obj = make_detector(ex, ctx, cls)
        st["n_init"] = len(ex.events)
        if entry != "fit":
            # a fitted detector: run fit on normalised data first (not under test here)
            call_method(ex, obj, "fit", frame_sym(ex, "Xtrain"))
            obj.fields["_X"] = OpaqueV("Xtrain_raw", {"kind": "raw_old"})
        st["n0"] = len(ex.events)
        st[id(ex)] = len(ex.events)
        return call_method(ex, obj, entry, raw("X"))

    loc = ctx.P.lookup_method(cls, entry).loc()
    try:
        paths = run(ctx, ex, thunk)
    except Undecided as u:
        # report what was seen before the analysis left its fragment, then the UNDECIDED itself
        _report_uses(ctx, cls, entry, loc, [_FakePath(getattr(u, "partial_events", []))] + list(getattr(u, "partial_paths", [])), partial=True)
        raise
    good = [p for p in paths if p.outcome == "return"]
    if not good:
        ctx.undecided(rule, f"{cls.name}.{entry}", loc, "the entry point never returns in the scenario", found=[(p.outcome, p.exc.exc_name if p.exc else "") for p in paths][:4])
        return
    dense = _report_uses(ctx, cls, entry, loc, paths)
    _carry_index(ctx, cls, entry, dense)


class _FakePath:
    def __init__(self, events):
        self.events = events
        self.outcome = "partial"


def _ctor_nodes_of(v, out, seen, depth=0):
    """the pandas constructor calls a value was built by (followed through aliases, method results, containers)"""
    if v is None or id(v) in seen or depth > 8:
        return
    seen.add(id(v))
    if isinstance(v, Num):
        n = v.meta.get("ctor")
        if n is not None:
            out.add(id(n))
        for k in ("alias_of", "recv", "of", "source"):
            _ctor_nodes_of(v.meta.get(k), out, seen, depth + 1)
    elif isinstance(v, OpaqueV):
        for x in (v.meta or {}).values():
            if isinstance(x, (Num, OpaqueV, TupleV, ListV, DictV)):
                _ctor_nodes_of(x, out, seen, depth + 1)
    elif isinstance(v, (TupleV, ListV)):
        for x in v.items:
            _ctor_nodes_of(x, out, seen, depth + 1)
    elif isinstance(v, DictV):
        for _, x in v.items:
            _ctor_nodes_of(x, out, seen, depth + 1)


def _output_ctor_nodes(p):
    cache = getattr(p, "_c11_out_ctors", None)
    if cache is not None:
        return cache
    out, seen = set(), set()
    for e in p.events:
        if e.kind == "return" and e.func is not None and e.func.name in ("_predict", "_transform_scores", "transform", "predict", "transform_scores"):
            _ctor_nodes_of(e.data.get("value"), out, seen)
        elif e.kind == "attr_store":
            _ctor_nodes_of(e.data.get("value"), out, seen)
    _ctor_nodes_of(getattr(p, "value", None), out, seen)
    try:
        p._c11_out_ctors = out
    except Exception:
        pass
    return out


def _report_uses(ctx, cls, entry, loc, paths, partial=False):
    rule = "C11.a NORMALISE-DOMINATES-USE"
    uses = {}
    names = {}
    dense = []
    for p in paths:
        started = False
        for e in p.events:
            if e.kind == "check_is_fitted" or e.kind == "raw_use" or e.kind == "name_access" or e.kind == "pandas_ctor" or e.kind == "s2d_call":
                pass
            if e.kind == "raw_use":
                v = e.data.get("value")
                if v is not None and getattr(v, "key", "") not in ("X",) and not str(getattr(v, "key", "")).startswith("X"):
                    continue
                uses.setdefault((e.func.qualname if e.func else "?", norm_src(e.node)[:70], e.data["what"]), e)
            elif e.kind == "name_access":
                b = e.data["base"]
                if isinstance(b, Num) and (b.meta.get("normalised") or b.meta.get("foreign") or nf_equal(b.nf, sym("X"))):
                    names.setdefault((e.func.qualname if e.func else "?", norm_src(e.node)[:70]), e)
            elif e.kind in ("store_opaque", "store_foreign") and e.data.get("index") and isinstance(e.data["index"][0], StrV):
                t = e.data.get("target")
                tk = valkey(t) if t is not None else ""
                if "[X]" in tk or tk.startswith("opq:X") or (isinstance(t, Num) and t.nf is not None and nf_equal(t.nf, sym("X"))):
                    names.setdefault((e.func.qualname if e.func else "?", norm_src(e.node)[:70]), e)
            elif e.kind == "pandas_ctor" and e.func is not None and e.func.name in ("_predict", "_transform_scores", "transform", "predict", "transform_scores"):
                # an OUTPUT is a pandas object that is returned or published on the detector; an n-row Series that only
                # serves a computation inside the method (a positional group-by, a rolling window) is not one
                if id(e.node) in _output_ctor_nodes(p):
                    dense.append(e)
            elif e.kind == "s2d_call":
                dense.append(e)
    for (fq, src, what), e in uses.items():
        ctx.violation(rule, f"{fq}|{src.split('(')[0][:40]}", e.loc(), f"the data argument is used as a specific container ({what}) before it has been normalised: works for one of ndarray / Series / DataFrame and fails or differs for the others", found=src, expected="check_data(X) / pd.DataFrame(X) / np.asarray(X) dominating the use")
    if not uses and not partial:
        ctx.holds(rule, f"{cls.name}.{entry}", loc, f"every container-specific use of X on {len(paths)} paths is dominated by a normalisation")
    for (fq, src), e in names.items():
        ctx.violation("C11.c NAME-FREE", f"{fq}|{src[:40]}", e.loc(), "a column of the user's frame is selected by its label: the result depends on column names", found=src, expected="positional access (.iloc / .values)")
    if not names and not partial:
        ctx.holds("C11.c NAME-FREE", f"{cls.name}.{entry}", loc, "no by-label column access on user data", nontrivial=False)
    return dense


def _carry_index(ctx, cls, entry, dense):
    # ------------------------------------------------------------ CARRY-INDEX
    want = app("index", sym("X"))
    for e in dense:
        if e.kind == "s2d_call":
            b = e.data["bound"]
            ia = b.get("index")
            ok = isinstance(ia, Num) and ia.nf is not None and nf_equal(ia.nf, want)
            ctx.check(ok, "C11.b CARRY-INDEX", f"{cls.name}.{entry}|sparse_to_dense", e.loc(), "the dense labels are built on the index of the current argument (of its DataFrame view)", found=valkey(ia), expected=repr(want))
            ca = b.get("columns")
            if ca is not None:
                ctx.check(isinstance(ca, Num) and ca.nf is not None and nf_equal(ca.nf, app("columns", sym("X"))), "C11.b CARRY-INDEX", f"{cls.name}.{entry}|columns", e.loc(), "and on its columns", found=valkey(ca), nontrivial=False)
            continue
        data = e.data["data"]
        if isinstance(data, Num) and data.nf is not None and nf_equal(data.nf, sym("X")):
            continue  # pd.DataFrame(X): a normalisation of the input, not an output
        rows = data.shape[0] if isinstance(data, Num) and data.shape else None
        is_dense = rows is not None and (nf_equal(lift(rows), lift(N)) or (isinstance(data, Num) and data.nf is not None and single_atom(data.nf) is not None and single_atom(data.nf).kind == "app" and single_atom(data.nf).args[0] == "driver_out" and e.data["which"] == "series"))
        if not is_dense:
            continue
        ia = e.data.get("index")
        ok = isinstance(ia, Num) and ia.nf is not None and nf_equal(ia.nf, want)
        ctx.check(ok, "C11.b CARRY-INDEX", f"{cls.name}.{entry}|{e.func.name}", e.loc(), "a dense output (one row per sample) carries the index of the current argument", found=valkey(ia) if ia is not None else "no index= (fresh RangeIndex)", expected=repr(want))


def check_drivers_positional(ctx):
    """The detectors wrap what their drivers return as `pd.Series(values, index=X.index)` / hand it to the formatter: that
    re-labels POSITIONAL values (ndarrays, lists).  A driver that returns a labelled pandas object (a Series indexed
    0..n-1) is re-ALIGNED by label instead: for any index other than the default one the values move or become NaN.
    Every value returned by every driver is an array / a list, on every path."""
    rule = "C11.b CARRY-INDEX"
    from .c03 import _pen_summary
    from .c12 import DETECTORS, generic_driver_run

    seen = set()
    for pkg, name, meth in DETECTORS:
        cls = ctx.P.public_class(pkg, name)
        m = ctx.P.lookup_method(cls, meth)
        cands = find_driver_call(ctx, m)
        if len(cands) != 1 or cands[0][1].qualname in seen:
            continue
        drv = cands[0][1]
        seen.add(drv.qualname)
        summ = {}
        for f in ctx.P.functions.values():
            if __import__("skverif.rules.c03", fromlist=["is_penaliser"]).is_penaliser(f):
                summ[f.qualname] = _pen_summary
        try:
            ex, paths = generic_driver_run(ctx, drv, summ, max_paths=4000)
        except Undecided as u:
            ctx.undecided(rule, f"{drv.name}|returns-positional", drv.loc(), str(u))
            continue
        bad = []
        n_ret = 0
        for p in paths:
            if p.outcome != "return":
                continue
            n_ret += 1
            items = p.value.items if isinstance(p.value, TupleV) else [p.value]
            for k, v in enumerate(items):
                labelled = (isinstance(v, Num) and v.pytype in ("series", "frame")) or (isinstance(v, OpaqueV) and (v.meta.get("kind") in ("series", "frame") or v.key.startswith("pd.") or ".reindex(" in v.key or ".to_frame(" in v.key))
                if labelled:
                    bad.append((k, v))
        ctx.check(not bad, rule, f"{drv.name}|returns-positional", drv.loc(), "the driver returns arrays / lists (positional values), never a labelled pandas object that the detector's pd.Series(..., index=X.index) would re-align by label", found=[f"output #{k}: {valkey(v)[:60]}" for k, v in bad][:3] or f"{n_ret} returning paths", expected="np.ndarray / list")


def check_series_keeps_names(ctx):
    """sktime's check_series(X) - without allow_index_names=True - resets the names of X.index IN PLACE: the caller's
    object loses its index name, and so does every dense output built from that index.  Every call site in the package
    passes allow_index_names=True (sibling agreement, confirmed by reading: fit / predict / transform_scores / update of
    BaseDetector and fit of BaseIntervalScorer); a site without it is the deviant."""
    rule = "C11.b CARRY-INDEX"
    n = 0
    for f in ctx.P.functions.values():
        for node in ast.walk(f.node):
            if not isinstance(node, ast.Call):
                continue
            r = ctx.P.resolve_expr(f.module, node.func)
            if not (isinstance(r, tuple) and r[0] == "external" and r[1].endswith("check_series")):
                continue
            n += 1
            kw = next((k.value for k in node.keywords if k.arg == "allow_index_names"), None)
            ok = isinstance(kw, ast.Constant) and kw.value is True
            ctx.check(ok, rule, f"check_series|{f.qualname.split('.', 1)[-1]}@{norm_src(node)[:40]}", f.loc(node), "check_series is called with allow_index_names=True: the index names of the caller's data (and of every dense output) survive", found=norm_src(node), expected="check_series(..., allow_index_names=True)")
    if n == 0:
        ctx.holds(rule, "check_series", "", "sktime's check_series is not used by the package", nontrivial=False)


def check_normaliser_keeps_index(ctx):
    """check_data must hand a DataFrame argument on unchanged (same object: its index and
    columns are what dense outputs carry); arrays get a fresh frame, Series become frames"""
    rule = "C11.b CARRY-INDEX"
    if CHECK_DATA not in ctx.P.functions:
        ctx.undecided(rule, "check_data", "", "check_data not found")
        return
    f = ctx.P.func(CHECK_DATA)
    ex = new_executor(ctx)
    st = {}

    def thunk(ex):
        X = frame_sym(ex)
        st[id(ex)] = X
        st["X"] = X
        return ex.call_function(f, [X, Num(sym("min_length"), (), "int")], {}, None, None)

    paths = run(ctx, ex, thunk)
    good = returns(paths)
    same = bool(good) and all(isinstance(p.value, Num) and p.value.pytype == "frame" and p.value.nf is not None and nf_equal(p.value.nf, sym("X")) and not any(e.kind == "pandas_method" and e.data["method"] in ("reset_index", "set_index", "reindex", "rename", "sort_index") for e in p.events) for p in good)
    ctx.check(same, rule, "check_data|frame-unchanged", f.loc(), "a DataFrame passes through check_data unchanged: index and columns of the argument survive normalisation", found=[repr(p.value)[:80] for p in good][:2] or "no accepting path", expected="the argument itself")


def check_scorers(ctx):
    rule = "C11.a NORMALISE-DOMINATES-USE"
    from .c13 import SCORERS, make_obj

    from . import c01
    from .common import cuts_sym

    flavours = []
    for pkg, name, width, inner in SCORERS:
        flavours.append((pkg, name, width, inner, None))
        if name in c01.PARAM_TABLE and inner is None:
            flavours.append((pkg, name, width, inner, "fixed-number"))  # the fixed-parameter kernels read the data too
    for pkg, name, width, inner, pmode in flavours:

        def go(pkg=pkg, name=name, width=width, inner=inner, pmode=pmode):
            ex = new_executor(ctx, {AS2D: _as2d_norm}, max_paths=200)

            def thunk(ex):
                if pmode is None:
                    obj = make_obj(ex, ctx, pkg, name, inner)
                else:
                    cls_ = ctx.P.public_class(pkg, name)
                    obj = ex.new_object(cls_, c01.make_param(ex, c01.PARAM_TABLE[name], pmode), {})
                call_method(ex, obj, "fit", raw("X"))
                # ... and what evaluate reads is the normalised copy, not the container as it was handed in (self._X)
                return call_method(ex, obj, "evaluate", cuts_sym(ex, width))

            pending = None
            try:
                paths = run(ctx, ex, thunk)
            except Undecided as u:
                paths = [_FakePath(getattr(u, "partial_events", []))] + list(getattr(u, "partial_paths", []))
                pending = u
            uses = {}
            for p in paths:
                for e in p.events:
                    if e.kind == "raw_use":
                        uses.setdefault((e.func.qualname if e.func else "?", norm_src(e.node)[:70], e.data["what"]), e)
            cls = ctx.P.public_class(pkg, name)
            if pending is not None and not uses:
                raise pending
            for (fq, src, what), e in uses.items():
                ctx.violation(rule, f"{fq}|{src[:40]}", e.loc(), f"the scorer uses its data as a specific container ({what}) before normalising it with as_2d_array / np.asarray", found=src)
            if not uses:
                ok = any(p.outcome == "return" for p in paths)
                ctx.check(ok, rule, f"{name}.fit" + (f"[{pmode}]" if pmode else ""), cls.module.relpath, "fit normalises its data (np.asarray via as_2d_array) before any container-specific use, and evaluate reads the normalised copy only", found=[(p.outcome, p.exc.exc_name if p.exc else "") for p in paths][:3])

        ctx.guard(rule, name + (f"[{pmode}]" if pmode else ""), go)


def check_converters(ctx):
    rule = "C11.b CARRY-INDEX"
    for q in ("skchange.change_detectors.base.ChangeDetector", "skchange.anomaly_detectors.base.CollectiveAnomalyDetector", "skchange.anomaly_detectors.base.SubsetCollectiveAnomalyDetector"):
        cls = ctx.P.cls(q)
        f = cls.methods.get("sparse_to_dense")
        if f is None:
            ctx.undecided(rule, cls.name, cls.module.relpath, "sparse_to_dense not found")
            continue

        def go(f=f, cls=cls):
            ex = new_executor(ctx, max_paths=60)

            def thunk(ex):
                ys = OpaqueV("y_sparse", {"kind": "frame"})
                index = Num(sym("index"), (N,), None, "index", meta={"kind": "LABEL"})
                cols = Num(sym("columns"), (Pdim,), None, "index")
                ex.atom_shapes[Atom("sym", "index").key] = (N,)
                ex.atom_shapes[Atom("sym", "columns").key] = (Pdim,)
                return ex.call_function(f, [ys, index, cols], {}, None, None)

            paths = run(ctx, ex, thunk)
            rets = returns(paths)
            if not rets:
                ctx.undecided(rule, f"{cls.name}.sparse_to_dense", f.loc(), "never returns in the scenario", found=[p.exc.exc_name for p in paths if p.exc][:3])
                return
            bad = []
            for p in rets:
                ctor = [e for e in p.events if e.kind == "pandas_ctor" and e.func is not None and e.func.qualname == f.qualname]
                if not ctor:
                    bad.append("no frame constructed")
                    continue
                ia = ctor[-1].data.get("index")
                if not (isinstance(ia, Num) and ia.nf is not None and nf_equal(ia.nf, sym("index"))):
                    bad.append(valkey(ia) if ia is not None else "no index=")
            ctx.check(not bad, rule, f"{cls.name}.sparse_to_dense", f.loc(), "the dense output is constructed with index= the index handed in (on every path)", found=bad or "index=index", expected="index=index")

        ctx.guard(rule, cls.name, go, f.loc())


def check_as_2d(ctx):
    """as_2d_array is where 1-D input (a Series, a vector of cuts) becomes a matrix: a vector becomes ONE COLUMN (n, 1) by
    default and ONE ROW (1, n) with vector_as_column=False, a matrix is returned as it is, anything with more than two
    dimensions raises ValueError.  Decided for an operand of unknown rank on every path."""
    rule = "C11.e AS-2D"
    q = "skchange.utils.validation.data.as_2d_array"
    if q not in ctx.P.functions:
        ctx.undecided(rule, "as_2d_array", "", "as_2d_array not found (anchor vanished)")
        return
    f = ctx.P.func(q)
    from ..symex import Executor
    from ..values import Cond as _C

    for as_col in (True, False):
        ex = Executor(ctx.P)

        def thunk(ex, as_col=as_col):
            x = Num(sym("x"), None, "float", "ndarray", meta={"foreign": True})
            return ex.call_function(f, [x], {"vector_as_column": Num(None, (), "bool", cond=_C.const(as_col))}, None, None)

        paths = run(ctx, ex, thunk)
        key = f"vector_as_column={as_col}"
        seen = set()
        for p in paths:
            # the ranks of the operand AS GIVEN that the path facts admit, out of {1, 2, 3 (= three or more)}: tests of
            # the rank may be spelled ndim == 1, ndim < 2, ndim > 2, ndim >= 3, ... in any order
            ranks = {1, 2, 3}
            for c, v in p.facts:
                if c.t[0] != "cmp":
                    continue
                tops = atoms_of(c.t[2], deep=False)
                ats = [a_ for a_ in tops.values() if a_.kind == "app" and a_.args[0] == "ndim" and nf_equal(lift(a_.args[1]), sym("x"))]
                if len(ats) != 1 or len(tops) != 1:
                    continue
                keep = set()
                for r_ in ranks:
                    val = subst(c.t[2], {ats[0].key: NF.const(r_)}).as_const()
                    if val is None:
                        keep.add(r_)
                        continue
                    holds_ = {"<0": val < 0, "<=0": val <= 0, "==0": val == 0, "!=0": val != 0}[c.t[1]]
                    if holds_ == v:
                        keep.add(r_)
                ranks = keep
            is1 = True if ranks == {1} else (False if 1 not in ranks else None)
            gt2 = True if ranks == {3} else (False if 3 not in ranks else None)
            if is1 is True:
                seen.add("vector")
                r = p.value
                shp = r.shape if isinstance(r, Num) else None
                if as_col:
                    ok = p.outcome == "return" and shp is not None and len(shp) == 2 and lift(shp[1]).as_const() == 1 and lift(shp[0]).as_const() is None
                    want = "(n, 1)"
                else:
                    ok = p.outcome == "return" and shp is not None and len(shp) == 2 and lift(shp[0]).as_const() == 1 and lift(shp[1]).as_const() is None
                    want = "(1, n)"
                ctx.check(ok, rule, f"{key}|vector", f.loc(), f"a 1-D operand becomes {'one column' if as_col else 'one row'} {want}", found=f"{p.outcome} shape {shp}", expected=want)
            elif gt2 is True:
                seen.add("high")
                ctx.check(p.outcome == "raise" and p.exc.exc_name == "ValueError", rule, f"{key}|more-than-2d", f.loc(), "an operand with more than two dimensions raises ValueError", found=(p.exc.exc_name if p.exc else p.outcome), expected="ValueError")
            elif is1 is False and gt2 is False:
                seen.add("matrix")
                r = p.value
                same = p.outcome == "return" and isinstance(r, Num) and r.nf is not None and nf_equal(r.nf, sym("x")) and r.shape is None
                ctx.check(same, rule, f"{key}|matrix", f.loc(), "a 2-D operand is returned unchanged (no reshape)", found=f"{p.outcome} {valkey(p.value)[:60] if p.value is not None else ''} shape {getattr(p.value, 'shape', None)}", expected="x")
        for k_, what in (("vector", "tests ndim == 1"), ("high", "tests ndim > 2"), ("matrix", "returns a 2-D operand")):
            if k_ not in seen:
                ctx.violation(rule, f"{key}|{k_}|reachable", f.loc(), f"no path {what}: the three cases (vector, matrix, more than two dimensions) are not told apart", found=sorted(seen))


def check_float(ctx):
    rule = "C11.d FLOAT-KERNEL"
    from .c12 import DETECTORS, _evaluating_function, generic_driver_run
    from .c03 import _pen_summary
    from .common import COL_CUMSUM
    from ..symex import Executor
    from ..values import Cond as _C

    # prefix-sum builder accumulates in float
    f = ctx.P.func(COL_CUMSUM)
    ex = Executor(ctx.P)

    def thunk(ex):
        x = Num(sym("x"), (N, Pdim), "int", "ndarray", meta={"foreign": True})
        ex.atom_shapes[Atom("sym", "x").key] = (N, Pdim)
        return ex.call_function(f, [x, Num(None, (), "bool", cond=_C.const(True))], {}, None, None)

    paths = run(ctx, ex, thunk)
    for p in returns(paths)[:1]:
        v = p.value
        ok = isinstance(v, Num) and v.arr is not None and v.arr.dtype == "float"
        ctx.check(ok, rule, "col_cumsum", f.loc(), "prefix sums of integer data are accumulated in a float array (promotion before any division)", found=f"dtype {v.arr.dtype if isinstance(v, Num) and v.arr is not None else '?'}", expected="float")
    # fixed cost parameters are never cast to a dtype that is not float by construction (e.g. the data's dtype: a
    # fractional mean would be truncated for integer data)
    from . import c01

    for cls in ctx.P.registry("skchange.costs", "COSTS"):
        tab = c01.PARAM_TABLE.get(cls.name)
        if tab is None:
            continue

        def go_cast(cls=cls, tab=tab):
            ex, paths, state = c01.scenario(ctx, cls, tab, "fixed-array")
            comps = {Atom("sym", c).key for c in tab["components"]}
            bad = {}
            n_cast = 0
            for p in paths:
                for e in p.events:
                    if e.kind != "cast":
                        continue
                    v = e.data["value"]
                    if not (isinstance(v, Num) and v.nf is not None and any(k in comps for k in atoms_of(v.nf))):
                        continue
                    n_cast += 1
                    if e.data["dtype"] != "float":
                        bad.setdefault(e.loc(), e)
            for l, e in bad.items():
                ctx.violation(rule, f"{cls.name}|param-cast|{norm_src(e.node)[:50]}", l, "a fixed cost parameter is cast to a dtype that is not float by construction (integer, or taken from the data): a fractional mean / variance is truncated for integer data", found=f"{e.data['how']} to {e.data['dtype'] or 'a dtype taken from an argument'}", expected="float")
            if not bad:
                ctx.holds(rule, f"{cls.name}|param-cast", cls.module.relpath, f"no cast of the fixed parameter to a non-float dtype on the fit/evaluate path ({n_cast} casts inspected)", nontrivial=False)

        ctx.guard(rule, f"{cls.name}|param-cast", go_cast, cls.module.relpath)
    # score tables in the drivers
    seen = set()
    for pkg, name, meth in DETECTORS:
        cls = ctx.P.public_class(pkg, name)
        m = ctx.P.lookup_method(cls, meth)
        cands = find_driver_call(ctx, m)
        if len(cands) != 1:
            continue
        target = _evaluating_function(ctx, cands[0][1])
        if target is None or target.qualname in seen:
            continue
        seen.add(target.qualname)

        def go(target=target):
            summ = {}
            for g in ctx.P.functions.values():
                if g.cls is None and len(g.params) == 3 and "alpha" in g.params[1] and "beta" in g.params[2]:
                    summ[g.qualname] = _pen_summary
            ex, paths = generic_driver_run(ctx, target, summ)
            bad = {}
            n_tab = set()
            for p in paths:
                for e in p.events:
                    if e.kind == "store":
                        a = e.data["arr"]
                        v = e.data["value"]
                        n_tab.add(a.aid)
                        if a.dtype == "int" and isinstance(v, Num) and v.nf is not None and _carries_score(v.nf):
                            bad.setdefault(e.loc(), (e, a))
                        if a.dtype is None and isinstance(v, Num) and v.nf is not None and _carries_score(v.nf):
                            bad.setdefault(e.loc(), (e, a))
            for l, (e, a) in bad.items():
                ctx.violation(rule, f"{target.name}|{norm_src(e.node)[:50]}", l, "a float score is stored into a table that is not float by construction (integer dtype, or dtype taken from an argument): values are truncated", found=f"table dtype {a.dtype or 'argument-dependent'}", expected="float")
            if not bad:
                ctx.holds(rule, target.name, target.loc(), f"all {len(n_tab)} tables that receive scores are float by construction")

        ctx.guard(rule, target.name, go, target.loc())


POSITIONAL = {"argmax", "argmin", "argsort", "count", "flatnonzero", "listlen", "len"}


def _carries_score(x):
    """does the value contain a scorer output other than as the operand of an arg-extremum
    (whose result is a position, not a score)?"""
    if isinstance(x, NF):
        return any(_carries_score(a) for p in (x.num, x.den) for m in p for a, _ in m)
    if isinstance(x, Atom):
        if x.kind == "app":
            if x.args[0] in ("eval", "pen"):
                return True
            if x.args[0] in POSITIONAL:
                return False
            if x.args[0] == "idx":
                # a gather: the value comes from the base, the index only selects
                return _carries_score(x.args[1])
        if x.kind == "P":
            from ..nf import poly_of_P

            return _carries_score(NF(poly_of_P(x)))
        return any(_carries_score(a) for a in x.args)
    if isinstance(x, (tuple, list)):
        return any(_carries_score(y) for y in x)
    return False
