"""C07 - seeded binary segmentation reports exactly the greedy above-threshold splits."""

from __future__ import annotations

import ast
from fractions import Fraction

from ..affine import Lin, entails, from_cond
from ..bounds import lower_bound, prove_ge0
from ..index import FuncInfo
from ..nf import as_linear, NF, Atom, Undecided, app, atoms_of, evalnf, lift, nf_equal, single_atom, subst, sym
from ..values import NONE, Cond, ListV, NoneV, Num, ObjV, OpaqueV, SliceV, StrV, TupleV, valkey
from .c02 import call_roles, find_driver_call
from .common import (
    ABSTRACT_SUMMARIES,
    N,
    Pdim,
    abstract_scorer,
    call_method,
    data_sym,
    frame_sym,
    new_executor,
    returns,
    run,
    symbolic_hyperparams,
)
from .dp import arr_of, loop_events, main_loop

EXPLANATION = (
    "Static decision for every input and change score (uninterpreted evaluate): (a) ARGMAX-SPLIT - in the driver reached from "
    "SeededBinarySegmentation._predict every candidate interval (start, end) is scored on the cuts (start, k, end) for exactly "
    "k in [start+m, end-m], the stored score is the column-summed change score at its argmax and the stored maximiser maps the "
    "argmax back to that split (gather on the split array); the score is fitted on the current X first; (b) NONEMPTY - the number "
    "of interval lengths handed to the generator's geometric grid is provably >= 1 (so that at least the shortest length 2m is "
    "generated), the number of shifts per length is >= 1, and the split set of an interval of length >= 2m is non-empty; a "
    "configuration in which a count evaluates to 0 (e.g. max_interval_length == 2*min_segment_length) is a violation with that "
    "witness; (c) GREEDY-MASK - selection works on a copy, loops while any(score > threshold) (strict), takes maximizers[argmax], "
    "zeroes exactly the intervals with start <= cpt < end, and returns the sorted list; (d) CLIP - the affine parts of the interval "
    "construction: grid from min_length to min(max_length, n), every end min(., n), the last start moved to n - min_length when the "
    "last interval is short; (e) wiring of hyper-parameters and results between detector, generator, driver and formatter. "
    "NOT decided: the real-arithmetic part of the geometric grid (lengths of every interval), the greedy loop's invariant, "
    "monotonicity in the threshold (consequences)."
)
# obligations added during the build phase (seeding rounds, twins, mutation analysis)
ADDED_IN_BUILD = " Also: the interval generator is decided for comprehensions or appends in an inner loop; its arguments are bound by NAME at the driver's call site and every role (n, min length, max length, growth factor) must receive the driver's own quantity (none left to a default). The selector is discovered also when it receives subscripted tables; a selection that receives filtered tables violates WIRING selector-arguments. zeroing (F-30): a removed interval gets -inf or the threshold itself - 0.0 still exceeds a slightly negative tuned threshold and the loop never ends."
ADDED_IN_ROUND_9 = ' Round 9: the loop-condition of the greedy selection is read in three spellings - any(W > thr), W.max() > thr, W[W.argmax()] > thr - also when the test sits in the middle of a `while True` body behind pure assignments (the engine substitutes them into the test); >= for > is a violation in each.'
EXPLANATION = EXPLANATION + ADDED_IN_BUILD + ADDED_IN_ROUND_9

ASSUMPTIONS = [
    "Python's ast module and evaluation-order/argument-binding semantics as implemented in skverif/symex.py",
    "library model table skverif/models.py (np.arange, np.geomspace(num) has num points from lo to hi, np.unique/np.round keep non-emptiness, np.argmax, boolean-mask stores)",
    "preconditions established by the constructor and check_data (verified under C14): n >= 2m, max_interval_length >= 2m, 1 < growth_factor <= 2, m >= 1",
    "user change scores are uninterpreted functions of (object, fitted data, cuts)",
]
BCS = "skchange.change_scores.base.BaseChangeScore"
DET = ("skchange.change_detectors", "SeededBinarySegmentation")


def check(ctx):
    from .c10 import shared_no_stale

    shared_no_stale(ctx, "C07.e WIRING", [("skchange.change_detectors", "SeededBinarySegmentation")])
    cls = ctx.P.public_class(*DET)
    pred = ctx.P.lookup_method(cls, "_predict")
    cands = find_driver_call(ctx, pred)
    if len(cands) != 1:
        ctx.undecided("C07 DRIVER", "SeededBinarySegmentation._predict", pred.loc(), f"expected one driver call receiving the change score, found {len(cands)}")
        return
    call, drv = cands[0]
    gen, sel = discover_helpers(ctx, drv)
    if gen is None or sel is None:
        ctx.undecided("C07 DRIVER", drv.qualname, drv.loc(), "could not identify the interval generator / the greedy selector called by the driver")
        return
    ctx.guard("C07.a ARGMAX-SPLIT", drv.qualname, lambda: check_driver_c07(ctx, drv, gen, sel), drv.loc())
    ctx.guard("C07.b NONEMPTY", gen.qualname, lambda: check_generator(ctx, gen, "C07"), gen.loc())
    ctx.guard("C07.c GREEDY-MASK", sel.qualname, lambda: check_selector_c07(ctx, sel), sel.loc())
    ctx.guard("C07.e WIRING", "SeededBinarySegmentation", lambda: check_wiring(ctx, cls, drv, "change_score", BCS, 3, "C07", "ChangeDetector"), pred.loc())
    ctx.expect_min("C07", len([o for o in ctx.obs if o.status == "HOLDS"]), 20)


def _unpack_calls(ctx, drv: FuncInfo):
    """(assign node, callee, inside_loop) for every `a, b = f(...)` with f a module-level repo function"""
    out = []

    def walk(body, in_loop):
        for st in body:
            if isinstance(st, ast.Assign) and isinstance(st.value, ast.Call) and isinstance(st.targets[0], ast.Tuple) and len(st.targets[0].elts) == 2:
                fn = st.value.func
                r = ctx.P.resolve_expr(drv.module, fn) if isinstance(fn, (ast.Name, ast.Attribute)) else None
                if isinstance(r, FuncInfo) and r.cls is None:
                    out.append((st, r, in_loop))
            for f in ("body", "orelse", "finalbody"):
                sub = getattr(st, f, None)
                if isinstance(sub, list) and not isinstance(st, (ast.FunctionDef, ast.ClassDef)):
                    walk(sub, in_loop or isinstance(st, (ast.For, ast.While)))

    walk(drv.node.body, False)
    return out


def discover_helpers(ctx, drv: FuncInfo):
    """structural roles (independent of local variable names): the interval generator is the repo function whose pair of
    results is unpacked outside any loop; the selector is the repo function that receives both of those results"""
    gen = sel = None
    gen_targets = set()
    for st, r, in_loop in _unpack_calls(ctx, drv):
        if not in_loop and gen is None:
            gen = r
            gen_targets = {e.id for e in st.targets[0].elts if isinstance(e, ast.Name)}
    if gen is None:
        return None, None
    for n in ast.walk(drv.node):
        if isinstance(n, ast.Call) and isinstance(n.func, (ast.Name, ast.Attribute)):
            r = ctx.P.resolve_expr(drv.module, n.func)
            if isinstance(r, FuncInfo) and r.cls is None and r is not gen:
                # the names the argument expressions are made of (`starts`, but also `starts[keep]`)
                names = {x.id for a in list(n.args) + [k.value for k in n.keywords] for x in ast.walk(a) if isinstance(x, ast.Name)}
                if gen_targets and gen_targets <= names:
                    sel = r
    return gen, sel


def _gen_summary(ex, func, args, kwargs, so, node):
    names = func.params
    b = {}
    for i, a in enumerate(args):
        b[names[i]] = a
    b.update(kwargs)
    ex.emit("generator_call", node, bound=b, func=func)
    q = sym("q")
    s = ex.mk("ivl_starts", shape=(q,), dtype="int")
    e = ex.mk("ivl_ends", shape=(q,), dtype="int")
    return TupleV([s, e])


def _sel_summary(ex, func, args, kwargs, so, node):
    names = func.params
    b = {}
    for i, a in enumerate(args):
        b[names[i]] = a
    b.update(kwargs)
    ex.emit("selector_call", node, bound=b)
    ex.list_counter += 1
    r = ListV([], opaque=True, lid=ex.list_counter)
    r.role = "selected"
    return r


def check_driver(ctx, drv, gen, sel, role, base, width, prop="C07", inner=None):
    rule = f"{prop}.a ARGMAX-SPLIT"
    summ = dict(ABSTRACT_SUMMARIES)
    summ[gen.qualname] = _gen_summary
    summ[sel.qualname] = _sel_summary
    ex = new_executor(ctx, summ)
    m = sym("m")
    n = lift(N)

    def thunk(ex):
        args = {}
        for p in drv.params:
            if p == "X":
                args[p] = data_sym(ex)
            elif "score" in p:
                args[p] = abstract_scorer(ex, ctx.P, base, role, width=width)
            elif p == "threshold":
                args[p] = Num(sym("threshold"), (), "float")
            elif "min_segment_length" in p:
                args[p] = Num(m, (), "int")
            elif "max_interval_length" in p:
                args[p] = Num(sym("max_interval_length"), (), "int")
            elif "growth" in p:
                args[p] = Num(sym("growth_factor"), (), "float")
            else:
                raise Undecided(f"driver parameter {p} has no recognised role")
        return ex.call_function(drv, [], args, None, None)

    paths = run(ctx, ex, thunk)
    rets = returns(paths)
    if not rets:
        ctx.violation(rule, drv.qualname, drv.loc(), "the driver never returns", found=[p.exc.exc_name for p in paths if p.exc])
        return None
    return ex, paths, rets, m, n


def seeded_driver_checks(ctx, ex, paths, rets, m, n, drv, prop):
    rule = f"{prop}.a ARGMAX-SPLIT"
    p = rets[0]
    loops = main_loop(p, drv.qualname)
    if len(loops) != 1:
        ctx.undecided(rule, drv.qualname, drv.loc(), f"{len(loops)} main loops")
        return None
    loop = loops[0]
    lv = NF.atom(Atom("lv", loop.lid))
    S = app("idx", app("ivl_starts"), (("at", lv),))
    E = app("idx", app("ivl_ends"), (("at", lv),))
    rng = loop.info.get("range")
    ctx.check(rng is not None and rng[0].as_const() == 0 and nf_equal(rng[1], sym("q")) and rng[2].as_const() == 1, rule, "loop|all-intervals", drv.loc(loop.node), "every generated interval is visited once", found=repr(rng))
    gc = [e for e in p.events if e.kind == "generator_call"]
    if gc:
        b = gc[0].data["bound"]
        # bound BY NAME (the call may be positional or by keyword); every parameter of the generator must receive the
        # driver's own quantity - a parameter left to its default silently ignores the detector's hyper-parameter
        want_by_role = {"n": n, "min": 2 * m, "max": sym("max_interval_length"), "growth": sym("growth_factor")}
        okg = True
        missing = []
        for prm in gc[0].data["func"].params:
            role = "n" if prm == "n" else next((r for r in ("min", "max", "growth") if r in prm), None)
            if role is None:
                continue
            v = b.get(prm)
            if v is None:
                missing.append(prm)
                okg = False
            elif not (isinstance(v, Num) and v.nf is not None and nf_equal(v.nf, want_by_role[role])):
                okg = False
        ctx.check(okg, f"{prop}.e WIRING", "generator-arguments", gc[0].loc(), "intervals are generated for (n, min length 2m, max_interval_length, growth_factor), each handed to the generator's parameter of that role", found=({"left to their defaults": missing} if missing else {k: valkey(v) for k, v in b.items()}))
    fits = [e for e in p.events if e.kind == "scorer_fit"]
    evs = loop_events(p, loop, "scorer_evaluate")
    if len(evs) != 1:
        ctx.undecided(rule, "evaluate", drv.loc(), f"{len(evs)} score evaluations per interval")
        return None
    e = evs[0]
    ctx.check(len(fits) == 1 and not fits[0].loops and e.data["fitted_on"] == "[X]/[1]", f"{prop}.a FIT-FIRST", "fit-before-evaluate", e.loc(), "the score is fitted once on the current X before the intervals are scored", found=e.data["fitted_on"])
    return p, loop, lv, S, E, e


def check_driver_c07(ctx, drv, gen, sel):
    r = check_driver(ctx, drv, gen, sel, "score", BCS, 3, "C07")
    if r is None:
        return
    ex, paths, rets, m, n = r
    rule = "C07.a ARGMAX-SPLIT"
    q = seeded_driver_checks(ctx, ex, paths, rets, m, n, drv, "C07")
    if q is None:
        return
    p, loop, lv, S, E, e = q
    ca = single_atom(e.data["cuts"].nf)
    if ca is None or ca.args[0] != "colstack" or len(ca.args[1]) != 3:
        ctx.violation(rule, "cuts", e.loc(), "the score is not evaluated on (start, split, end) triples", found=repr(e.data["cuts"]))
        return
    c0, c1, c2 = ca.args[1]
    want_k = app("arange", S + m, E - m + 1)
    ctx.check(nf_equal(c0, S) and nf_equal(c2, E), rule, "cuts|outer", e.loc(), "cut columns 0 and 2 are the interval's own start and end", found=f"({c0!r}, ., {c2!r})")
    ctx.check(nf_equal(c1, want_k), rule, "cuts|splits", e.loc(), "candidate splits are exactly k = start+m, ..., end-m (min_segment_length samples on both sides)", found=repr(c1), expected=repr(want_k))
    # non-empty split set for intervals of length >= 2m
    size = (E - m + 1) - (S + m)
    a1 = a = single_atom(c1)
    if a is not None and a.kind == "app" and a.args[0] == "arange":
        size = a.args[2] - a.args[1]
    ok_ne = entails([Lin.of(E - S - 2 * m)], Lin.of(size - 1))
    ctx.check(ok_ne, "C07.b NONEMPTY", "splits", e.loc(), "an interval of length >= 2m has at least one admissible split (np.argmax never sees an empty vector)", found=f"number of splits {size!r}", expected=">= 1 given end - start >= 2m")
    agg = app("sum", NF.atom(single_atom(e.data["result"].nf)), 1)
    stores = loop_events(p, loop, "store")
    sc = [s for s in stores if isinstance(s.data["value"], Num) and nf_equal(s.data["value"].nf, app("idx", agg, (("at", app("argmax", agg)),)))]
    ctx.check(len(sc) == 1 and nf_equal(sc[0].data["index"][0].nf, lv), rule, "score", sc[0].loc() if sc else drv.loc(), "the interval's score is the column-summed change score at its own argmax, stored at the interval's row", found=[repr(s.data["value"])[:120] for s in stores])
    want_mx = S + m + app("argmax", agg)
    mx = [s for s in stores if s not in sc]
    okm = len(mx) == 1 and isinstance(mx[0].data["value"], Num) and nf_equal(mx[0].data["value"].nf, want_mx) and nf_equal(mx[0].data["index"][0].nf, lv)
    ctx.check(okm, "C07.a IDX-GATHER", "maximizer", mx[0].loc() if mx else drv.loc(), "the stored maximiser is the split attaining the maximum: splits[argmax] (== start + m + argmax on the contiguous split range)", found=repr(mx[0].data["value"]) if mx else "no store", expected=repr(want_mx))
    # selector call receives the tables
    scall = [x for x in p.events if x.kind == "selector_call"]
    if scall and sc and mx:
        # each table reaches the selector's parameter of ITS role (bound by the parameter's name; the order of the
        # parameters is the selector's own business)
        bd = scall[0].data["bound"]
        role = {}
        for k_ in bd:
            r_ = "scores" if "score" in k_ else ("maximisers" if "maxim" in k_ else ("starts" if "start" in k_ else ("ends" if "end" in k_ else ("threshold" if "thresh" in k_ else None))))
            if r_ is not None and r_ not in role:
                role[r_] = bd[k_]
        if len(bd) != 5 or set(role) != {"scores", "maximisers", "starts", "ends", "threshold"}:
            ctx.undecided("C07.e WIRING", "selector-arguments", scall[0].loc(), "the parameters of the greedy selection cannot be matched with (scores, maximisers, interval starts, interval ends, threshold) by their names", found=list(bd))
        else:
            ok = arr_of(role["scores"]) is sc[0].data["arr"] and arr_of(role["maximisers"]) is mx[0].data["arr"] and isinstance(role["starts"], Num) and nf_equal(role["starts"].nf, app("ivl_starts")) and isinstance(role["ends"], Num) and nf_equal(role["ends"].nf, app("ivl_ends")) and isinstance(role["threshold"], Num) and nf_equal(role["threshold"].nf, sym("threshold"))
            ctx.check(ok, "C07.e WIRING", "selector-arguments", scall[0].loc(), "the greedy selection receives the score table, the maximisers, the interval starts, the interval ends and the threshold, each in its own role", found={k_: valkey(x)[:40] for k_, x in bd.items()})
        rv = p.value
        ctx.check(isinstance(rv, TupleV) and rv.items and rv.items[0] is ex_result(scall[0], p), "C07.e WIRING", "driver-result", drv.loc(), "the selected changepoints are the driver's first output", nontrivial=False)
        okr = isinstance(rv, TupleV) and len(rv.items) == 5 and isinstance(rv.items[1], Num) and arr_of(rv.items[1]) is sc[0].data["arr"] and isinstance(rv.items[2], Num) and arr_of(rv.items[2]) is mx[0].data["arr"] and isinstance(rv.items[3], Num) and nf_equal(rv.items[3].nf, app("ivl_starts")) and isinstance(rv.items[4], Num) and nf_equal(rv.items[4].nf, app("ivl_ends"))
        ctx.check(okr, "C07.e WIRING", "driver-result-order", drv.loc(), "the driver returns (changepoints, scores, maximisers, interval starts, interval ends) in that order", found=[valkey(x)[:30] for x in rv.items] if isinstance(rv, TupleV) else repr(rv))


def ex_result(ev, p):
    # the ListV returned by the selector summary is the first item of the driver's return
    rv = p.value
    return rv.items[0] if isinstance(rv, TupleV) and rv.items and isinstance(rv.items[0], ListV) and getattr(rv.items[0], "role", None) == "selected" else None


# ------------------------------------------------------------------ generator


def lin_set(cond: Cond):
    """canonical set of integer affine constraints equivalent to a conjunction, or None"""
    r = from_cond(cond, True, True)
    if r is None:
        return None
    out = set()
    for l in r:
        items = sorted(l.co.items())
        g = None
        from math import gcd

        nums = [abs(c.numerator) for _, c in items] + [abs(l.c0.numerator)]
        dens = [c.denominator for _, c in items] + [l.c0.denominator]
        L = 1
        for d in dens:
            L = L * d // gcd(L, d)
        ints = [int(c * L) for _, c in items]
        c0 = int(l.c0 * L)
        g = 0
        for x in ints:
            g = gcd(g, abs(x))
        g = g or 1
        # integer tightening of the constant: sum(a_i x_i) + c0 >= 0  with g | a_i
        import math

        c0n = math.floor(Fraction(c0, g))
        out.add((tuple((k, x // g) for (k, _), x in zip(items, ints)), c0n))
    return frozenset(out)


def check_generator(ctx, gen: FuncInfo, prop):
    rule = f"{prop}.b NONEMPTY"
    ex = new_executor(ctx, max_paths=100)
    n, lo_, hi_, g = sym("n"), sym("min_length"), sym("max_length"), sym("growth_factor")

    def thunk(ex):
        args = {}
        for p in gen.params:
            if p == "n":
                args[p] = Num(n, (), "int")
            elif "min" in p:
                args[p] = Num(lo_, (), "int")
            elif "max" in p:
                args[p] = Num(hi_, (), "int")
            elif "growth" in p:
                args[p] = Num(g, (), "float")
            else:
                raise Undecided(f"generator parameter {p} has no recognised role")
        return ex.call_function(gen, [], args, None, None)

    paths = run(ctx, ex, thunk)
    rets = returns(paths)
    if not rets:
        ctx.violation(rule, gen.qualname, gen.loc(), "the interval generator never returns", found=[p.exc.exc_name for p in paths if p.exc])
        return
    p = rets[0]
    # preconditions (established by the constructors and check_data; rule C14.a / C14.c)
    assume = [Lin.of(n - lo_), Lin.of(hi_ - lo_), Lin.of(lo_ - 2)]
    positive = {Atom("log", Atom("sym", "growth_factor")).key}
    sp = [e for e in p.events if e.kind == "space"]
    if len(sp) != 1:
        ctx.undecided(rule, "grid", gen.loc(), f"{len(sp)} geometric grids (expected one)")
        return
    e = sp[0]
    lo, hi, num = e.data["lo"], e.data["hi"], e.data["num"]
    from ..nf import nf_min

    ctx.check(nf_equal(lo.nf, lo_), f"{prop}.d CLIP", "grid|shortest", e.loc(), "the grid of interval lengths starts at the minimum length", found=repr(lo.nf), expected="min_length")
    ctx.check(nf_equal(hi.nf, nf_min(hi_, n)), f"{prop}.d CLIP", "grid|longest", e.loc(), "the grid ends at min(max_length, n): no interval is longer than the data", found=repr(hi.nf), expected="min(max_length, n)")
    lb = lower_bound(num.nf, assume, positive)
    if lb is not None and lb >= 1:
        ctx.holds(rule, "lengths", e.loc(), f"the number of interval lengths is provably >= 1 (lower bound {lb})", found=repr(num.nf))
    else:
        # look for a boundary configuration in which the count is 0
        witness = None
        for name, mp in (("max_length == min_length", {Atom("sym", "max_length").key: lo_}), ("n == min_length", {Atom("sym", "n").key: lo_}), ("max_length == n == min_length", {Atom("sym", "max_length").key: lo_, Atom("sym", "n").key: lo_})):
            try:
                v = subst(num.nf, mp).as_const()
            except Undecided:
                v = None
            if v is not None and v < 1:
                witness = (name, v)
                break
        if witness:
            ctx.violation(rule, "lengths", e.loc(), f"for {witness[0]} (a documented-valid configuration, e.g. max_interval_length == 2*min_segment_length) the number of interval lengths evaluates to {witness[1]}: no interval is generated, nothing can be detected and argmax/quantile downstream receive empty operands", found=repr(num.nf), expected="a count that is >= 1 for every valid configuration")
        else:
            ctx.undecided(rule, "lengths", e.loc(), "cannot bound the number of interval lengths from below", found=repr(num.nf))
    # shifts per length: the comprehension ranges
    loops = main_loop(p, gen.qualname)
    if len(loops) != 1:
        ctx.undecided(rule, "shifts", gen.loc(), "generator is not one loop over lengths producing starts and ends")
        return
    lp = loops[0]
    ln = lp.var.nf if isinstance(lp.var, Num) else None
    if ln is None:
        ctx.undecided(rule, "shifts", gen.loc(), "the length variable is not numeric")
        return
    # library fact: every element of unique(round(geomspace(a, b, k))) lies in [a, b]
    lat = single_atom(ln)
    assume2 = assume + [Lin.of(ln - lo_), Lin.of(n - ln), Lin.of(hi_ - ln)]
    seen = 0
    # which comprehension feeds the starts list, which the ends list (by dataflow to the result)
    out = p.value
    role_of = {}
    if isinstance(out, TupleV) and len(out.items) == 2:
        for k, o in enumerate(out.items):
            src = o.meta.get("from_list") if isinstance(o, Num) else None
            sl = getattr(src, "slice_of", None)
            if sl is not None and isinstance(sl[0], ListV):
                role_of[id(sl[0])] = "starts" if k == 0 else "ends"
    from ..values import RangeV

    comp_role = {}
    for ev in p.events:
        if ev.kind == "list_extend" and id(ev.data["lst"]) in role_of and isinstance(ev.data["value"], ListV) and getattr(ev.data["value"], "comp", None) is not None:
            comp_role[id(ev.data["value"])] = role_of[id(ev.data["lst"])]
    # the producers of positions per length: a comprehension extended into the list (idiom A), or an append inside an
    # inner loop over the shifts (idiom B).  Either way: (role, range of the shift index, element, its index variable)
    comps = []
    for ev in p.events:
        if ev.kind == "comprehension" and comp_role.get(id(ev.data["result"])) is not None:
            comps.append(_Producer(comp_role[id(ev.data["result"])], ev.data["iter"], ev.data["elem"], ev, Atom("lv", ev.data["loop"].lid).key if ev.data.get("loop") is not None else None))
        elif ev.kind == "list_append" and id(ev.data["lst"]) in role_of and len(ev.loops) >= 2 and ev.loops[0] is lp:
            inner = ev.loops[-1]
            rng = inner.info.get("range")
            it = RangeV(Num(rng[0], (), "int"), Num(rng[1], (), "int"), Num(rng[2], (), "int")) if rng is not None else None
            comps.append(_Producer(role_of[id(ev.data["lst"])], it, ev.data["value"], ev, Atom("lv", inner.lid).key))
    if len(comps) < 2:
        ctx.undecided(rule, "shifts", gen.loc(), "generator is not one loop over lengths with comprehensions (or an inner loop of appends) for starts and ends")
        return
    ivars = {c.lvkey for c in comps if c.lvkey is not None}
    start_elem = end_shift = None
    for ce in comps:
        it = ce.it
        role = ce.role
        if not isinstance(it, RangeV):
            ctx.undecided(rule, "shifts", ce.loc(), "shift positions are not generated from a range")
            continue
        cnt = it.hi.nf - it.lo.nf
        lb2 = lower_bound(cnt, assume2, positive)
        ctx.check(lb2 is not None and lb2 >= 1, rule, f"shifts|{role}", ce.loc(), "every length yields at least one interval", found=f"{cnt!r} (lower bound {lb2})", expected=">= 1")
        elem = ce.elem
        a = single_atom(elem.nf) if isinstance(elem, Num) else None
        inner = a.args[1] if a is not None and a.kind == "app" and a.args[0] == "int" else (elem.nf if isinstance(elem, Num) else None)
        ia = single_atom(inner) if inner is not None else None
        seen += 1
        if role == "ends":
            if ia is not None and ia.kind == "min":
                has_n = any(nf_equal(lift(x), n) for x in ia.args)
                others = [lift(x) for x in ia.args if not nf_equal(lift(x), n)]
                end_shift = others[0] - ln if others else None
                ctx.check(has_n and end_shift is not None, f"{prop}.d CLIP", "ends", ce.loc(), "every interval end is min(shift + length, n)", found=repr(elem), expected="int(min(i*step + len, n))")
            else:
                ctx.violation(f"{prop}.d CLIP", "ends", ce.loc(), "interval ends are not clipped to the length of the data: min(shift + length, n)", found=repr(elem), expected="int(min(i*step + len, n))")
                end_shift = (inner - ln) if inner is not None else None
        else:
            start_elem = inner
    if seen < 2:
        ctx.undecided(rule, "shifts", gen.loc(), "could not find the comprehensions feeding the returned starts and ends")
    # the start and the end of one interval use the same shift
    if start_elem is not None and end_shift is not None:
        ctx.check(nf_equal(_strip(start_elem, ivars), _strip(end_shift, ivars)), f"{prop}.d CLIP", "same-shift", comps[0].loc(), "the start and the end of an interval are built from the same shift i*step", found=f"{start_elem!r} vs {end_shift!r}")
    # fix-up of the last interval
    ls = [ev for q in rets for ev in q.events if ev.kind == "list_store"]
    okf = any(isinstance(ev.data["value"], Num) and nf_equal(ev.data["value"].nf, n - lo_) and isinstance(ev.data["index"][0], Num) and ev.data["index"][0].nf.as_const() == -1 for ev in ls)
    ctx.check(okf, f"{prop}.d CLIP", "last-interval", ls[0].loc() if ls else gen.loc(), "when clipping made the last interval of a length too short its start is moved to n - min_length", found=[repr(ev.data["value"]) for ev in ls])
    # the fix-up is guarded by the length of that last interval: ends[-1] - starts[-1] < min_length (<= is equivalent)
    lid_role = {}
    if isinstance(p.value, TupleV) and len(p.value.items) == 2:
        for k_, o_ in enumerate(p.value.items):
            src_ = o_.meta.get("from_list") if isinstance(o_, Num) else None
            sl_ = getattr(src_, "slice_of", None)
            if sl_ is not None and isinstance(sl_[0], ListV):
                lid_role[sl_[0].lid] = "starts" if k_ == 0 else "ends"
    for ev in ls[:1]:
        g = ev.facts[-1] if ev.facts else None
        okg = False
        shown = repr(g[0]) if g else "unguarded"
        if g is not None and g[0].t[0] == "cmp" and g[0].t[1] in ("<0", "<=0") and g[1]:
            lin = as_linear(g[0].t[2])
            if lin is not None:
                c0, co = lin
                coef = {"starts": 0, "ends": 0, "min": 0, "other": 0}
                for a_, k_ in co.items():
                    txt = repr(a_)
                    role = None
                    for lid_, r_ in lid_role.items():
                        if f"list#{lid_})" in txt or f"list#{lid_}." in txt or f"listitem({lid_}," in txt:
                            role = r_
                    if role is None and nf_equal(NF.atom(a_), lo_):
                        role = "min"
                    coef[role or "other"] += k_
                okg = c0 == 0 and coef["ends"] == 1 and coef["starts"] == -1 and coef["min"] == -1 and coef["other"] == 0
        ctx.check(okg, f"{prop}.d CLIP", "last-interval|guard", ev.loc(), "the last interval is moved exactly when it is shorter than min_length: ends[-1] - starts[-1] < min_length", found=shown[:160], expected="ends[-1] - starts[-1] - min_length < 0")
        # the elements compared and rewritten are the LAST ones (the engine's list elements are position-free: read from the syntax)
        ifs = [n_ for n_ in ast.walk(gen.node) if isinstance(n_, ast.If) and any(x is ev.node for x in ast.walk(n_))]
        if ifs:
            inner_if = min(ifs, key=lambda n_: (n_.end_lineno - n_.lineno))
            subs = [x for x in ast.walk(inner_if) if isinstance(x, ast.Subscript) and isinstance(x.value, ast.Name)]
            def is_last(x):
                sl_ = x.slice
                return isinstance(sl_, ast.UnaryOp) and isinstance(sl_.op, ast.USub) and isinstance(sl_.operand, ast.Constant) and sl_.operand.value == 1
            def const_index(x):
                sl_ = x.slice
                if isinstance(sl_, ast.Constant) and isinstance(sl_.value, int):
                    return True
                return isinstance(sl_, ast.UnaryOp) and isinstance(sl_.operand, ast.Constant) and isinstance(sl_.operand.value, int)

            wrong = [x for x in subs if const_index(x) and not is_last(x)]
            ctx.check(not wrong, f"{prop}.d CLIP", "last-interval|positions", ev.loc(), "the fix-up tests and rewrites the last start / end of the two lists (no constant position other than -1)", found=[ast.unparse(x) for x in wrong][:3] or "no other constant position", expected="[-1]", nontrivial=False)
    # all shifts but the last leave a full-length interval inside the data: the number of shifts is ceil((n - len)/step)
    # with the same step the positions use, so (n_steps - 1)*step < n - len, and the positions start at shift 0
    for ce in comps:
        role = ce.role
        it = ce.it
        if role != "starts" or not isinstance(it, RangeV) or start_elem is None:
            continue
        lvc = [a_ for a_ in atoms_of(start_elem).values() if a_.kind == "lv" and a_.key == ce.lvkey]
        if len(lvc) != 1:
            ctx.undecided(rule, "shifts|count", ce.loc(), "cannot isolate the shift index in the start positions")
            continue
        step_nf = subst(_strip_int_local(start_elem), {lvc[0].key: NF.const(1)})
        zero_at_0 = subst(_strip_int_local(start_elem), {lvc[0].key: NF.const(0)}).is_zero()
        nsteps = _strip_int_local(it.hi.nf - 1)
        na = single_atom(nsteps)
        okn = it.lo.nf.as_const() == 0 and it.step.nf.as_const() == 1 and zero_at_0 and na is not None and na.kind == "app" and na.args[0] == "ceil" and nf_equal(lift(na.args[1]) * step_nf, n - ln)
        ctx.check(okn, f"{prop}.d CLIP", "shifts|count", ce.loc(), "shift positions are i*step for i = 0..ceil((n - len)/step): every shift but the last leaves a full-length interval inside [0, n]", found=f"range({it.lo.nf!r}, {it.hi.nf!r}) of {start_elem!r}"[:220], expected="range(0, ceil((n - len)/step) + 1) of i*step")
    # starts and ends are generated in pairs: the two comprehensions run over the same range
    rngs = {}
    for ce in comps:
        role = ce.role
        it = ce.it
        if role is not None and isinstance(it, RangeV):
            rngs[role] = it
    if len(rngs) == 2:
        a_, b_ = rngs["starts"], rngs["ends"]
        okp = nf_equal(a_.lo.nf, b_.lo.nf) and nf_equal(_strip_int_local(a_.hi.nf), _strip_int_local(b_.hi.nf)) and nf_equal(a_.step.nf, b_.step.nf)
        ctx.check(okp, f"{prop}.d CLIP", "shifts|paired", comps[0].loc(), "one end per start: both position lists are generated over the same range of shifts", found=f"starts over {valkey(a_)[:80]}, ends over {valkey(b_)[:80]}")
    # result: arrays of the two lists without their dummy first element
    out = p.value
    ok_out = isinstance(out, TupleV) and len(out.items) == 2
    if ok_out:
        for k, o in enumerate(out.items):
            src = o.meta.get("from_list") if isinstance(o, Num) else None
            sl = getattr(src, "slice_of", None)
            ok_out = ok_out and sl is not None and isinstance(sl[1].lo, Num) and sl[1].lo.nf.as_const() == 1 and isinstance(sl[1].hi, NoneV)
    ctx.check(ok_out, f"{prop}.d CLIP", "result", gen.loc(), "the typing dummies at position 0 of both lists are dropped from the result", nontrivial=False)


def _strip_int_local(nf):
    from .c03 import _strip_int

    return _strip_int(nf)


class _Producer:
    """one source of interval positions per length: role ('starts' / 'ends'), the range of its shift index, the element"""

    def __init__(self, role, it, elem, ev, lvkey):
        self.role, self.it, self.elem, self.ev, self.lvkey = role, it, elem, ev, lvkey

    def loc(self):
        return self.ev.loc()


def _strip(nf, ivars=()):
    """drop int() on integer quantities and give all shift-index variables one name"""
    from .c03 import _strip_int

    def f(a):
        if a.kind == "lv" and ("#comp" in str(a.args[0]) or a.key in ivars):
            return sym("i")
        return None

    return evalnf(_strip_int(nf), f)


# ------------------------------------------------------------------- selector


def check_selector(ctx, sel: FuncInfo):
    rule = "C07.c GREEDY-MASK"
    ex = new_executor(ctx)
    q = sym("q")

    def arr(ex, nm, dt="float"):
        v = Num(sym(nm), (q,), dt, "ndarray", meta={"foreign": True})
        ex.atom_shapes[Atom("sym", nm).key] = (q,)
        return v

    def thunk(ex):
        args = {}
        for p in sel.params:
            if p == "threshold":
                args[p] = Num(sym("threshold"), (), "float")
            else:
                args[p] = arr(ex, p, "float" if p == "scores" else "int")
        return ex.call_function(sel, [], args, None, None)

    paths = run(ctx, ex, thunk)
    rets = returns(paths)
    if len(paths) != 1 or not rets:
        ctx.undecided(rule, sel.qualname, sel.loc(), f"{len(paths)} paths through the selection")
        return
    p = rets[0]
    return p, ex


def check_selector_c07(ctx, sel):
    rule = "C07.c GREEDY-MASK"
    r = check_selector(ctx, sel)
    if r is None:
        return
    p, ex = r
    loops = main_loop(p, sel.qualname)
    if len(loops) != 1 or loops[0].kind != "while":
        ctx.undecided(rule, sel.qualname, sel.loc(), "not a single while loop")
        return
    lp = loops[0]
    forg = [e for e in p.events if e.kind in ("store_foreign", "array_mutate")]
    ctx.check(not forg, rule, "works-on-copy", forg[0].loc() if forg else sel.loc(), "the selection never writes into the caller's score table (it works on a copy; the table is later published)", found=[repr(e.data.get("target")) for e in forg])
    stores = loop_events(p, lp, "store")
    if len(stores) != 1:
        ctx.violation(rule, "mask-store", sel.loc(), f"{len(stores)} stores per round (expected one: zeroing the covered intervals)")
        return
    st = stores[0]
    work = st.data["arr"]
    ctx.check(work.init[0] == "copy" and nf_equal(work.init[1], sym("scores")), rule, "copy", sel.loc(work.node), "the working array is scores.copy()", found=f"{work.init[0]}")
    W = NF.atom(ex.arr_atom(work))
    cond = lp.info.get("cond")
    thr = sym("threshold")
    okc = loop_cond_strict(cond, work.aid, thr)
    ctx.check(okc, rule, "loop-condition", sel.loc(lp.node), "rounds continue while some remaining score exceeds the threshold (strict >)", found=repr(cond), expected="any(work > threshold)")
    apps = loop_events(p, lp, "list_append")
    okp = len(apps) == 1 and isinstance(apps[0].data["value"], Num)
    cpt = None
    if okp:
        v = _arrsub(_strip(apps[0].data["value"].nf), work.aid)
        want = app("idx", sym("maximizers"), (("at", app("argmax", sym("W"))),))
        okp = nf_equal(v, want)
        cpt = _strip(apps[0].data["value"].nf)
    ctx.check(okp, rule, "pick", apps[0].loc() if apps else sel.loc(), "each round takes the maximiser of the highest-scoring remaining interval: maximizers[argmax(work)]", found=repr(apps[0].data["value"]) if apps else "no append")
    if cpt is None:
        return
    idx, val = st.data["index"], st.data["value"]
    mask = idx[0].cond if len(idx) == 1 and isinstance(idx[0], Num) else None
    want_mask = Cond.cmp("<=", sym("starts"), cpt) & Cond.cmp("<", cpt, sym("ends"))
    got, wnt = (lin_set(mask) if mask is not None else None), lin_set(want_mask)
    ctx.check(got is not None and got == wnt, rule, "containment-mask", st.loc(), "exactly the intervals that contain the chosen point are removed: start <= cpt < end", found=repr(mask), expected=repr(want_mask))
    okz = isinstance(val, Num) and val.nf is not None and (nf_equal(val.nf, thr) or nf_equal(val.nf, -sym("inf"))) and not st.data.get("aug")
    ctx.check(okz, rule, "zeroing", st.loc(), "removed intervals get a score that can never exceed the threshold again, whatever its sign: -inf or the threshold itself (F-30: with 0.0 and a tuned threshold of -1e-13 - rounding noise of cost-based scores on constant data - the removed intervals still exceed it and the loop never ends)", found=repr(val))
    # in place (`cpts.sort(); return cpts`) or as a sorted copy (`return sorted(cpts)`), after the loop
    srt = [e for e in p.events if e.kind == "list_sort"]
    ok_inplace = len(srt) == 1 and bool(apps) and srt[0].data["lst"] is apps[0].data["lst"] and p.value is apps[0].data["lst"] and not srt[0].loops
    sd = [e for e in p.events if e.kind == "sorted"]
    ok_copy = len(sd) == 1 and bool(apps) and sd[0].data["src"] is apps[0].data["lst"] and p.value is sd[0].data["result"] and not sd[0].loops and not srt
    ctx.check(ok_inplace or ok_copy, rule, "sorted-result", (srt[0].loc() if srt else (sd[0].loc() if sd else sel.loc())), "the collected changepoints are sorted and returned", found=repr(p.value))


def loop_cond_strict(cond, aid, thr):
    """the rounds continue exactly while some remaining score is strictly above the threshold: `any(W > thr)`, or the
    same statement about the maximum - `W.max() > thr`, `W[W.argmax()] > thr` (a test in the middle of a `while True`
    body arrives here in that form)"""
    if cond is None:
        return False
    if cond.t[0] == "any" and cond.t[1].t[0] == "cmp" and cond.t[1].t[1] == "<0":
        body = cond.t[1].t[2]
        return any(a.kind == "arr" and a.args[0] == aid for a in atoms_of(body).values()) and nf_equal(_arrsub(body, aid), thr - sym("W"))
    if cond.t[0] == "cmp" and cond.t[1] == "<0":
        body = _arrsub(cond.t[2], aid)
        W = sym("W")
        for m in (app("idx", W, (("at", app("argmax", W)),)), app("maxall", W)):
            if nf_equal(body, thr - m):
                return True
    return False


def _arrsub(nf, aid):
    def f(a):
        if a.kind == "arr" and a.args[0] == aid:
            return sym("W")
        return None

    return evalnf(nf, f)


# --------------------------------------------------------------------- wiring


def _fmt_summary(ex, func, args, kwargs, so, node):
    ex.emit("format_call", node, owner=func.cls.name if func.cls else getattr(getattr(func, "owner_cls", None), "name", None), args=args, kwargs=kwargs)
    return OpaqueV("formatted", {"kind": "frame"})


def _drv_summary(ex, func, args, kwargs, so, node):
    from .common import bind_call

    b = bind_call(ex, func, args, kwargs)
    ex.emit("driver_call", node, driver=func.qualname, bound=b)
    ex.list_counter += 1
    sel = ListV([], opaque=True, lid=ex.list_counter)
    sel.role = "selected"
    from .common import name_result_record

    return name_result_record(ex, func, TupleV([sel] + [ex.mk("driver_out", func.qualname, i, shape=(sym("q"),), dtype="float") for i in range(1, 5)]))


def check_wiring(ctx, cls, drv, score_param, base, width, prop, fmt_owner):
    rule = f"{prop}.e WIRING"
    summ = dict(ABSTRACT_SUMMARIES)
    summ[drv.qualname] = _drv_summary
    for c in ctx.P.classes.values():
        if "_format_sparse_output" in c.methods:
            summ[c.methods["_format_sparse_output"].qualname] = _fmt_summary
    ex = new_executor(ctx, summ)

    def thunk(ex):
        kw = symbolic_hyperparams(ex, ctx.P, cls, {score_param: lambda ex: abstract_scorer(ex, ctx.P, base, "score", width=width)})
        obj = ex.new_object(cls, [], kw)
        obj.fields["_is_fitted"] = Num(None, (), "bool", cond=Cond.const(True))
        obj.fields["threshold_"] = Num(sym("threshold_"), (), "float")
        return call_method(ex, obj, "predict", frame_sym(ex))

    paths = run(ctx, ex, thunk)
    good = returns(paths)
    if not good:
        ctx.undecided(rule, "predict", cls.module.relpath, "predict never returns", found=[(p.outcome, p.exc.exc_name if p.exc else "") for p in paths])
        return
    p = good[0]
    dc = [e for e in p.events if e.kind == "driver_call"]
    if len(dc) != 1:
        ctx.violation(rule, "driver", cls.module.relpath, f"predict runs the driver {len(dc)} times")
        return
    from .common import flatten_records

    b = flatten_records(dc[0].data["bound"])
    exp = {"threshold": sym("threshold_"), "min_segment_length": sym("min_segment_length"), "max_interval_length": sym("max_interval_length"), "growth_factor": sym("growth_factor")}
    ok = all(k in b and isinstance(b[k], Num) and b[k].nf is not None and nf_equal(b[k].nf, v) for k, v in exp.items())
    ok = ok and any(valkey(v) == "obj:score" for v in b.values()) and any(isinstance(v, Num) and v.nf is not None and nf_equal(v.nf, sym("X")) and v.pytype == "ndarray" for v in b.values())
    ctx.check(ok, rule, "driver-arguments", dc[0].loc(), "the driver receives X.values, the detector's score, the fitted threshold_ and the hyper-parameters in their own roles", found={k: valkey(v)[:40] for k, v in b.items()})
    fm = [e for e in p.events if e.kind == "format_call"]
    okf = len(fm) == 1 and fm[0].data["owner"] == fmt_owner and fm[0].data["args"] and getattr(fm[0].data["args"][0], "role", None) == "selected"
    ctx.check(okf, rule, "formatter", fm[0].loc() if fm else cls.module.relpath, f"the driver's selection reaches {fmt_owner}'s formatter unmodified", found=repr(fm[0].data["args"]) if fm else "no formatter call")
