"""C01 - cost values equal their definition on every admissible interval."""

from __future__ import annotations

from ..nf import as_linear, NF, Atom, Undecided, app, atoms_of, lift, nf_equal, single_atom, subst, sym
from ..values import NONE, Cond, Num, ObjV, TupleV
from .common import (
    COL_CUMSUM,
    K,
    N,
    Pdim,
    call_method,
    cut_cols,
    cuts_sym,
    data_sym,
    declare_cut_order,
    events,
    new_executor,
    raises,
    returns,
    run,
    run_spec,
)

EXPLANATION = (
    "Static decision of necessary structural conditions of C01 for every input: (a) NF-KERNEL - for each class of the COSTS "
    "registry and both parameter modes the value returned by fit(X).evaluate(cuts), obtained by abstract interpretation of the "
    "source with helpers inlined and fitted fields resolved, has the same rational normal form as the definition in spec/costs.py "
    "(RSS; twice the negative Gaussian log-likelihood with the 1e-16 variance floor; multivariate likelihood over np.cov(ddof=0)), "
    "with the non-positive-definite branch must-raising RuntimeError; (b) PREFIX - the prefix-sum builder allocates n+1 rows, leaves "
    "row 0 zero and stores the column cumsum in rows 1.., and every prefix-sum subscript is a cut column (paired with the length of "
    "the same pair by the NF equality); (c) SHAPE-COLS - symbolic shapes (k,p) for univariate and (k,1) for multivariate kernels and "
    "no (k,)-against-(k,p) broadcast; (d) ROW-INDEP - evaluate stores to no attribute, mutates no argument or fitted array, and "
    "contains no reduction/sort along the cut axis; (e) PARAM-DISPATCH - mode chosen by `param is None`, every parameter component "
    "passes check_mean/check_var/check_cov which raise ValueError on wrong length / non-positive variance / non-PD covariance; "
    "(f) JIT-NEUTRAL - every @njit/@jit decoration in the library carries no semantics-changing option (fastmath, parallel, "
    "error_model, boundscheck) and the soft import's fastmath/parallel defaults are False, so the compiled kernels have the Python "
    "semantics that (a)-(e) interpret (fastmath would let the compiler drop the np.isnan non-PD guard). "
    "NOT decided: rounding error of prefix sums, numerics of np.cov/slogdet/inv, that np.cumsum is a cumulative sum (library model)."
)
# obligations added during the build phase (seeding rounds, twins, mutation analysis)
ADDED_IN_BUILD = ' Also: np.linalg.det is modelled (sign = determinant sign, log(det) = log|det| where positive) so that a log(det) spelling is compared with the definition instead of leaving the analysed subset. Fixed parameters are analysed in every combination of scalar and per-column components and also as integer-typed values (numpy\'s integer reciprocal / integer power are not 1/x).'
ADDED_IN_ROUND_9 = " Round 9: empty-batch - a fast path for an empty batch of cuts (a path whose facts say that there is no cut) must return an array without rows and with the cost's number of columns; it scores nothing and is exempt from the per-cut obligations (determinant test, row-wise value); a fast path for a batch of one cut is not."
EXPLANATION = EXPLANATION + ADDED_IN_BUILD + ADDED_IN_ROUND_9

ASSUMPTIONS = [
    "Python's ast module and evaluation-order/argument-binding semantics as implemented in skverif/symex.py",
    "library model table skverif/models.py (np.cumsum, np.log, np.cov, np.linalg.slogdet/inv, broadcasting, indexing)",
    "specification /verif/spec/costs.py transcribes the definitions named in the property",
    "sktime BaseEstimator model: clone == type(self)(**get_params()), check_is_fitted reads _is_fitted, check_series returns its argument",
    "numba compiles a kernel decorated without semantics-changing options to the semantics of its Python source (@njit read as the identity, prange as range); the absence of such options is rule (f), not an assumption",
]

# frozen table: cost class -> components of the fixed parameter and their checker
PARAM_TABLE = {
    "L2Cost": {"components": ["mean"], "multivariate": False, "spec": ("l2_optim", "l2_fixed")},
    "GaussianVarCost": {"components": ["mean", "var"], "multivariate": False, "spec": ("gaussian_var_optim", "gaussian_var_fixed")},
    "GaussianCovCost": {"components": ["mean", "cov"], "multivariate": True, "spec": ("gaussian_cov_optim", "gaussian_cov_fixed")},
}
CHECKERS = {"mean": "check_mean", "var": "check_var", "cov": "check_cov"}
REDUCERS = {"sum", "cumsum", "argsort", "mean", "maxall", "minall", "diff", "quantile", "unique", "argmax", "argmin", "roll"}


def check(ctx):
    from .common import check_jit_neutral

    check_prefix_builder(ctx)
    ctx.guard("C01.f JIT-NEUTRAL", "decorators", lambda: check_jit_neutral(ctx, "C01.f JIT-NEUTRAL"))
    costs = ctx.P.registry("skchange.costs", "COSTS")
    n_kernels = 0
    n_sinks = set()
    for cls in costs:
        tab = PARAM_TABLE.get(cls.name)
        if tab is None:
            ctx.undecided("C01 TABLE", f"{cls.qualname}", cls.module.relpath, "cost class in the COSTS registry without a line in the frozen parameter table (unspecified instance)")
            continue
        for mode in ("optim", "fixed-array", "fixed-number") + _mixed_modes(tab) + ("fixed-array:int", "fixed-number:int"):
            key = f"{cls.name}|{mode}"
            ctx.guard("C01.a NF-KERNEL", key, lambda: check_kernel(ctx, cls, tab, mode, n_sinks), cls.module.relpath)
            n_kernels += 1
        ctx.guard("C01.e PARAM-DISPATCH", cls.name, lambda: check_param_validation(ctx, cls, tab), cls.module.relpath)
    ctx.expect_min("C01.a NF-KERNEL", n_kernels, 9)
    ctx.expect_min("C01.b PREFIX-SUBSCRIPT", len(n_sinks), 8)
    ctx.stats["sinks"] = len(n_sinks)


# ---------------------------------------------------------------- PREFIX-BUILDER


def check_prefix_builder(ctx):
    rule = "C01.b PREFIX-BUILDER"
    f = ctx.P.func(COL_CUMSUM)
    from ..symex import Executor

    for iz in (True, False):
        key = f"col_cumsum|init_zero={iz}"

        def go():
            ex = Executor(ctx.P)

            def thunk(ex):
                x = data_sym(ex, "x")
                return ex.call_function(f, [x, Num(None, (), "bool", cond=Cond.const(iz))], {}, None, None)

            paths = run(ctx, ex, thunk)
            if len(paths) != 1 or paths[0].outcome != "return":
                ctx.undecided(rule, key, f.loc(), f"{len(paths)} paths through the builder")
                return
            p = paths[0]
            v = p.value
            if not isinstance(v, Num) or v.arr is None or v.arr.init[0] != "zeros":
                ctx.violation(rule, key, f.loc(), "the builder does not return an array allocated by np.zeros", found=repr(v))
                return
            a = v.arr
            rows = lift(N) + 1 if iz else lift(N)
            ok_shape = a.shape is not None and len(a.shape) == 2 and nf_equal(lift(a.shape[0]), rows) and nf_equal(lift(a.shape[1]), lift(Pdim))
            ctx.check(ok_shape, rule, key + "|rows", f.loc(a.node), "allocation has n+1 rows (row 0 stays zero)" if iz else "allocation has n rows", found=f"shape {a.shape}", expected=f"({rows!r}, p)")
            if len(a.stores) != 1:
                ctx.violation(rule, key + "|store", f.loc(), f"{len(a.stores)} stores into the prefix-sum array, expected exactly one (column loop)")
                return
            st = a.stores[0]
            idx, val = st.data["index"], st.data["value"]
            good = False
            detail = ""
            try:
                from ..values import SliceV, NoneV

                loopok = bool(st.loops) and st.loops[-1].info.get("range") is not None
                rng = st.loops[-1].info["range"] if loopok else None
                loopok = loopok and rng[0].as_const() == 0 and nf_equal(rng[1], lift(Pdim)) and rng[2].as_const() == 1
                s0 = idx[0]
                start = 1 if iz else 0
                rowok = isinstance(s0, SliceV) and isinstance(s0.hi, NoneV) and isinstance(s0.step, NoneV) and (
                    (isinstance(s0.lo, NoneV) and start == 0) or (isinstance(s0.lo, Num) and s0.lo.nf.as_const() == start)
                )
                lv = single_atom(idx[1].nf) if isinstance(idx[1], Num) else None
                colok = lv is not None and lv.kind == "lv"
                a_val = single_atom(val.nf) if isinstance(val, Num) else None
                valok = (
                    a_val is not None
                    and a_val.kind == "app"
                    and a_val.args[0] == "cumsum"
                    and nf_equal(a_val.args[1], app("col", sym("x"), idx[1].nf))
                )
                good = loopok and rowok and colok and valok and not st.data.get("aug")
                detail = f"loop over all columns={loopok} rows {start}:={rowok} column=loopvar={colok} value=cumsum(x[:, j])={valok}"
            except Exception as e:  # noqa: BLE001
                detail = f"unrecognised store shape ({e})"
            ctx.check(good, rule, key + "|store", f.loc(st.node), detail, found=f"sums[{_idxs(idx)}] = {val!r}", expected=f"sums[{1 if iz else 0}:, j] = cumsum(x[:, j]) for j in range(p)")

        ctx.guard(rule, key, go, f.loc())


def _idxs(idx):
    from ..values import valkey

    return ",".join(valkey(i) for i in idx)


# ------------------------------------------------------------------ NF-KERNEL


def _mixed_modes(tab):
    """fixed parameters of several components: each component may be a number while the others are per-column arrays (the
    quantifier names scalar or per-column mean / variance, in every combination)"""
    cs = tab["components"]
    return tuple(f"fixed-mix:{c}" for c in cs) if len(cs) > 1 else ()


def _is_number(mode, c):
    return mode.startswith("fixed-number") or mode == f"fixed-mix:{c}"


def _param_dtype(mode):
    """a fixed parameter given as Python ints / an integer array (`param=(0, 2)`) is as valid as its float spelling; the
    validators keep the dtype they are given, so the kernels see it"""
    return "int" if mode.endswith(":int") else "float"


def make_param(ex, tab, mode, qlen=None, only=None):
    """only: give the odd length qlen to this component alone (the others have the data's width)"""
    if mode == "optim":
        return []
    comps = []
    for c in tab["components"]:
        if _is_number(mode, c):
            v = Num(sym(c), (), _param_dtype(mode), "number", meta={"role": c})
            ex.atom_shapes[Atom("sym", c).key] = ()
        else:
            ql = qlen if (only is None or only == c) else None
            if c == "cov":
                shape = (Pdim, Pdim) if ql is None else (ql, ql)
            else:
                shape = (Pdim,) if ql is None else (ql,)
            v = Num(sym(c), shape, _param_dtype(mode), "ndarray", meta={"role": c, "foreign": True})
            ex.atom_shapes[Atom("sym", c).key] = shape
        comps.append(v)
    return [comps[0]] if len(comps) == 1 else [TupleV(comps)]


def scenario(ctx, cls, tab, mode, qlen=None, only=None):
    ex = new_executor(ctx)
    state = {}

    def thunk(ex):
        X = data_sym(ex)
        cuts = cuts_sym(ex, 2)
        obj = ex.new_object(cls, make_param(ex, tab, mode, qlen, only), {})
        state["obj"] = obj
        # history: the same object was fitted on other data of the same size and evaluated before
        call_method(ex, obj, "fit", data_sym(ex, "X0"))
        call_method(ex, obj, "evaluate", cuts)
        call_method(ex, obj, "fit", X)
        state["fit_events"] = len(ex.events)
        ex.emit("marker", None, name="fit-done")
        return call_method(ex, obj, "evaluate", cuts)

    paths = run(ctx, ex, thunk)
    return ex, paths, state


def check_kernel(ctx, cls, tab, mode, sinks):
    key = f"{cls.name}|{mode}"
    declare_cut_order(2)
    ex, paths, state = scenario(ctx, cls, tab, mode)
    rets = returns(paths)
    loc = cls.module.relpath
    if not rets:
        ctx.violation("C01.a NF-KERNEL", key, loc, "no path through fit/evaluate returns a value")
        return
    s_col, e_col = cut_cols(2)
    multivariate = tab["multivariate"]
    specname = tab["spec"][0 if mode == "optim" else 1]

    # ---- spec value
    def spec_args(sx):
        if multivariate:
            X = data_sym(sx)
            s = Num(sym("s"), (), "int")
            e = Num(sym("e"), (), "int")
            a = [X, s, e, Num(Pdim, (), "int")]
            if mode != "optim":
                a += _spec_params(sx, tab, mode)
            return a
        X = data_sym(sx)
        ps1 = sx.mk("prefix0", X.nf, shape=(lift(N) + 1, Pdim), dtype="float")
        ps2 = sx.mk("prefix0", X.nf * X.nf, shape=(lift(N) + 1, Pdim), dtype="float")
        s = Num(s_col, (K,), "int")
        e = Num(e_col, (K,), "int")
        a = [ps1, ps2, s, e]
        if mode != "optim":
            a += _spec_params(sx, tab, mode)
        return a

    spec_val, _ = run_spec(ctx, "costs", specname, spec_args)
    spec_nf = spec_val.nf

    # on return paths: the is-not-PD branch must not be taken (it must raise)
    for p in rets:
        v = p.value
        kloc = loc
        if not isinstance(v, Num):
            from ..values import OpaqueV

            if isinstance(v, OpaqueV):
                ctx.undecided("C01.a NF-KERNEL", key, loc, "the returned value is the result of a call without a model: not decided", found=repr(v)[:120])
            else:
                ctx.violation("C01.a NF-KERNEL", key, loc, "evaluate does not return an array", found=repr(v))
            continue
        # ------------------------------------------------ empty batch: nothing to score, an array without rows
        if _empty_batch(p):
            shp = v.shape
            cols = NF.const(1) if multivariate else Pdim
            ok0 = shp is not None and len(shp) == 2 and (lift(shp[0]).as_const() == 0 or nf_equal(lift(shp[0]), lift(K))) and nf_equal(lift(shp[1]), lift(cols))
            ctx.check(ok0, "C01.c SHAPE-COLS", key + "|empty-batch", loc, "a fast path for an empty batch of cuts returns an array without rows and with the cost's number of columns", found=repr(shp), expected=f"(0, {cols!r})", nontrivial=False)
            continue
        # ------------------------------------------------ value
        if multivariate:
            code_nf, st = _rowwise_value(ctx, ex, v, key, loc)
            if code_nf is None:
                continue
            kloc = st.loc()
        else:
            code_nf = ex.cur_nf(v)
        if _opaque_atoms(code_nf):
            ctx.undecided("C01.a NF-KERNEL", key, kloc, f"unmodelled construct in the kernel value: {_opaque_atoms(code_nf)}")
        else:
            ctx.check(nf_equal(code_nf, spec_nf), "C01.a NF-KERNEL", key, kloc, f"returned value vs definition spec/costs.py:{specname}", found=repr(code_nf), expected=repr(spec_nf))
        # ------------------------------------------------ shape
        exp_shape = (K, NF.const(1)) if multivariate else (K, Pdim)
        shp = v.shape
        ok = shp is not None and len(shp) == 2 and nf_equal(lift(shp[0]), lift(exp_shape[0])) and nf_equal(lift(shp[1]), lift(exp_shape[1]))
        ctx.check(ok, "C01.c SHAPE-COLS", key, kloc, "one row per cut, " + ("one column" if multivariate else "one column per variable"), found=f"shape {shp}", expected=f"shape {exp_shape}")
        bm = [e for e in _after_fit(p) if e.kind == "broadcast_mismatch"]
        for e in bm:
            ctx.violation("C01.c SHAPE-COLS", key + "|broadcast", e.loc(), "operands broadcast a per-cut vector (k,) against a (k,p) matrix (missing reshape(-1, 1)?)", found=f"{e.data['left']} vs {e.data['right']}")
        if not bm:
            ctx.holds("C01.c SHAPE-COLS", key + "|broadcast", kloc, "no shape-incompatible broadcast in the kernel")
        # ------------------------------------------------ row independence
        _row_indep(ctx, ex, p, state, v, code_nf, key, loc)
        # ------------------------------------------------ sinks (prefix-sum subscripts)
        for e in _after_fit(p):
            if e.kind == "read":
                b = e.data["base"]
                a = single_atom(b.nf) if b.nf is not None else None
                if a is not None and a.kind == "app" and a.args[0] in ("prefix0", "prefix"):
                    sinks.add((e.func.qualname, e.node.lineno, e.node.col_offset))
                    parts = e.data["parts"]
                    okp = len(parts) == 1 and parts[0][0] == "gather" and any(nf_equal(parts[0][1], c) for c in (s_col, e_col))
                    okz = a.args[0] == "prefix0"
                    ctx.check(okp and okz, "C01.b PREFIX-SUBSCRIPT", f"{e.func.name}|{_short(parts)}", e.loc(), "prefix-sum array is zero-initialised and subscripted by a cut column at offset 0", found=f"{a.args[0]}[{_short(parts)}]", expected="prefix0[cuts[:, j]]")
    # the non-PD branch of the multivariate optimal kernel must raise
    if multivariate and mode == "optim":
        _must_raise_nonpd(ctx, paths, key, loc)
    # dispatch: the mode was selected by `param is None`
    fns = ex.functions_seen
    want = "_evaluate_optim_param" if mode == "optim" else "_evaluate_fixed_param"
    other = "_evaluate_fixed_param" if mode == "optim" else "_evaluate_optim_param"
    took = any(q.endswith("." + want) for q in fns)
    nott = not any(q.endswith("." + other) and cls.name in q for q in fns)
    ctx.check(took and nott, "C01.e PARAM-DISPATCH", key + "|mode", loc, f"param {'is' if mode == 'optim' else 'is not'} None selects {want}", found=sorted(q.split('.')[-1] for q in fns if "_evaluate_" in q))


def _after_fit(p):
    """events of a path after its own fit (the offset differs from path to path)"""
    for i, e in enumerate(p.events):
        if e.kind == "marker" and e.data.get("name") == "fit-done":
            return p.events[i + 1:]
    return []


def _short(parts):
    return ";".join(str(p[0]) + ":" + repr(p[1]) if isinstance(p, tuple) else str(p) for p in parts)


def _spec_params(sx, tab, mode):
    out = []
    for c in tab["components"]:
        if _is_number(mode, c):
            if c == "cov":
                out.append(Num(sym(c) * app("eye", lift(Pdim)), (Pdim, Pdim), "float"))
            else:
                out.append(Num(sym(c), (), "float"))
        else:
            shape = (Pdim, Pdim) if c == "cov" else (Pdim,)
            out.append(Num(sym(c), shape, "float"))
            sx.atom_shapes[Atom("sym", c).key] = shape
    return out


def _opaque_atoms(nf):
    bad = []
    for a in atoms_of(nf).values():
        if a.kind == "app" and a.args[0] in ("asarray", "array", "opq"):
            bad.append(repr(a))
        if a.kind == "arr":
            bad.append(repr(a))
    return bad


def _rowwise_value(ctx, ex, v, key, loc):
    """multivariate kernels: the returned buffer is written row by row in a loop"""
    rule = "C01.a NF-KERNEL"
    gather = None
    if v.arr is None:
        # result = buffer[G] for an index array G (e.g. a sorting permutation used to reorder the batch): row i of the
        # result is row G[i] of the buffer
        base, idxs = v.meta.get("index_of"), v.meta.get("index")
        if isinstance(base, Num) and base.arr is not None and idxs is not None and len(idxs) == 1 and isinstance(idxs[0], Num) and idxs[0].shape is not None and len(idxs[0].shape) == 1 and idxs[0].dtype == "int":
            gather = idxs[0]
            v = base
        else:
            ctx.undecided(rule, key, loc, "multivariate kernel does not return an allocated buffer (unrecognised idiom)")
            return None, None
    a = v.arr
    if len(a.stores) != 1 or not a.stores[0].loops:
        ctx.undecided(rule, key, loc, f"{len(a.stores)} stores into the cost buffer; expected one store per cut inside a loop")
        return None, None
    st = a.stores[0]
    ctxl = st.loops[-1]
    idx, val = st.data["index"], st.data["value"]
    rng = ctxl.info.get("range")
    rows_ok = rng is not None and rng[0].as_const() == 0 and nf_equal(rng[1], lift(K)) and rng[2].as_const() == 1
    lvnf = NF.atom(Atom("lv", ctxl.lid))
    idx_ok = len(idx) == 2 and isinstance(idx[0], Num) and nf_equal(idx[0].nf, lvnf) and isinstance(idx[1], Num) and idx[1].nf.as_const() == 0
    ctx.check(rows_ok and idx_ok and not st.data.get("aug"), "C01.d ROW-INDEP", key + "|loop", st.loc(), "row i of the result is written exactly once, from cut i (loop over all cuts, store at [i, 0])", found=f"costs[{_idxs(idx)}] in range {rng}", expected="costs[i, 0] for i in range(k)")
    if not isinstance(val, Num) or val.nf is None:
        ctx.undecided(rule, key, st.loc(), "the value stored per cut has no normal form (a library call without a model)", found=repr(val)[:120])
        return None, None
    valnf = val.nf
    if gather is not None:
        ok_len = nf_equal(lift(gather.shape[0]), lift(K))
        ctx.check(ok_len, "C01.c SHAPE-COLS", key + "|gathered-rows", loc, "the result keeps one row per cut", found=f"{gather.shape[0]!r} rows", expected="k rows")
        g_i = app("idx", gather.nf, (("at", lvnf),))
        valnf = _perm_simplify(subst(valnf, {Atom("lv", ctxl.lid).key: g_i}))
    # rename cuts[i, j] -> s, e
    s_i = app("idx", app("col", sym("cuts"), NF.const(0)), (("at", lvnf),))
    e_i = app("idx", app("col", sym("cuts"), NF.const(1)), (("at", lvnf),))
    code = subst(valnf, {single_atom(s_i).key: sym("s"), single_atom(e_i).key: sym("e")})
    left = [x for x in atoms_of(code).values() if x.kind == "lv"]
    if left:
        ctx.violation("C01.d ROW-INDEP", key + "|reads", st.loc(), "the value stored for cut i reads something other than cuts[i] through the loop index", found=repr(code))
    return code, st


def _perm_simplify(nf):
    """A[argsort(argsort(A))] o argsort(A) = identity:  idx(argsort(A), at idx(argsort(argsort(A)), at t)) -> t  (and the
    converse composition).  Nothing else is known about permutations: order[order[i]] stays as it is."""
    from ..nf import evalnf

    def is_argsort(x):
        a = single_atom(x) if isinstance(x, NF) else (x if isinstance(x, Atom) else None)
        if a is not None and a.kind == "app" and a.args and a.args[0] == "argsort":
            return a.args[1]
        return None

    def f(a):
        if a.kind == "app" and a.args and a.args[0] == "idx" and len(a.args) == 3:
            spec = a.args[2]
            # A[P][t] -> A[P[t]]
            ba = single_atom(a.args[1]) if isinstance(a.args[1], NF) else None
            if ba is not None and ba.kind == "app" and ba.args[0] == "idx" and len(ba.args) == 3 and isinstance(spec, tuple) and len(spec) == 1 and isinstance(spec[0], tuple) and spec[0][0] == "at":
                sp0 = ba.args[2]
                if isinstance(sp0, tuple) and len(sp0) == 1 and isinstance(sp0[0], tuple) and sp0[0][0] == "gather":
                    inner_t = app("idx", lift(sp0[0][1]), (("at", lift(spec[0][1])),))
                    return app("idx", ba.args[1], (("at", evalnf(inner_t, f)),))
            outer = is_argsort(a.args[1])
            if outer is not None and isinstance(spec, tuple) and len(spec) == 1 and isinstance(spec[0], tuple) and spec[0][0] == "at":
                t = spec[0][1]
                ta = single_atom(t) if isinstance(t, NF) else None
                if ta is not None and ta.kind == "app" and ta.args[0] == "idx" and len(ta.args) == 3:
                    inner = is_argsort(ta.args[1])
                    sp2 = ta.args[2]
                    if inner is not None and isinstance(sp2, tuple) and len(sp2) == 1 and sp2[0][0] == "at":
                        # outer = argsort(A), inner = argsort(B): inverse pair iff B = argsort(A) or A = argsort(B)
                        io, ii = is_argsort(outer), is_argsort(inner)
                        if (ii is not None and nf_equal(lift(ii), lift(outer))) or (io is not None and nf_equal(lift(io), lift(inner))):
                            return lift(sp2[0][1])
        return None

    prev = None
    cur = nf
    for _ in range(4):
        if prev is not None and nf_equal(prev, cur):
            break
        prev, cur = cur, evalnf(cur, f)
    return cur


def _row_indep(ctx, ex, p, state, v, code_nf, key, loc):
    rule = "C01.d ROW-INDEP"
    obj = state["obj"]
    evs = _after_fit(p)
    bad = [e for e in evs if e.kind == "attr_store" and isinstance(e.data["obj"], ObjV)]
    bad = [e for e in bad if _same_family(e.data["obj"], obj)]
    for e in bad:
        ctx.violation(rule, key + f"|attr:{e.data['attr']}", e.loc(), f"evaluate stores to self.{e.data['attr']}: later rows/calls can depend on earlier ones")
    forg = [e for e in evs if e.kind in ("store_foreign", "array_mutate")]
    for e in forg:
        ctx.violation(rule, key + "|mutation", e.loc(), "evaluate mutates an array it did not allocate (the cuts argument or a fitted field)", found=repr(e.data.get("target")))
    red = []
    for a in atoms_of(code_nf).values():
        if a.kind == "app" and a.args[0] in REDUCERS:
            inner = a.args[1] if len(a.args) > 1 else None
            axis = a.args[2] if len(a.args) > 2 else None
            if isinstance(inner, NF) and any(x.kind == "sym" and x.args[0] == "cuts" for x in atoms_of(inner).values()):
                if a.args[0] == "sum" and axis == 1:
                    continue
                red.append(a)
    for a in red:
        ctx.violation(rule, key + f"|reduce:{a.args[0]}", loc, "the value of a row depends on a reduction/ordering over the batch of cuts", found=repr(a))
    if not bad and not forg and not red:
        ctx.holds(rule, key, loc, f"no attribute store, no foreign mutation, no batch reduction on the evaluate path ({len(evs)} events inspected)")


def _same_family(a, b):
    # objects are re-created on every path re-execution: identity is the per-path allocation key
    return a is b or getattr(a, "key", None) == getattr(b, "key", object())


def _has_det(text):
    """the sign of the determinant: det_sign of slogdet, or the determinant itself"""
    return "detsign(" in text or "det(" in text


def _sign_test(c, v):
    """What a decided fact says about the determinant sign: 'nonpd' (det_sign <= 0 established), 'pd' (det_sign > 0
    established) or None.  Orientation-independent: `det_sign <= 0`, `not det_sign > 0`, `0 >= det_sign` all read alike."""
    if c.t[0] != "cmp" or not _has_det(c.key):
        return None
    lin = as_linear(c.t[2])
    if lin is None:
        return None
    c0, co = lin
    ks = [k for a, k in co.items() if _has_det(repr(a))]
    if len(ks) != 1 or len(co) != 1 or c0 != 0:
        return None
    k = ks[0]
    op = c.t[1]
    # the fact states:  k * det_sign  op  0   is  v
    if op == "<=0":
        le = True
    elif op == "<0":
        le = False
    else:
        return None
    if k > 0:
        # det_sign <= 0 (le) / det_sign < 0
        if le:
            return "nonpd" if v else "pd"
        return "nonpd" if v else None  # not(det_sign < 0) leaves det_sign == 0 open
    # k < 0:  det_sign >= 0 (le) / det_sign > 0
    if le:
        return None if v else "nonpd"  # det_sign >= 0 leaves 0 open
    return "pd" if v else "nonpd"


def _empty_batch(p):
    """the path is the one of an EMPTY batch: a fact of the path says that the number of cuts is zero (`len(starts) == 0`,
    `cuts.shape[0] == 0`, `starts.size < 1` ...).  No row is scored on such a path; what it may return is an array without
    rows."""
    for c, v in p.facts:
        t = getattr(c, "t", None)
        if not t or t[0] != "cmp":
            continue
        op, nf = t[1], t[2]
        if op == "==0" and v and (nf_equal(nf, lift(K)) or nf_equal(nf, -lift(K))):
            return True
        if op == "<0" and v and nf_equal(nf, lift(K) - 1):  # k < 1
            return True
        if op == "<0" and not v and nf_equal(nf, -lift(K)):  # not (0 < k)
            return True
        if op == "<=0" and v and nf_equal(nf, lift(K)):  # k <= 0
            return True
    return False


def _must_raise_nonpd(ctx, paths, key, loc):
    rule = "C01.a NONPD-RAISES"
    seen = 0
    for p in paths:
        kinds = [_sign_test(c, v) for c, v in p.facts]
        if "nonpd" in kinds:
            seen += 1
            ok = p.outcome == "raise" and p.exc.exc_name == "RuntimeError"
            ctx.check(ok, rule, key, p.exc.func.loc(p.exc.node) if p.outcome == "raise" and p.exc.func else loc, "sample covariance not positive definite => documented RuntimeError", found=(p.exc.exc_name if p.outcome == "raise" else "returns a value"), expected="raise RuntimeError")
    if seen == 0:
        ctx.violation(rule, key, loc, "no branch tests the sign of the covariance determinant: a non-positive-definite slice is scored silently")
    # conversely, every returning path has taken the positive branch of the sign test (no shortcut around it)
    for k, p in enumerate(q for q in paths if q.outcome == "return"):
        if _empty_batch(p):
            continue  # no cut, no slice, no determinant (the returned array has no rows: NF-KERNEL empty-batch)
        pos = "pd" in [_sign_test(c, v) for c, v in p.facts]
        side = [repr(c)[:60] for c, v in p.facts if not _has_det(c.key)][-2:]
        ctx.check(pos, rule, key + f"|return#{k}", loc, "a value is returned only after the determinant sign test came out positive" if pos else "a returning path bypasses the determinant sign test: a degenerate (non-positive-definite) slice gets a finite or -inf cost instead of RuntimeError", found=f"path facts {side}", expected="det_sign > 0 decided on every returning path")


# ------------------------------------------------------------ PARAM-DISPATCH


def _length_case_value(c, q, case):
    """three-valued value of condition c when the free length q is 1 ("one"), X.shape[1] ("p", assumed != 1) or neither
    ("other"); None when c says nothing decided about q"""
    t = c.t
    if t[0] == "const":
        return t[1]
    if t[0] == "not":
        v = _length_case_value(t[1], q, case)
        return None if v is None else (not v)
    if t[0] in ("and", "or"):
        a, b = _length_case_value(t[1], q, case), _length_case_value(t[2], q, case)
        if t[0] == "and":
            if a is False or b is False:
                return False
            return True if (a is True and b is True) else None
        if a is True or b is True:
            return True
        return False if (a is False and b is False) else None
    if t[0] == "cmp" and t[1] in ("==0", "!=0"):
        d = t[2]
        zero = None
        for sign in (1, -1):
            if nf_equal(d, (q - NF.const(1)) * sign):
                zero = case == "one"
            elif nf_equal(d, (q - lift(Pdim)) * sign):
                zero = case == "p"
        if zero is None:
            return None
        return zero if t[1] == "==0" else (not zero)
    return None


def _consistent_with_length(path, q, case):
    for c, v in path.facts:
        val = _length_case_value(c, q, case)
        if val is not None and val != v:
            return False
    return True


def check_param_validation(ctx, cls, tab):
    rule = "C01.e PARAM-DISPATCH"
    q = sym("q")
    ex, paths, state = scenario(ctx, cls, tab, "fixed-array", qlen=q)
    loc = cls.module.relpath
    fns = ex.functions_seen
    # every component goes through its checker
    for c in tab["components"]:
        chk = CHECKERS[c]
        ctx.check(any(f.endswith("." + chk) for f in fns), rule, f"{cls.name}|{c}|routed", loc, f"component '{c}' of the fixed parameter is validated by {chk}", found=sorted(f.split(".")[-1] for f in fns if "check" in f))
    ctx.check(any(f.endswith("._check_param") for f in fns), rule, f"{cls.name}|_check_param", loc, "_fit validates self.param through _check_param")
    # wrong length: q not in {1, p} must end in ValueError
    from .common import guard_outcomes, is_cmp, raise_loc, same_set

    c1 = Cond.cmp("!=", q, NF.const(1))
    cp = Cond.cmp("!=", q, lift(Pdim))
    # one component at a time has the odd length q (the others are valid), so that every component's own guard is exercised
    for comp in tab["components"]:
        if comp == "cov":
            continue  # shape (q, q) of a covariance: decided below (cov-shape)
        _ex, cpaths, _st = scenario(ctx, cls, tab, "fixed-array", qlen=q, only=comp)
        # decided by cases on the free length q, whatever the spelling of the guards (one `and`, nested ifs, a helper
        # with an early return): a path is open to a WRONG length if none of its facts about q contradicts q not in {1, p}
        wrong = [x for x in cpaths if _consistent_with_length(x, q, "other")]
        if any(x.outcome == "return" for x in wrong):
            bad_ = next(x for x in wrong if x.outcome == "return")
            ctx.violation(rule, f"{cls.name}|{comp}|length", loc, f"a {comp} whose length is neither 1 nor X.shape[1] reaches the kernel: no fact on a returning path excludes it", found=[f"{c!r}={v}" for c, v in bad_.facts if "q" in repr(c)][:4], expected=f"len({comp}) != 1 and len({comp}) != X.shape[1] -> ValueError")
            continue
        if not wrong:
            ctx.undecided(rule, f"{cls.name}|{comp}|length", loc, f"no path of the scenario is open to a {comp} of a wrong length and none rejects it: the guards on the length were not read")
            continue
        ok = all(x.outcome == "raise" and x.exc.exc_name == "ValueError" for x in wrong)
        ctx.check(ok, rule, f"{cls.name}|{comp}|length", raise_loc(wrong[0], loc), f"a {comp} of length other than 1 or p is rejected with ValueError", found=[(x.exc.exc_name if x.outcome == "raise" else "accepted") for x in wrong], expected="ValueError")
        # and nothing else is rejected on account of the length: returning paths exist for q == 1 and q == p
        acc = [x for x in cpaths if x.outcome == "return"]
        ctx.check(bool(acc), rule, f"{cls.name}|{comp}|length-accepts", loc, f"a {comp} of length 1 or p is accepted", found=f"{len(acc)} returning paths", nontrivial=False)
    # non-positive variance / non-PD covariance
    if "var" in tab["components"]:
        pred = lambda c: c.t[0] == "any" and is_cmp(c.t[1], ("<=0",), sym("var"))  # noqa: E731
        hit = guard_outcomes(paths, pred)
        ok = bool(hit) and all(x.outcome == "raise" and x.exc.exc_name == "ValueError" for x in hit)
        ctx.check(ok, rule, f"{cls.name}|var-positive", raise_loc(hit[0], loc) if hit else loc, "any(var <= 0) raises ValueError (zero variance rejected)", found=f"{len(hit)} paths on which the guard fires; outcomes {[x.outcome for x in hit]}", expected="guard any(var <= 0) followed by raise ValueError")
    if "cov" in tab["components"]:
        pred = lambda c: c.t[0] == "any" and is_cmp(c.t[1], ("<=0",), app("eigvals", sym("cov")))  # noqa: E731
        hit = guard_outcomes(paths, pred)
        ok = bool(hit) and all(x.outcome == "raise" and x.exc.exc_name == "ValueError" for x in hit)
        ctx.check(ok, rule, f"{cls.name}|cov-pd", raise_loc(hit[0], loc) if hit else loc, "a covariance with a non-positive eigenvalue raises ValueError", found=f"{len(hit)} paths; outcomes {[x.outcome for x in hit]}", expected="guard not all(eigvals(cov) > 0) followed by raise ValueError")
        # a (q, r) covariance: both dimensions are compared with p
        r_ = sym("r")
        exs = new_executor(ctx)

        def thunk_shape(ex):
            X = data_sym(ex)
            comps = []
            for c in tab["components"]:
                shape = (q, r_) if c == "cov" else (Pdim,)
                v = Num(sym(c), shape, "float", "ndarray", meta={"role": c, "foreign": True})
                ex.atom_shapes[Atom("sym", c).key] = shape
                comps.append(v)
            obj = ex.new_object(cls, [comps[0]] if len(comps) == 1 else [TupleV(comps)], {})
            return call_method(ex, obj, "fit", X)

        spaths = run(ctx, exs, thunk_shape)
        cq, cr = Cond.cmp("!=", q, lift(Pdim)), Cond.cmp("!=", r_, lift(Pdim))
        hit = guard_outcomes(spaths, lambda c: same_set(c, "or", [cq, cr]))
        ok = bool(hit) and all(x.outcome == "raise" and x.exc.exc_name == "ValueError" for x in hit)
        ctx.check(ok, rule, f"{cls.name}|cov-shape", raise_loc(hit[0], loc) if hit else loc, "a covariance whose shape is not (p, p) raises ValueError (both dimensions are compared with p)", found=f"{len(hit)} paths; guards {sorted({repr(c)[:80] for x in spaths for c, v in x.facts if 'p' in repr(c) and ('q' in repr(c) or 'r' in repr(c))})[:3]}", expected="cov.shape[0] != p or cov.shape[1] != p")
        # a covariance that is not 2-D: ValueError (not an IndexError from cov.shape[1])
        exn = new_executor(ctx)

        def thunk_ndim(ex):
            X = data_sym(ex)
            comps = []
            for c in tab["components"]:
                shape = None if c == "cov" else (Pdim,)
                v = Num(sym(c), shape, "float", "ndarray", meta={"role": c, "foreign": True})
                comps.append(v)
            obj = ex.new_object(cls, [comps[0]] if len(comps) == 1 else [TupleV(comps)], {})
            return call_method(ex, obj, "fit", X)

        try:
            npaths = run(ctx, exn, thunk_ndim)
        except Undecided as u:
            npaths = getattr(u, "partial_paths", None) or []
        nd = lambda c: c.t[0] == "cmp" and any(a.kind == "app" and a.args[0] == "ndim" for a in atoms_of(c.t[2]).values())  # noqa: E731
        hitn = [x for x in npaths if any(nd(c) for c, v in x.facts) and x.outcome == "raise"]
        okn = bool(hitn) and all(x.exc.exc_name == "ValueError" for x in hitn) and not any(x.outcome == "raise" and x.exc.exc_name != "ValueError" for x in npaths)
        ctx.check(okn, rule, f"{cls.name}|cov-ndim", raise_loc(hitn[0], loc) if hitn else loc, "a covariance that is not 2-dimensional raises ValueError", found=sorted({(x.outcome, x.exc.exc_name if x.exc else "") for x in npaths})[:4], expected="a guard on cov.ndim followed by raise ValueError")
    # any raise on the validation path is a ValueError
    for p in paths:
        if p.outcome == "raise" and p.exc.func is not None and p.exc.func.name.startswith("check_") and p.exc.exc_name != "ValueError":
            ctx.violation(rule, f"{cls.name}|raise-kind", p.exc.func.loc(p.exc.node), "parameter validation raises something other than ValueError", found=p.exc.exc_name)
