"""C15 - thresholds and penalties follow their documented formulas and act monotonically."""

from __future__ import annotations

import ast
from fractions import Fraction

from ..index import ClassInfo

from ..homog import ANY, degree
from ..nf import NF, Atom, Undecided, app, atoms_of, lift, nf_equal, single_atom, subst, sym
from ..values import NONE, Cond, ListV, NoneV, Num, ObjV, OpaqueV, StrV, TupleV, valkey
from .common import (
    ABSTRACT_SUMMARIES,
    N,
    Pdim,
    call_method,
    frame_sym,
    new_executor,
    ok_paths,
    returns,
    run,
    run_spec,
    symbolic_hyperparams,
)

EXPLANATION = (
    "Static decision for all n, p, scales and hyper-parameters: (a) NF-FORMULA - the value stored in penalty_/threshold_/"
    "collective_penalty_ on the `scale is not None` path of fit(X) has the rational normal form scale*2*p*log n (PELT), "
    "scale*2*p*sqrt(log n) (seeded binseg), scale * the class's own get_default_threshold bound to (n, p, own hyper-parameters) "
    "(circular binseg, moving window), capa_penalty(n, get_param_size(p), scale) = scale*(k+2sqrt(k log n)+2 log n) (CAPA); the MVCAPA "
    "families: dense = (capa_penalty(n, p*k, scale), zeros(p)), sparse = (2 scale log n, full(p, 2 scale log(k p))), combined = "
    "(0, diff([0, min(D,S,I)])) with D,S,I the cumulative dense/sparse/intermediate penalties called with the caller's own "
    "(n,p,k,scale) - helper calls are inlined binding actuals to formals as Python does, so an argument in the wrong position changes "
    "the NF; (b) QUANTILE-TUNE - on the `scale is None` path the stored value is np.quantile(v, 1-level) with v the score output of "
    "the detector's own driver called with the same arguments as in predict except an infinite threshold; PELT raises ValueError; "
    "(c) SCALE-LINEAR - every formula of (a), including the intermediate family, is homogeneous of degree 1 in the scale atom. "
    "(d) MONOTONE-PELT - that a larger penalty never yields more changepoints is a theorem about exact minimisers; its structural "
    "necessary condition, the exactness obligations of C02 (recurrence, index gather, pruning form and pruning delay), is re-run here. "
    "NOT decided: chi2-dependent monotonicity of the intermediate family, np.quantile's order-statistic property, the monotonicity "
    "theorem itself."
)
# obligations added during the build phase (seeding rounds, twins, mutation analysis)
ADDED_IN_BUILD = ' Also: every scorer-valued hyper-parameter of the formula scenarios is an arbitrary user scorer (un-interpreted number of parameters, un-interpreted min_size); fitted penalties / thresholds are written by fit only (C10.c re-run). param-size: get_param_size of the three built-in costs equals the number of free parameters of their models (p, 2p, p + p(p+1)/2) for p = 1, 2, 3, 5, 8.'
EXPLANATION = EXPLANATION + ADDED_IN_BUILD

ASSUMPTIONS = [
    "Python's ast module and evaluation-order/argument-binding semantics as implemented in skverif/symex.py",
    "library model table skverif/models.py (np.log, np.sqrt, np.cumsum/np.diff/np.minimum as uninterpreted linear/monotone operators)",
    "specification /verif/spec/penalties.py transcribes the formulas named in the property",
    "sktime BaseEstimator model (check_series identity; __init__ of the external base is a no-op)",
]
MV = "skchange.anomaly_detectors.mvcapa"
SCALE = sym("scale")


def check(ctx):
    ctx.guard("C15.a NF-FORMULA", "PELT", lambda: check_detector(ctx, "skchange.change_detectors", "PELT", "penalty_scale", "penalty_", ("spec", "pelt_penalty")))
    ctx.guard("C15.a NF-FORMULA", "SeededBinarySegmentation", lambda: check_detector(ctx, "skchange.change_detectors", "SeededBinarySegmentation", "threshold_scale", "threshold_", ("spec", "seeded_binseg_threshold")))
    ctx.guard("C15.a NF-FORMULA", "CircularBinarySegmentation", lambda: check_detector(ctx, "skchange.anomaly_detectors", "CircularBinarySegmentation", "threshold_scale", "threshold_", ("own", "get_default_threshold")))
    ctx.guard("C15.a NF-FORMULA", "MovingWindow", lambda: check_detector(ctx, "skchange.change_detectors", "MovingWindow", "threshold_scale", "threshold_", ("own", "get_default_threshold")))
    ctx.guard("C15.a NF-FORMULA", "CAPA", lambda: check_capa(ctx))
    ctx.guard("C15.a NF-FORMULA", "mvcapa-families", lambda: check_families(ctx))
    ctx.guard("C15.a NF-FORMULA", "param-size", lambda: check_param_size(ctx))
    for pkg, name in (("skchange.change_detectors", "SeededBinarySegmentation"), ("skchange.anomaly_detectors", "CircularBinarySegmentation"), ("skchange.change_detectors", "MovingWindow")):
        ctx.guard("C15.b QUANTILE-TUNE", name, lambda: check_tuning(ctx, pkg, name))
    ctx.guard("C15.b QUANTILE-TUNE", "PELT", lambda: check_pelt_tuning(ctx))
    ctx.guard("C15.d MONOTONE-PELT", "exactness", lambda: shared_pelt_exactness(ctx))
    # the fitted penalties / thresholds are those of the TRAINING data: written by fit only, never by predict
    from .c10 import shared_no_stale

    shared_no_stale(ctx, "C15.a NF-FORMULA", [("skchange.change_detectors", "PELT"), ("skchange.change_detectors", "SeededBinarySegmentation"), ("skchange.change_detectors", "MovingWindow"), ("skchange.anomaly_detectors", "CircularBinarySegmentation"), ("skchange.anomaly_detectors", "CAPA"), ("skchange.anomaly_detectors", "MVCAPA")])
    ctx.expect_min("C15.a NF-FORMULA", sum(1 for o in ctx.obs if o.rule == "C15.a NF-FORMULA"), 10)
    ctx.expect_min("C15.c SCALE-LINEAR", sum(1 for o in ctx.obs if o.rule == "C15.c SCALE-LINEAR"), 9)


# ------------------------------------------------------------------ parameter counts

# k in CAPA's penalty k + 2 sqrt(k log n) + 2 log n is the number of parameters of the segment model, which the cost
# reports through get_param_size(p).  The counts of the built-in costs (the model they fit): a mean per variable; a mean
# and a variance per variable; a mean vector and a SYMMETRIC p x p covariance matrix (p (p + 1) / 2 free entries).
PARAM_SIZE = {
    "L2Cost": lambda p: p,
    "GaussianVarCost": lambda p: 2 * p,
    "GaussianCovCost": lambda p: p + p * (p + 1) // 2,
}


def check_param_size(ctx):
    rule = "C15.a NF-FORMULA"
    costs = ctx.P.registry("skchange.costs", "COSTS")
    for cls in costs:
        want = PARAM_SIZE.get(cls.name)
        f = ctx.P.lookup_method(cls, "get_param_size")
        if want is None or f is None:
            ctx.undecided(rule, f"param-size|{cls.name}", cls.module.relpath, "a registered cost without a line in the parameter-count table, or without get_param_size")
            continue
        bad = None
        for pv in (1, 2, 3, 5, 8):
            ex = new_executor(ctx)

            def thunk(ex, pv=pv):
                obj = ex.new_object(cls, [], {})
                return call_method(ex, obj, "get_param_size", Num(NF.const(pv), (), "int"))

            paths = run(ctx, ex, thunk)
            rets = returns(paths)
            vals = {(r.value.nf.as_const() if isinstance(r.value, Num) and r.value.nf is not None else None) for r in rets}
            if len(vals) != 1 or None in vals:
                ctx.undecided(rule, f"param-size|{cls.name}", f.loc(), f"get_param_size({pv}) is not a constant the engine can evaluate", found=repr(vals))
                bad = "undecided"
                break
            got = vals.pop()
            if got != want(pv):
                bad = (pv, got, want(pv))
                break
        if bad == "undecided":
            continue
        ctx.check(bad is None, rule, f"param-size|{cls.name}", f.loc(), f"{cls.name}.get_param_size(p) is the number of free parameters of its segment model" + ("" if bad is None else f": get_param_size({bad[0]}) = {bad[1]}"), found=("as in the table for p = 1, 2, 3, 5, 8" if bad is None else f"{bad[1]} for p = {bad[0]}"), expected=("" if bad is None else f"{bad[2]}"))


# ------------------------------------------------------------------ detectors


def fit_scenario(ctx, cls, overrides=None, summaries=None):
    ex = new_executor(ctx, dict(ABSTRACT_SUMMARIES, **(summaries or {})))
    st = {}

    def thunk(ex):
        kw = symbolic_hyperparams(ex, ctx.P, cls, overrides)
        obj = ex.new_object(cls, [], kw)
        st["obj"] = obj
        X = frame_sym(ex)
        st["X"] = X
        st["n_init"] = len(ex.events)
        call_method(ex, obj, "fit", X)
        return obj

    paths = run(ctx, ex, thunk)
    return ex, paths, st


def scale_linear(ctx, key, loc, nf, scale_atom):
    d = degree(nf, scale_atom.key)
    ctx.check(d == 1 or d == ANY, "C15.c SCALE-LINEAR", key, loc, "the value is homogeneous of degree 1 in the scale (proportional to it)", found=f"degree {d}: {nf!r}", expected="degree 1")


def check_detector(ctx, pkg, name, scale_name, attr, spec):
    rule = "C15.a NF-FORMULA"
    cls = ctx.P.public_class(pkg, name)
    # every scorer-valued hyper-parameter is an arbitrary user scorer of the same kind (its number of parameters per
    # variable, its min_size are un-interpreted quantities): the documented formulas do not depend on them
    overrides = _abstract_scorer_overrides(ctx, cls)
    ex, paths, st = fit_scenario(ctx, cls, overrides=overrides)
    loc = ctx.P.lookup_method(cls, "_fit").loc()
    good = ok_paths(paths)
    if not good:
        ctx.violation(rule, name, loc, "fit never returns for symbolic valid hyper-parameters", found=[(p.outcome, p.exc.exc_name if p.exc else "") for p in paths])
        return
    scale = sym(scale_name)
    for p in good:
        obj = p.value
        v = obj.fields.get(attr)
        if not isinstance(v, Num) or v.nf is None:
            ctx.violation(rule, f"{name}|{attr}", loc, f"fit does not store a numeric {attr}", found=repr(v))
            continue
        if spec[0] == "spec":
            want, _ = run_spec(ctx, "penalties", spec[1], lambda sx: [Num(N, (), "int"), Num(Pdim, (), "int"), Num(scale, (), "float")])
            want_nf = want.nf
            what = f"spec/penalties.py:{spec[1]}(n, p, {scale_name})"
        else:
            want_nf = scale * own_default(ctx, cls, spec[1], obj)
            what = f"{scale_name} * {name}.{spec[1]}(n, p, <own hyper-parameters>)"
        ctx.check(nf_equal(v.nf, want_nf), rule, f"{name}|{attr}", loc, f"{attr} == {what}", found=repr(v.nf), expected=repr(want_nf))
        scale_linear(ctx, f"{name}|{attr}", loc, v.nf, Atom("sym", scale_name))


_SCORER_BASES = [
    ("skchange.costs.base.BaseCost", 2),
    ("skchange.change_scores.base.BaseChangeScore", 3),
    ("skchange.anomaly_scores.base.BaseSaving", 2),
    ("skchange.anomaly_scores.base.BaseLocalAnomalyScore", 4),
]


def _abstract_scorer_overrides(ctx, cls):
    from .common import abstract_scorer, init_params

    init = ctx.P.lookup_method(cls, "__init__")
    out = {}
    by_name = {"cost": "skchange.costs.base.BaseCost", "change_score": "skchange.change_scores.base.BaseChangeScore", "anomaly_score": "skchange.anomaly_scores.base.BaseLocalAnomalyScore", "collective_saving": "skchange.anomaly_scores.base.BaseSaving", "point_saving": "skchange.anomaly_scores.base.BaseSaving"}
    for prm, d in init_params(init):
        if isinstance(d, ast.Constant) and d.value is None and prm in by_name:
            # `cost=None` (a default substituted in __init__): the user's object is an arbitrary one of that role's base class
            base = by_name[prm]
            width = dict(_SCORER_BASES)[base]
            out[prm] = (lambda ex, base=base, width=width, prm=prm: abstract_scorer(ex, ctx.P, base, f"user_{prm}", width=width, param="none" if "Cost" in base else "fixed"))
            continue
        if not isinstance(d, ast.Call):
            continue
        r = ctx.P.resolve_expr(init.module, d.func)
        if not isinstance(r, ClassInfo):
            continue
        for base, width in _SCORER_BASES:
            b = ctx.P.classes.get(base)
            if b is not None and ctx.P.is_subclass(r, b):
                out[prm] = (lambda ex, base=base, width=width, prm=prm: abstract_scorer(ex, ctx.P, base, f"user_{prm}", width=width, param="none" if "Cost" in base else "fixed"))
                break
    return out or None


def own_default(ctx, cls, fname, obj):
    """The class's own published default function applied to (n, p) and, for every further
    parameter, the detector's hyper-parameter of the same name."""
    f = ctx.P.lookup_method(cls, fname)
    if f is None:
        raise Undecided(f"{cls.name}.{fname} not found")
    ex = new_executor(ctx)

    def thunk(ex):
        kw = {}
        for prm in f.params:
            if prm == "n":
                kw[prm] = Num(N, (), "int")
            elif prm == "p":
                kw[prm] = Num(Pdim, (), "int")
            elif prm in ("self", "cls"):
                continue
            elif prm in obj.fields:
                kw[prm] = obj.fields[prm]
            else:
                raise Undecided(f"parameter {prm} of {cls.name}.{fname} is not a hyper-parameter of the detector")
        return ex.call_function(f, [], kw, None, None)

    paths = ex.run_paths(thunk)
    rets = returns(paths)
    if len(rets) != 1:
        raise Undecided(f"{cls.name}.{fname} is not straight-line")
    return rets[0].value.nf


def check_capa(ctx):
    rule = "C15.a NF-FORMULA"
    cls = ctx.P.public_class("skchange.anomaly_detectors", "CAPA")
    ex, paths, st = fit_scenario(ctx, cls)
    loc = ctx.P.lookup_method(cls, "_fit").loc()
    good = ok_paths(paths)
    if not good:
        ctx.violation(rule, "CAPA", loc, "fit never returns", found=[(p.outcome, p.exc.exc_name if p.exc else "") for p in paths])
        return
    scale = sym("collective_penalty_scale")
    for p in good:
        obj = p.value
        v = obj.fields.get("collective_penalty_")
        if not isinstance(v, Num):
            ctx.violation(rule, "CAPA|collective_penalty_", loc, "fit does not store collective_penalty_", found=repr(v))
            continue
        # k = number of parameters of the (default, L2) collective saving for p variables = p
        want, _ = run_spec(ctx, "penalties", "capa_penalty", lambda sx: [Num(N, (), "int"), Num(Pdim, (), "int"), Num(scale, (), "float")])
        ctx.check(nf_equal(v.nf, want.nf), rule, "CAPA|collective_penalty_", loc, "collective_penalty_ == scale*(k + 2 sqrt(k log n) + 2 log n) with k = get_param_size(p) of the collective saving", found=repr(v.nf), expected=repr(want.nf))
        scale_linear(ctx, "CAPA|collective_penalty_", loc, v.nf, Atom("sym", "collective_penalty_scale"))
        pp = obj.fields.get("point_penalty_")
        if isinstance(pp, Num) and pp.nf is not None:
            scale_linear(ctx, "CAPA|point_penalty_", loc, pp.nf, Atom("sym", "point_penalty_scale"))
    # with a user cost: k must come from the saving's get_param_size(p)
    from .common import abstract_scorer

    ex2, paths2, st2 = fit_scenario(ctx, cls, overrides={"collective_saving": lambda ex: abstract_scorer(ex, ctx.P, "skchange.anomaly_scores.base.BaseSaving", "user_saving")})
    for p in ok_paths(paths2):
        v = p.value.fields.get("collective_penalty_")
        k = app("param_size", "user_saving", lift(Pdim))
        want, _ = run_spec(ctx, "penalties", "capa_penalty", lambda sx: [Num(N, (), "int"), Num(k, (), "int"), Num(scale, (), "float")])
        ctx.check(isinstance(v, Num) and nf_equal(v.nf, want.nf), rule, "CAPA|collective_penalty_|user-saving", loc, "k is the collective saving's own get_param_size(p)", found=repr(v), expected=repr(want.nf))


# ------------------------------------------------------------ MVCAPA families


def call_family(ctx, fname, args=None):
    f = ctx.P.func(f"{MV}.{fname}")
    ex = new_executor(ctx)
    kk = sym("k")

    def thunk(ex):
        a = args(ex) if args else [Num(N, (), "int"), Num(Pdim, (), "int"), Num(kk, (), "int"), Num(SCALE, (), "float")]
        return ex.call_function(f, a, {}, None, None)

    paths = run(ctx, ex, thunk)
    return f, ex, paths


def _betas_nf(ex, v):
    if isinstance(v, Num):
        return ex.cur_nf(v) if v.arr is not None else v.nf
    return None


def check_families(ctx):
    rule = "C15.a NF-FORMULA"
    kk = sym("k")
    sargs = lambda sx: [Num(N, (), "int"), Num(Pdim, (), "int"), Num(kk, (), "int"), Num(SCALE, (), "float")]  # noqa: E731
    # ---- capa_penalty itself
    f = ctx.P.func(f"{MV}.capa_penalty")
    ex = new_executor(ctx)
    paths = run(ctx, ex, lambda ex: ex.call_function(f, [Num(N, (), "int"), Num(kk, (), "int"), Num(SCALE, (), "float")], {}, None, None))
    want, _ = run_spec(ctx, "penalties", "capa_penalty", lambda sx: [Num(N, (), "int"), Num(kk, (), "int"), Num(SCALE, (), "float")])
    ok = len(paths) == 1 and paths[0].outcome == "return" and nf_equal(paths[0].value.nf, want.nf)
    ctx.check(ok, rule, "capa_penalty", f.loc(), "capa_penalty(n, k, scale) == scale*(k + 2 sqrt(k log n) + 2 log n)", found=repr(paths[0].value) if paths and paths[0].outcome == "return" else "?", expected=repr(want.nf))
    if ok:
        scale_linear(ctx, "capa_penalty", f.loc(), paths[0].value.nf, Atom("sym", "scale"))

    # ---- dense
    f, ex, paths = call_family(ctx, "dense_mvcapa_penalty")
    if len(paths) == 1 and paths[0].outcome == "return" and isinstance(paths[0].value, TupleV) and len(paths[0].value.items) == 2:
        alpha, betas = paths[0].value.items
        want, _ = run_spec(ctx, "penalties", "dense_alpha", sargs)
        ctx.check(nf_equal(alpha.nf, want.nf), rule, "dense|alpha", f.loc(), "dense alpha == capa_penalty(n, p*k, scale)", found=repr(alpha.nf), expected=repr(want.nf))
        b = _betas_nf(ex, betas)
        shp_ok = betas.shape is not None and len(betas.shape) == 1 and nf_equal(lift(betas.shape[0]), lift(Pdim))
        ctx.check(b is not None and b.is_zero() and shp_ok, rule, "dense|betas", f.loc(), "dense betas == zeros(p) (no per-component part)", found=f"{betas!r}", expected="0 with shape (p,)")
        scale_linear(ctx, "dense|alpha", f.loc(), alpha.nf, Atom("sym", "scale"))
    else:
        ctx.violation(rule, "dense", f.loc(), "dense_mvcapa_penalty does not return (alpha, betas) on a single path")

    # ---- sparse
    f, ex, paths = call_family(ctx, "sparse_mvcapa_penalty")
    if len(paths) == 1 and paths[0].outcome == "return" and isinstance(paths[0].value, TupleV) and len(paths[0].value.items) == 2:
        alpha, betas = paths[0].value.items
        wa, _ = run_spec(ctx, "penalties", "sparse_alpha", sargs)
        wb, _ = run_spec(ctx, "penalties", "sparse_beta", sargs)
        ctx.check(nf_equal(alpha.nf, wa.nf), rule, "sparse|alpha", f.loc(), "sparse alpha == 2 scale log n", found=repr(alpha.nf), expected=repr(wa.nf))
        b = _betas_nf(ex, betas)
        shp_ok = betas.shape is not None and len(betas.shape) == 1 and nf_equal(lift(betas.shape[0]), lift(Pdim))
        ctx.check(b is not None and nf_equal(b, wb.nf) and shp_ok, rule, "sparse|betas", f.loc(), "sparse betas == full(p, 2 scale log(k p))", found=repr(betas), expected=f"{wb.nf!r} with shape (p,)")
        scale_linear(ctx, "sparse|alpha", f.loc(), alpha.nf, Atom("sym", "scale"))
        if b is not None:
            scale_linear(ctx, "sparse|betas", f.loc(), b, Atom("sym", "scale"))
    else:
        ctx.violation(rule, "sparse", f.loc(), "sparse_mvcapa_penalty does not return (alpha, betas) on a single path")

    # ---- intermediate: only proportionality to the scale is decided
    fi, exi, pathsi = call_family(ctx, "intermediate_mvcapa_penalty")
    inter = None
    for p in pathsi:
        if p.outcome == "return" and isinstance(p.value, TupleV) and len(p.value.items) == 2:
            inter = p.value.items
            ia, ib = inter
            # (alpha, betas): a scalar first, one beta per variable second (the drivers unpack them in that order)
            ok_roles = isinstance(ia, Num) and ia.shape == () and isinstance(ib, Num) and ib.shape is not None and len(ib.shape) == 1 and nf_equal(lift(ib.shape[0]), lift(Pdim))
            ctx.check(ok_roles, rule, "intermediate|roles", fi.loc(), "the family returns (alpha: scalar, betas: one per variable) in that order", found=f"({getattr(ia, 'shape', None)}, {getattr(ib, 'shape', None)})", expected="((), (p,))")
            scale_linear(ctx, "intermediate|alpha", fi.loc(), ia.nf, Atom("sym", "scale"))
            scale_linear(ctx, "intermediate|betas", fi.loc(), _betas_nf(exi, ib), Atom("sym", "scale"))
    if inter is None:
        ctx.undecided(rule, "intermediate", fi.loc(), "intermediate_mvcapa_penalty has no returning path that yields (alpha, betas)")
        return

    # ---- combined
    f, ex, paths = call_family(ctx, "combined_mvcapa_penalty")
    p2 = Cond.cmp("<", Pdim, NF.const(2))
    from .common import fact_value

    for p in paths:
        small = fact_value(p, p2)
        if p.outcome != "return":
            ctx.violation(rule, "combined", f.loc(), "combined_mvcapa_penalty raises for valid arguments", found=p.exc.exc_name)
            continue
        alpha, betas = p.value.items
        if small:
            # p < 2: dense penalty for one variable
            fd, exd, pd_ = call_family(ctx, "dense_mvcapa_penalty", lambda ex: [Num(N, (), "int"), Num(NF.const(1), (), "int"), Num(kk, (), "int"), Num(SCALE, (), "float")])
            da, db = pd_[0].value.items
            ctx.check(nf_equal(alpha.nf, da.nf), rule, "combined|p<2", f.loc(), "for p < 2 the combined penalty is the dense penalty of one variable", found=repr(alpha.nf), expected=repr(da.nf))
            scale_linear(ctx, "combined|p<2", f.loc(), alpha.nf, Atom("sym", "scale"))
            continue
        ctx.check(alpha.nf.is_zero(), rule, "combined|alpha", f.loc(), "combined alpha == 0 (everything is in the cumulative betas)", found=repr(alpha.nf))
        # betas == diff(pointwise_min) where pointwise_min = [0, min(D, S, I)]
        fd, exd, pd_ = call_family(ctx, "dense_mvcapa_penalty")
        fs, exs, ps_ = call_family(ctx, "sparse_mvcapa_penalty")
        da, db = pd_[0].value.items
        sa, sb = ps_[0].value.items
        ia, ib = inter
        dbn, sbn, ibn = _betas_nf(exd, db), _betas_nf(exs, sb), _betas_nf(exi, ib)
        want, _ = run_spec(
            ctx,
            "penalties",
            "combined_cumulative",
            lambda sx: [Num(da.nf, (), "float"), Num(dbn, (Pdim,), "float"), Num(sa.nf, (), "float"), Num(sbn, (Pdim,), "float"), Num(ia.nf, (), "float"), Num(ibn, (Pdim,), "float")],
        )
        b = _betas_nf(ex, betas)
        a = single_atom(b) if b is not None else None
        def absent(x):
            return isinstance(x, str) and x == "none"

        isdiff = a is not None and a.kind == "app" and a.args[0] == "diff" and absent(a.args[3])
        if isdiff and not absent(a.args[2]):
            # np.diff(min(D, S, I), prepend=0): the zero entry is prepended by np.diff itself
            pre = a.args[2]
            ok_pre = isinstance(pre, NF) and pre.is_zero()
            ctx.check(ok_pre, rule, "combined|cumulative-layout", f.loc(), "cumulative penalties are [0, min_1, ..., min_p] (p+1 entries, entry 0 zero)", found=f"np.diff(..., prepend={pre!r})", expected="prepend=0")
            inner_nf = lift(a.args[1])
            ctx.check(nf_equal(inner_nf, want.nf), rule, "combined|pointwise-min", f.loc(), "cumulative penalties == min(dense, sparse, intermediate) each called with the caller's own (n, p, k, scale)", found=repr(inner_nf), expected=repr(want.nf))
            scale_linear(ctx, "combined|pointwise-min", f.loc(), inner_nf, Atom("sym", "scale"))
            continue
        okdiff = isdiff and absent(a.args[2])
        if not okdiff:
            ctx.violation(rule, "combined|betas", f.loc(), "combined betas are not np.diff of the cumulative pointwise minimum", found=repr(b))
            continue
        inner = a.args[1]
        ia_ = single_atom(inner)
        arr = ex.atom_meta.get(ia_.key, {}).get("arr") if ia_ is not None and ia_.kind == "arr" else None
        if arr is None or arr.init[0] != "zeros" or len(arr.stores) != 1:
            ctx.violation(rule, "combined|betas", f.loc(), "the cumulative minimum is not a zero-initialised buffer with one store", found=repr(inner))
            continue
        s = arr.stores[0]
        idx, val = s.data["index"], s.data["value"]
        from ..values import SliceV

        shape_ok = arr.shape is not None and nf_equal(lift(arr.shape[0]), lift(Pdim) + 1)
        idx_ok = len(idx) == 1 and isinstance(idx[0], SliceV) and isinstance(idx[0].lo, Num) and idx[0].lo.nf.as_const() == 1 and isinstance(idx[0].hi, NoneV)
        ctx.check(shape_ok and idx_ok, rule, "combined|cumulative-layout", s.loc(), "cumulative penalties are [0, min_1, ..., min_p] (p+1 entries, entry 0 zero)", found=f"shape {arr.shape}, store at {valkey(idx[0]) if idx else None}")
        ctx.check(isinstance(val, Num) and nf_equal(val.nf, want.nf), rule, "combined|pointwise-min", s.loc(), "cumulative penalties == min(dense, sparse, intermediate) each called with the caller's own (n, p, k, scale)", found=repr(val.nf) if isinstance(val, Num) else repr(val), expected=repr(want.nf))
        if isinstance(val, Num):
            scale_linear(ctx, "combined|pointwise-min", s.loc(), val.nf, Atom("sym", "scale"))


# -------------------------------------------------------------------- tuning


def shared_pelt_exactness(ctx):
    """'A larger penalty never yields more changepoints' is a theorem about EXACT minimisers of the penalised cost (the
    optimal number of segments is non-increasing in the penalty); an inexact search - pruning applied too early, a wrong
    recurrence - loses it.  The recurrence and pruning obligations of C02 are its structural necessary condition and are
    re-run here; the theorem itself is not decided."""
    from . import c02

    before = len(ctx.obs)
    mins = dict(ctx.mins)
    try:
        c02.check(ctx)
    except Undecided as u:
        ctx.undecided("C15.d MONOTONE-PELT", "exactness", "", str(u))
    ctx.mins = mins
    kept = []
    for o in ctx.obs[before:]:
        if o.status == "UNDECIDED" and o.key == "instance-count":
            continue
        if any(r in o.rule for r in ("BELLMAN", "PRUNE-FORM", "PRUNE-DIST", "IDX-GATHER")) or o.status == "UNDECIDED":
            o.rule = f"C15.d MONOTONE-PELT ({o.rule})"
            kept.append(o)
    ctx.obs[before:] = kept


def _driver_summary(name):
    def h(ex, func, args, kwargs, so, node):
        from .common import bind_call

        bound = bind_call(ex, func, args, kwargs)
        ex.emit("driver_call", node, driver=func.qualname, bound=bound)
        key = func.qualname + "(" + ",".join(f"{k}={valkey(v)}" for k, v in bound.items()) + ")"
        outs = _n_outputs(func)
        if outs == 1:
            r = ex.mk("driver_out", key, 0, shape=(sym(f"len0({func.name})"),), dtype="float")
            return r
        return TupleV([ex.mk("driver_out", key, i, shape=(sym(f"len{i}({func.name})"),), dtype="float") for i in range(outs)])

    return h


def _bind(func, args, kwargs):
    names = func.params
    b = {}
    for i, a in enumerate(args):
        b[names[i]] = a
    b.update(kwargs)
    return b


def _n_outputs(func):
    import ast as _ast

    from .common import return_exprs

    n = 1
    for v in return_exprs(func):
        if isinstance(v, _ast.Tuple):
            n = max(n, len(v.elts))
    return n


DRIVERS = {
    "SeededBinarySegmentation": "skchange.change_detectors.seeded_binseg.run_seeded_binseg",
    "CircularBinarySegmentation": "skchange.anomaly_detectors.circular_binseg.run_circular_binseg",
    "MovingWindow": "skchange.change_detectors.moving_window.moving_window_transform",
}


def check_tuning(ctx, pkg, name):
    rule = "C15.b QUANTILE-TUNE"
    cls = ctx.P.public_class(pkg, name)
    drv = DRIVERS[name]
    if drv not in ctx.P.functions:
        # the driver may have been renamed: it is the one function the detector's tuning / scoring method hands the data to
        from .c02 import find_driver_call

        found = None
        for mname in ("_tune_threshold", "_transform_scores", "_predict"):
            m_ = ctx.P.lookup_method(cls, mname)
            cands = find_driver_call(ctx, m_) if m_ is not None else []
            if len(cands) == 1:
                found = cands[0][1].qualname
                break
        if found is None:
            ctx.undecided(rule, name, cls.module.relpath, f"driver {drv} not found (anchor vanished)")
            return
        drv = found
    else:
        drv = ctx.P.functions[drv].qualname
    summ = {drv: _driver_summary(name)}
    ex, paths, st = fit_scenario(ctx, cls, overrides={"threshold_scale": NONE}, summaries=summ)
    loc = ctx.P.lookup_method(cls, "_fit").loc()
    good = ok_paths(paths)
    if not good:
        ctx.violation(rule, name, loc, "fit with threshold_scale=None never returns", found=[(p.outcome, p.exc.exc_name if p.exc else "") for p in paths])
        return
    level = sym("level")
    for p in good:
        obj = p.value
        v = obj.fields.get("threshold_")
        a = single_atom(v.nf) if isinstance(v, Num) and v.nf is not None else None
        if a is None or a.kind != "app" or a.args[0] != "quantile":
            ctx.violation(rule, f"{name}|quantile", loc, "the tuned threshold is not np.quantile(scores, ...)", found=repr(v))
            continue
        q_ok = nf_equal(a.args[2], 1 - level)
        ctx.check(q_ok, rule, f"{name}|level", loc, "the quantile is 1 - level", found=repr(a.args[2]), expected="1 - level")
        src = single_atom(a.args[1])
        calls = [e for e in p.events if e.kind == "driver_call"]
        if src is None or src.kind != "app" or src.args[0] != "driver_out" or not calls:
            ctx.violation(rule, f"{name}|scores", loc, "the quantile is not taken over an output of the detector's own driver", found=repr(a.args[1]))
            continue
        tune_call = calls[-1]
        out_index = src.args[2]
        # ---- compare with the predict path
        exp, pp, stp = predict_scenario(ctx, cls, summ)
        pgood = ok_paths(pp)
        pcalls = [e for q in pgood for e in q.events if e.kind == "driver_call"]
        if not pcalls:
            ctx.undecided(rule, f"{name}|sibling", loc, "predict/transform_scores does not reach the driver")
            continue
        pc = pcalls[-1]
        tb, pb = tune_call.data["bound"], pc.data["bound"]
        diffs = []
        for k in pb:
            if k not in tb:
                diffs.append(k)
                continue
            if valkey(tb[k]) != valkey(pb[k]):
                diffs.append(k)
        # the data argument differs by name only (fit data vs predict data): both are X.values
        thr = [k for k in diffs if "threshold" in k]
        other = [k for k in diffs if "threshold" not in k]
        ctx.check(not other, rule, f"{name}|same-configuration", tune_call.loc(), "tuning runs the driver with the same data view, scorer and hyper-parameters as predict", found=f"differing arguments {other}: tune {[valkey(tb.get(k)) for k in other]} vs predict {[valkey(pb.get(k)) for k in other]}")
        if thr:
            tv = tb[thr[0]]
            ctx.check(isinstance(tv, Num) and nf_equal(tv.nf, sym("inf")), rule, f"{name}|infinite-threshold", tune_call.loc(), "tuning passes an infinite threshold (no detection interferes with the scores)", found=repr(tv))
        # which output does predict publish as the score?
        pub = published_score_index(ctx, pgood, name)
        if pub is None:
            ctx.undecided(rule, f"{name}|score-output", loc, "could not determine which driver output predict publishes as 'score'")
        else:
            ctx.check(pub == out_index, rule, f"{name}|score-output", loc, "the quantile is taken over the driver output that predict publishes as the score", found=f"output #{out_index}", expected=f"output #{pub}")


def predict_scenario(ctx, cls, summaries):
    ex = new_executor(ctx, dict(ABSTRACT_SUMMARIES, **summaries))
    st = {}

    def thunk(ex):
        kw = symbolic_hyperparams(ex, ctx.P, cls, {})
        obj = ex.new_object(cls, [], kw)
        X = frame_sym(ex)
        obj.fields["_is_fitted"] = Num(None, (), "bool", cond=Cond.const(True))
        obj.fields["threshold_"] = Num(sym("threshold_"), (), "float")
        st["obj"] = obj
        if ctx.P.lookup_method(cls, "_transform_scores") is not None and cls.name == "MovingWindow":
            return call_method(ex, obj, "transform_scores", X)
        call_method(ex, obj, "predict", X)
        return obj

    return ex, run(ctx, ex, thunk), st


def published_score_index(ctx, pgood, name):
    """index of the driver output that ends up as the 'score' (column / Series data)."""
    for p in pgood:
        for e in p.events:
            if e.kind == "pandas_ctor":
                data = e.data["data"]
                cands = []
                if isinstance(data, Num):
                    cands.append(data)
                from ..values import DictV

                if isinstance(data, DictV):
                    for k, v in data.items:
                        if isinstance(k, StrV) and k.s == "score" and isinstance(v, Num):
                            cands.append(v)
                for c in cands:
                    a = single_atom(c.nf) if c.nf is not None else None
                    if a is not None and a.kind == "app" and a.args[0] == "driver_out":
                        return a.args[2]
    return None


def check_pelt_tuning(ctx):
    rule = "C15.b QUANTILE-TUNE"
    cls = ctx.P.public_class("skchange.change_detectors", "PELT")
    ex, paths, st = fit_scenario(ctx, cls, overrides={"penalty_scale": NONE})
    loc = ctx.P.lookup_method(cls, "_fit").loc()
    # once the data passed validation, fit must raise ValueError (documented: not supported)
    bad = [p for p in paths if p.outcome == "return"]
    ctx.check(not bad and all(p.exc.exc_name == "ValueError" for p in paths), rule, "PELT|unsupported", loc, "PELT(penalty_scale=None).fit raises ValueError (tuning documented as unsupported)", found=[(p.outcome, p.exc.exc_name if p.exc else "") for p in paths])
