"""Shared analysis of the two dynamic-programming drivers (run_pelt, run_base_capa)."""

from __future__ import annotations

from ..nf import NF, Atom, Undecided, app, atoms_of, evalnf, lift, nf_equal, single_atom, subst, sym
from ..values import NONE, Cond, ListV, NoneV, Num, ObjV, SliceV, TupleV, valkey
from .common import ABSTRACT_SUMMARIES, new_executor, run


def roleify(ex, x, arr_roles, extra=None):
    """Replace allocation-identity atoms by role symbols: arr(aid, epoch, n) -> sym(role)."""
    extra = extra or {}

    def f(a: Atom):
        if a.kind == "arr" and a.args[0] in arr_roles:
            return sym(arr_roles[a.args[0]])
        if a.key in extra:
            return extra[a.key]
        return None

    if isinstance(x, NF):
        return evalnf(x, f)
    return x


def main_loop(path, func_qualname):
    """the generic loops entered directly in the driver function, in order"""
    out = []
    for e in path.events:
        if e.kind == "loop_enter" and e.func is not None and e.func.qualname == func_qualname and len(e.loops) == 0:
            out.append(e.data["loop"])
    return out


def loop_events(path, ctx_loop, kind=None):
    return [e for e in path.events if ctx_loop in e.loops and (kind is None or e.kind == kind)]


def arr_of(v):
    """the allocated array a value is (a view of)"""
    if isinstance(v, Num):
        if v.arr is not None:
            return v.arr
        b = v.meta.get("index_of")
        if isinstance(b, Num):
            return arr_of(b)
        b = v.meta.get("alias_of") or v.meta.get("reshaped_from")
        if isinstance(b, Num):
            return arr_of(b)
    return None


def interval_of_index(idx, loop=None, tnf=None):
    """index of a 1-D store -> half-open interval [lo, hi) of positions written, over all
    iterations when the index is affine in the loop variable of `loop`."""
    if len(idx) != 1:
        return None
    i = idx[0]
    if isinstance(i, SliceV):
        if not isinstance(i.step, NoneV) and not (isinstance(i.step, Num) and i.step.nf.as_const() == 1):
            return None
        if isinstance(i.lo, NoneV) or isinstance(i.hi, NoneV):
            return None
        return (i.lo.nf, i.hi.nf)
    if isinstance(i, Num) and i.cond is None:
        if loop is None:
            return (i.nf, i.nf + 1)
        rng = loop.info.get("range")
        if rng is None or rng[2].as_const() != 1:
            return None
        lv = Atom("lv", loop.lid)
        # index must be lv + c
        c = i.nf - NF.atom(lv)
        if any(a.kind == "lv" for a in atoms_of(c).values()):
            return None
        return (rng[0] + c, rng[1] + c)
    return None


def chain_cover(intervals, start, end):
    """Do the half-open intervals tile [start, end) exactly once (by NF equality of
    consecutive bounds)?  returns (ok, message)"""
    left = list(intervals)
    cur = lift(start)
    used = []
    guard = 0
    while left and guard < 50:
        guard += 1
        nxt = None
        for iv in left:
            if nf_equal(iv[0], cur):
                nxt = iv
                break
        if nxt is None:
            break
        left.remove(nxt)
        used.append(nxt)
        cur = nxt[1]
    if left:
        return False, f"after chaining from {lift(start)!r} reached {cur!r}; unplaced index sets {[(repr(a), repr(b)) for a, b in left]} (gap or overlap)"
    if not nf_equal(cur, lift(end)):
        return False, f"index sets chain from {lift(start)!r} to {cur!r}, expected {lift(end)!r}"
    return True, "tiles " + " | ".join(f"[{a!r}, {b!r})" for a, b in used)


def delay_line(path, loop, lst: ListV):
    """Recognise the delay-line idiom on list `lst` inside `loop`:
    exactly one append per iteration and a pop(0) guarded by len(lst) > g (or >= g).
    returns dict(delay=NF, append=event, pop=event, guard=cond) or a string (why not)."""
    evs = loop_events(path, loop)
    apps = [e for e in evs if e.kind == "list_append" and e.data["lst"] is lst]
    pops = [e for e in evs if e.kind == "list_pop" and e.data["lst"] is lst]
    if len(apps) != 1:
        return f"{len(apps)} appends to the pending list per iteration (expected exactly one)"
    if len(pops) != 1:
        return f"{len(pops)} pops from the pending list per iteration (expected one)"
    ap, po = apps[0], pops[0]
    pi = po.data.get("index")
    lifo = pi is None or (isinstance(pi, Num) and pi.nf.as_const() == -1)
    if not lifo and not (isinstance(pi, Num) and pi.nf.as_const() == 0):
        return "the pending list is popped at a position other than its head or tail"
    # guard of the pop: the most recent decision that is not shared with the append
    guard = None
    for c, v in po.facts:
        if (c, v) in [(cc, vv) for cc, vv in ap.facts]:
            continue
        guard = (c, v)
    if guard is None:
        return "pop(0) is not guarded by the length of the pending list"
    c, v = guard
    if c.t[0] != "cmp":
        return f"unrecognised guard {c!r}"
    op, d = c.t[1], c.t[2]
    # normalise to   len - g  (> | >=) 0
    la = [a for a in atoms_of(d, deep=False).values() if a.kind == "app" and a.args[0] == "listlen" and a.args[1] == lst.lid]
    if len(la) != 1:
        return f"guard {c!r} does not test the length of the pending list"
    L = NF.atom(la[0])
    # c is (d op 0) with value v.  d = g - len  (<0  means len > g)
    if not v:
        c = c.neg()
        op, d = c.t[1], c.t[2]
    g = d + L  # d = g - len  => g = d + len
    if any(a.key == la[0].key for a in atoms_of(g).values()):
        g2 = L - d  # d = len - g
        if any(a.key == la[0].key for a in atoms_of(g2).values()):
            return f"guard {c!r} is not affine in the list length"
        # d = len - g ; (d < 0) means len < g : pops while short - not a delay line
        return f"guard {c!r} pops while the list is short"
    # the append must precede the length test (len counted after the append)
    order_ok = path.events.index(ap) < path.events.index(po)
    if not order_ok:
        return "the pop precedes the append"
    delay = g if op == "<0" else g - 1  # len > g : delay g ; len >= g : delay g-1
    if lifo:
        delay = NF.const(0)  # pop() returns the element appended in this very iteration
    return {"delay": delay, "append": ap, "pop": po, "guard": c}


def loop_time(loop):
    """The value t taken by the loop target as a normal form over the loop variable atom,
    and the half-open range of values it runs through."""
    v = loop.var
    lv = NF.atom(Atom("lv", loop.lid))
    if isinstance(v, Num) and v.nf is not None:
        ae = v.meta.get("arange_elem")
        if ae is not None:
            ar, pos = ae
            if nf_equal(pos, lv) and ar[2].as_const() == 1:
                return v.nf, (ar[0], ar[1], ar[2])
        if v.meta.get("loopvar") is loop and nf_equal(v.nf, lv):
            rng = loop.info.get("range")
            if rng is not None:
                # a plain counter that only selects the element of an arange (`t = grid[step]` at the top of the body): the
                # time variable is that element, running through the whole arange when the counter runs through its length
                if rng[0].as_const() == 0 and rng[2].as_const() == 1:
                    for w in (loop.info.get("body_env") or {}).values():
                        ae = w.meta.get("arange_elem") if isinstance(w, Num) else None
                        if ae is not None and nf_equal(ae[1], lv) and ae[0][2].as_const() == 1 and nf_equal(ae[0][1] - ae[0][0], rng[1]):
                            return w.nf, (ae[0][0], ae[0][1], ae[0][2])
                return v.nf, rng
    raise Undecided("main loop target is not an element of a unit-step integer range")
