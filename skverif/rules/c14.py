"""C14 - documented-valid configurations always run; invalid ones fail with ValueError."""

from __future__ import annotations

import ast

from ..affine import Lin, entails
from ..index import FuncInfo
from ..nf import NF, Atom, Undecided, app, atoms_of, lift, nf_equal, nf_max, single_atom, sym
from ..values import NONE, Cond, ListV, NoneV, Num, ObjV, OpaqueV, StrV, TupleV, valkey
from .c02 import find_driver_call
from .common import (
    is_data_src,
    ABSTRACT_SUMMARIES,
    N,
    Pdim,
    abstract_scorer,
    call_method,
    flatten,
    frame_sym,
    new_executor,
    raise_loc,
    returns,
    run,
    same_set,
    symbolic_hyperparams,
)

EXPLANATION = (
    "Static decision by path enumeration with symbolic hyper-parameters: (a) VALIDATION-TABLE - for each documented domain of the "
    "seven detectors (frozen table below, from the property and the class docstrings) the constructor contains a guard whose "
    "normalised violation condition equals the table's (open/closed side included), which fires into ValueError on every path, "
    "and no guard on that parameter is stricter or looser; (b) RAISE-WF - every raise reachable from a constructor or from the "
    "data checks is ValueError, and the statements that build the message cannot themselves raise (unary + on a string, "
    "comparison with None); (c) DATA-CHECK - _fit and _predict/_transform_scores of each detector call check_data with the "
    "documented minimum length (2m, 2*bandwidth, m; sibling agreement between fit and predict), and check_data raises ValueError "
    "for missing values and for n < min_length; (d) NONEMPTY at the boundary - the seeded-interval generator yields at least one "
    "length and one shift for every valid configuration (max_interval_length == 2m, n == 2m), circular binary segmentation never "
    "takes argmax of an empty candidate set for m >= 1, and the moving window has at least one scored position for n >= 2b. "
    "NOT decided: 'runs to completion on every finite input' beyond these emptiness and validation facts (numerical failures "
    "inside numpy)."
)
# obligations added during the build phase (seeding rounds, twins, mutation analysis)
ADDED_IN_BUILD = ' Also: NONEMPTY covers the candidate sets of the dynamic programmes (C02.b / C03.c BELLMAN candidates re-run: the newest admissible start is always among them, so argmin / argmax never see an empty set for max_segment_length == min_segment_length). Violations of the seeded / circular drivers\' other rules are not repeated under C14 (only NONEMPTY and undecided obligations are shared). (a) every-path: boolean hyper-parameters are undecided in the constructor scenarios and each domain check must be on every constructing path; unfitted-scorer: the numeric domains are enforced with an arbitrary unfitted user scorer (min_size None) too. (e) TERMINATION (F-30): the greedy selections\' zeroing obligations.'
ADDED_IN_ROUND_9 = ' Round 9: NONEMPTY tune-operand - with threshold_scale=None the operand of the tuning quantile is a complete score output of the driver or a part of it whose length is at least 1 for every admissible data length (moving window: n >= 2*bandwidth, bandwidth >= 1); np.quantile of an empty array raises IndexError in fit.'
EXPLANATION = EXPLANATION + ADDED_IN_BUILD + ADDED_IN_ROUND_9

ASSUMPTIONS = [
    "Python's ast module and evaluation-order/argument-binding semantics as implemented in skverif/symex.py",
    "library model table skverif/models.py (pd.Interval membership, DataFrame.isna().any())",
    "the frozen validation table transcribes the documented domains (DESIGN.md Appendix B)",
    "sktime BaseEstimator model (the external base __init__ is a no-op for validation)",
]

CD, AD = "skchange.change_detectors", "skchange.anomaly_detectors"


def lt(p, bound):
    return lambda: [Cond.cmp("<", sym(p), bound)]


def outside(p, lo, hi, closed):
    def f():
        v = sym(p)
        a = Cond.cmp("<" if closed in ("left", "both") else "<=", v, lift(lo))
        b = Cond.cmp(">" if closed in ("right", "both") else ">=", v, lift(hi))
        return [a, b]

    return f


# frozen table: (package, class, parameter, documented domain, violation condition as a disjunction)
TABLE = [
    (CD, "PELT", "penalty_scale", ">= 0", lt("penalty_scale", 0)),
    (CD, "PELT", "min_segment_length", ">= 1", lt("min_segment_length", 1)),
    (CD, "MovingWindow", "bandwidth", ">= 1", lt("bandwidth", 1)),
    (CD, "MovingWindow", "threshold_scale", ">= 0", lt("threshold_scale", 0)),
    (CD, "MovingWindow", "min_detection_interval", "in [1, max(1, bandwidth/2)]", lambda: outside("min_detection_interval", 1, nf_max(NF.const(1), sym("bandwidth") / 2), "both")()),
    (CD, "SeededBinarySegmentation", "threshold_scale", ">= 0", lt("threshold_scale", 0)),
    (CD, "SeededBinarySegmentation", "level", "in (0, 1)", outside("level", 0, 1, "neither")),
    (CD, "SeededBinarySegmentation", "min_segment_length", ">= 1", lt("min_segment_length", 1)),
    (CD, "SeededBinarySegmentation", "max_interval_length", ">= 2 * min_segment_length", lambda: [Cond.cmp("<", sym("max_interval_length"), 2 * sym("min_segment_length"))]),
    (CD, "SeededBinarySegmentation", "growth_factor", "in (1, 2]", outside("growth_factor", 1, 2, "right")),
    (AD, "CircularBinarySegmentation", "threshold_scale", ">= 0", lt("threshold_scale", 0)),
    (AD, "CircularBinarySegmentation", "level", "in (0, 1)", outside("level", 0, 1, "neither")),
    (AD, "CircularBinarySegmentation", "min_segment_length", ">= 1", lt("min_segment_length", 1)),
    (AD, "CircularBinarySegmentation", "max_interval_length", ">= 2 * min_segment_length", lambda: [Cond.cmp("<", sym("max_interval_length"), 2 * sym("min_segment_length"))]),
    (AD, "CircularBinarySegmentation", "growth_factor", "in (1, 2]", outside("growth_factor", 1, 2, "right")),
    (AD, "CAPA", "collective_penalty_scale", ">= 0", lt("collective_penalty_scale", 0)),
    (AD, "CAPA", "point_penalty_scale", ">= 0", lt("point_penalty_scale", 0)),
    (AD, "CAPA", "min_segment_length", ">= 2", lt("min_segment_length", 2)),
    (AD, "CAPA", "max_segment_length", ">= min_segment_length", lambda: [Cond.cmp("<", sym("max_segment_length"), sym("min_segment_length"))]),
    (AD, "MVCAPA", "collective_penalty_scale", ">= 0", lt("collective_penalty_scale", 0)),
    (AD, "MVCAPA", "point_penalty_scale", ">= 0", lt("point_penalty_scale", 0)),
    (AD, "MVCAPA", "min_segment_length", ">= 2", lt("min_segment_length", 2)),
    (AD, "MVCAPA", "max_segment_length", ">= min_segment_length", lambda: [Cond.cmp("<", sym("max_segment_length"), sym("min_segment_length"))]),
    (AD, "StatThresholdAnomaliser", "stat_lower", "<= stat_upper", lambda: [Cond.cmp(">", sym("stat_lower"), sym("stat_upper"))]),
]

#: parameters documented as "float or None" (None selects tuning): None is inside their domain
NULLABLE = {"penalty_scale", "threshold_scale"}

# documented minimum number of samples: class -> (normal form builder, text)
MIN_LENGTH = {
    "PELT": (lambda: 2 * sym("min_segment_length"), "2 * min_segment_length"),
    "SeededBinarySegmentation": (lambda: 2 * sym("min_segment_length"), "2 * min_segment_length"),
    "CircularBinarySegmentation": (lambda: 2 * sym("min_segment_length"), "2 * min_segment_length"),
    "MovingWindow": (lambda: 2 * sym("bandwidth"), "2 * bandwidth"),
    "CAPA": (lambda: sym("min_segment_length"), "min_segment_length"),
    "MVCAPA": (lambda: sym("min_segment_length"), "min_segment_length"),
}
CHECK_DATA = "skchange.utils.validation.data.check_data"


def check(ctx):
    classes = {}
    for pkg, name, *_ in TABLE:
        classes[(pkg, name)] = ctx.P.public_class(pkg, name)
    # population: every registered detector must have a table line
    regd = [c.name for c in ctx.P.registry(CD, "CHANGE_DETECTORS")] + [c.name for c in ctx.P.registry(AD, "ANOMALY_DETECTORS")]
    for nme in regd:
        if nme not in {n for _, n in classes}:
            ctx.undecided("C14.a VALIDATION-TABLE", nme, "", "registered detector without a line in the frozen validation table (unspecified instance)")
    for (pkg, name), cls in classes.items():
        ctx.guard("C14.a VALIDATION-TABLE", name, lambda: check_constructor(ctx, pkg, name, cls), cls.module.relpath)
    for name in MIN_LENGTH:
        pkg = CD if name in ("PELT", "SeededBinarySegmentation", "MovingWindow") else AD
        ctx.guard("C14.c DATA-CHECK", name, lambda: check_data_calls(ctx, pkg, name), "")
    ctx.guard("C14.c DATA-CHECK", "check_data", lambda: check_check_data(ctx), "")
    ctx.guard("C14.d NONEMPTY", "boundary", lambda: check_nonempty(ctx), "")
    ctx.guard("C14.d NONEMPTY", "dp-candidates", lambda: shared_dp_candidates(ctx), "")
    ctx.guard("C14.d NONEMPTY", "tune-operand", lambda: check_tune_operand(ctx), "")
    ctx.expect_min("C14.a VALIDATION-TABLE", sum(1 for o in ctx.obs if o.rule == "C14.a VALIDATION-TABLE" and o.status == "HOLDS"), 24)
    ctx.expect_min("C14.c DATA-CHECK", sum(1 for o in ctx.obs if o.rule == "C14.c DATA-CHECK" and o.status == "HOLDS"), 12)


def shared_dp_candidates(ctx):
    """The dynamic programmes take argmin / argmax over a candidate set in every step: `carried starts + [t + 1 - m]`,
    which is non-empty by construction because the newest admissible start has just been appended.  A filter moved in
    front of the evaluation can empty it for a documented-valid boundary configuration (max_segment_length ==
    min_segment_length) and `np.argmax` of an empty sequence raises for every input.  The candidate-set obligations of
    C02.b / C03.c BELLMAN are re-run under the C14 id."""
    from . import c02, c03

    for mod, tag in ((c02, "C02"), (c03, "C03")):
        before = len(ctx.obs)
        mins = dict(ctx.mins)
        try:
            mod.check(ctx)
        except Undecided as u:
            ctx.undecided("C14.d NONEMPTY", f"dp-candidates|{tag}", "", str(u))
        ctx.mins = mins
        kept = []
        for o in ctx.obs[before:]:
            if o.status == "UNDECIDED" and o.key == "instance-count":
                continue
            if "BELLMAN" in o.rule and ("candidates" in o.key or "initial-starts" in o.key):
                o.rule = f"C14.d NONEMPTY ({o.rule})"
                kept.append(o)
        ctx.obs[before:] = kept


def ctor_paths(ctx, cls, overrides=None):
    ex = new_executor(ctx, ABSTRACT_SUMMARIES, max_paths=300)

    def thunk(ex):
        ov = dict(overrides or {})
        if cls.name == "StatThresholdAnomaliser":
            ov.setdefault("change_detector", lambda ex: OpaqueV("detector", {"kind": "detector"}))
        kw = symbolic_hyperparams(ex, ctx.P, cls, ov, symbolic_bools=True)
        return ex.new_object(cls, [], kw)

    return ex, run(ctx, ex, thunk)


def fired_guard(p):
    """the decision that sent a path into its raise: the last fact"""
    return p.facts[-1] if p.facts else None


def check_constructor(ctx, pkg, name, cls):
    rule = "C14.a VALIDATION-TABLE"
    ex, paths = ctor_paths(ctx, cls)
    init = ctx.P.lookup_method(cls, "__init__")
    loc = init.loc()
    rows = [r for r in TABLE if r[1] == name]
    ok_paths = returns(paths)
    ctx.check(bool(ok_paths), rule, f"{name}|constructible", loc, "the constructor returns for hyper-parameters inside all documented domains", found=[(p.outcome, p.exc.exc_name if p.exc else "") for p in paths][:6])
    # ------------------------------------------------------------- RAISE-WF
    for p in paths:
        if p.outcome == "raise" and p.exc.exc_name != "ValueError":
            te = [e for e in p.events if e.kind == "type_error"]
            ctx.violation("C14.b RAISE-WF", f"{name}|{p.exc.exc_name}", raise_loc(p, loc), "a validation path raises something other than ValueError" + (f": {te[-1].data['what']} (the error message is built by a statement that itself fails)" if te else ""), found=p.exc.exc_name, expected="ValueError")
    if not any(p.outcome == "raise" and p.exc.exc_name != "ValueError" for p in paths):
        n_r = sum(1 for p in paths if p.outcome == "raise")
        ctx.holds("C14.b RAISE-WF", name, loc, f"all {n_r} rejecting constructor paths raise ValueError and their messages are well-formed")
    # ------------------------------------------------------------ the table
    raising = [p for p in paths if p.outcome == "raise"]
    for _, _, param, doc, build in rows:
        want = build()
        pv = Atom("sym", param)
        hits = []
        others = []
        for p in raising:
            g = fired_guard(p)
            if g is None:
                continue
            c, v = g
            if not v:
                c = c.neg()
            mentions = any(a.key == pv.key for a in atoms_of_cond(c))
            if not mentions:
                continue
            if same_set(c, "or", want) or (len(want) == 1 and c.key == want[0].key):
                hits.append(p)
            else:
                # a guard on the same parameter with another bound
                owner = _primary_param(c, [r[2] for r in rows])
                if owner == param:
                    others.append((p, c))
        key = f"{name}|{param}"
        if hits:
            ctx.check(all(p.exc.exc_name == "ValueError" for p in hits), rule, key, raise_loc(hits[0], loc), f"documented domain '{doc}': the constructor rejects exactly its complement with ValueError", found=[p.exc.exc_name for p in hits], expected=" or ".join(repr(w) for w in want))
        else:
            ctx.violation(rule, key, others[0][0].exc.func.loc(others[0][0].exc.node) if others and others[0][0].exc.func else loc, f"documented domain '{doc}' is not what the constructor enforces" if others else f"documented domain '{doc}' is not checked by the constructor", found=" | ".join(repr(c) for _, c in others) or "no guard on this parameter", expected=" or ".join(repr(w) for w in want))
        if hits:
            # ... and on EVERY constructing path: a check that only runs when another hyper-parameter has a certain value
            # lets values outside the domain through for the other values
            g0 = fired_guard(hits[0])
            if g0 is not None:
                c0 = g0[0]
                keys = {c0.key, c0.neg().key}
                skipping = [q for q in ok_paths if not any(cq.key in keys for cq, _v in q.facts)]
                if skipping:
                    why = [repr(cq)[:70] for cq, _v in skipping[0].facts if not any(a.key == pv.key for a in atoms_of_cond(cq))][-2:]
                    ctx.violation(rule, key + "|every-path", loc, f"documented domain '{doc}': {len(skipping)} of {len(ok_paths)} constructing paths never test '{param}' (the check is guarded by another setting): values outside the domain are accepted there", found=f"decided on such a path: {why}", expected="the check on every path of the constructor")
        for p, c in others:
            if hits:
                ctx.violation(rule, key + "|extra", raise_loc(p, loc), f"an additional guard on '{param}' rejects values inside the documented domain '{doc}' (or accepts values outside it)", found=repr(c), expected=" or ".join(repr(w) for w in want))
    # the numeric domains do not depend on the scorer: with an arbitrary UNFITTED user scorer plugged in (its min_size is
    # None before fit, as for a cost whose minimum size depends on the data width) every row is still enforced - a lower
    # bound taken from `scorer.min_size` at construction time silently disappears for such scorers
    try:
        from .c15 import _abstract_scorer_overrides

        sc_over = _abstract_scorer_overrides(ctx, cls) or {}
    except Exception:  # noqa: BLE001
        sc_over = {}
    for sprm, mk in sc_over.items():
        if "point" in sprm:
            continue  # the point saving's min_size IS part of the documented domain (must be 1)

        def mk_unfitted(ex, mk=mk):
            o = mk(ex)
            o.fields["min_size"] = NONE
            return o

        try:
            _exu, pu = ctor_paths(ctx, cls, {sprm: mk_unfitted})
        except Undecided:
            continue
        if not returns(pu):
            continue
        raising_u = [q for q in pu if q.outcome == "raise"]
        for _, _, param, doc, build in rows:
            want = build()
            pv = Atom("sym", param)
            had = any(o.key == f"{name}|{param}" and o.status == "HOLDS" for o in ctx.obs)
            if not had:
                continue
            found_u = False
            for q in raising_u:
                g = fired_guard(q)
                if g is None:
                    continue
                c, v = g
                if not v:
                    c = c.neg()
                if any(a.key == pv.key for a in atoms_of_cond(c)) and (same_set(c, "or", want) or (len(want) == 1 and c.key == want[0].key)):
                    found_u = True
                    break
            if not found_u:
                ctx.violation(rule, f"{name}|{param}|unfitted-scorer", loc, f"documented domain '{doc}' is enforced with the default scorer but not with an arbitrary unfitted {sprm} (min_size None before fit): the bound is taken from the scorer at construction time and disappears", found=f"no rejecting path for {param} among {len(raising_u)} raising paths", expected=f"'{doc}' whatever scorer is configured")
    # None: a parameter whose documented domain is numeric (not "or None") must not be accepted as None - a dropped
    # None-guard would let it through to fit/predict
    for _, _, param, doc, _b in rows:
        if param in NULLABLE or param in ("stat_lower", "stat_upper"):
            continue
        exn, pn = ctor_paths(ctx, cls, {param: lambda ex: NONE})
        outcomes = sorted({(q.outcome, q.exc.exc_name if q.exc else "") for q in pn})
        # the property lists numeric violations of the domains; for None it is only required that the constructor does
        # not ACCEPT it (a TypeError from a bare comparison is tolerated, silently storing None is not)
        okn = bool(pn) and all(q.outcome == "raise" for q in pn)
        ctx.check(okn, rule, f"{name}|{param}|None", loc, f"{param}=None (outside the documented domain '{doc}') is never accepted by the constructor", found=outcomes[:4], expected="an exception on every path")
    # special rows: scorer requirements
    if name in ("CAPA", "MVCAPA"):
        ex2, p2 = ctor_paths(ctx, cls, {"point_saving": lambda ex: abstract_scorer(ex, ctx.P, "skchange.anomaly_scores.base.BaseSaving", "point_saving", min_size=NF.const(2))})
        ctx.check(bool(p2) and all(p.outcome == "raise" and p.exc.exc_name == "ValueError" for p in p2), rule, f"{name}|point_saving-min-size", loc, "a point saving whose minimum size is not 1 is rejected with ValueError", found=[(p.outcome, p.exc.exc_name if p.exc else "") for p in p2][:4])
    if name == "MVCAPA":
        ex2, p2 = ctor_paths(ctx, cls, {"collective_saving": lambda ex: abstract_scorer(ex, ctx.P, "skchange.anomaly_scores.base.BaseSaving", "collective_saving", evaluation_type="multivariate")})
        ctx.check(bool(p2) and all(p.outcome == "raise" and p.exc.exc_name == "ValueError" for p in p2), rule, f"{name}|collective_saving-univariate", loc, "a multivariate collective saving is rejected with ValueError", found=[(p.outcome, p.exc.exc_name if p.exc else "") for p in p2][:4])


from .common import atoms_of_cond  # noqa: E402,F401

def _primary_param(c: Cond, params):
    """which table parameter a guard is 'about': the value being tested is the one that occurs
    with coefficient +-1 and is not part of the bound of another row"""
    names = [a.args[0] for a in atoms_of_cond(c) if a.kind == "sym" and a.args[0] in params]
    if not names:
        return None
    if len(set(names)) == 1:
        return names[0]
    # e.g. max_interval_length < 2*min_segment_length: the documented row of the pair
    for cand in ("max_interval_length", "max_segment_length", "min_detection_interval", "stat_lower"):
        if cand in names:
            return cand
    return names[0]


# ------------------------------------------------------------------ DATA-CHECK


def _check_data_summary(ex, func, args, kwargs, so, node):
    names = func.params
    b = {}
    for i, a in enumerate(args):
        b[names[i]] = a
    b.update(kwargs)
    fr = ex.frames[-1].func
    ex.emit("check_data_call", node, bound=b, caller=fr.name if fr else None)
    X = b.get("X")
    if isinstance(X, Num):
        return Num(X.nf, X.shape if X.shape is not None and len(X.shape) == 2 else (N, Pdim), X.dtype, "frame", meta={"alias_of": X, "checked": True})
    return Num(sym("X"), (N, Pdim), "float", "frame", meta={"checked": True})


def _generic_driver_summary(ex, func, args, kwargs, so, node):
    ex.emit("driver_call", node, driver=func.qualname)
    n = n_outputs(ex.P, func)
    outs = []
    for i in range(n):
        ex.list_counter += 1
        outs.append(ListV([], opaque=True, lid=ex.list_counter) if i and "capa" in func.name else ex.mk("driver_out", func.qualname, i, shape=(sym(f"q{i}"),), dtype="float"))
    return outs[0] if n == 1 else TupleV(outs)


def n_outputs(P, func, depth=3):
    """number of values a driver returns (following `return other_driver(...)`)"""
    import ast as _ast

    from ..index import FuncInfo as _F

    from .common import return_exprs

    n = 1
    for v in return_exprs(func):
        if isinstance(v, _ast.Tuple):
            n = max(n, len(v.elts))
        elif isinstance(v, _ast.Call) and depth > 0 and isinstance(v.func, (_ast.Name, _ast.Attribute)):
            r = P.resolve_expr(func.module, v.func)
            if isinstance(r, _F) and r is not func:
                n = max(n, n_outputs(P, r, depth - 1))
    return n


def check_data_calls(ctx, pkg, name):
    rule = "C14.c DATA-CHECK"
    cls = ctx.P.public_class(pkg, name)
    if CHECK_DATA not in ctx.P.functions:
        ctx.undecided(rule, name, cls.module.relpath, "check_data not found (anchor vanished)")
        return
    summ = dict(ABSTRACT_SUMMARIES)
    summ[CHECK_DATA] = _check_data_summary
    # cut the drivers: only the data checks matter here
    for meth in ("_predict", "_transform_scores", "_tune_threshold", "_fit", "_get_threshold", "_get_penalty"):
        m = ctx.P.lookup_method(cls, meth)
        if m is not None:
            for call, drv in find_driver_call(ctx, m):
                summ[drv.qualname] = _generic_driver_summary
    for c in ctx.P.classes.values():
        if "_format_sparse_output" in c.methods:
            from .c07 import _fmt_summary

            summ[c.methods["_format_sparse_output"].qualname] = _fmt_summary
    want_nf, want_txt = MIN_LENGTH[name][0](), MIN_LENGTH[name][1]
    for entry in ("fit", "predict"):
        ex = new_executor(ctx, summ, max_paths=300)

        def thunk(ex, entry=entry):
            kw = symbolic_hyperparams(ex, ctx.P, cls, {})
            obj = ex.new_object(cls, [], kw)
            X = frame_sym(ex)
            if entry == "predict":
                obj.fields["_is_fitted"] = Num(None, (), "bool", cond=Cond.const(True))
                for f in ("threshold_", "penalty_", "collective_penalty_", "point_penalty_"):
                    obj.fields[f] = Num(sym(f), (), "float")
                if name == "MovingWindow":
                    return call_method(ex, obj, "transform_scores", X)
                return call_method(ex, obj, "predict", X)
            return call_method(ex, obj, "fit", X)

        paths = run(ctx, ex, thunk)
        good = returns(paths)
        loc = (ctx.P.lookup_method(cls, "_fit" if entry == "fit" else ("_transform_scores" if name == "MovingWindow" else "_predict")) or cls).loc() if hasattr(cls, "loc") else cls.module.relpath
        m = ctx.P.lookup_method(cls, "_fit" if entry == "fit" else ("_transform_scores" if name == "MovingWindow" else "_predict"))
        loc = m.loc() if m is not None else cls.module.relpath
        if not good:
            ctx.undecided(rule, f"{name}|{entry}", loc, f"{entry} never returns in the scenario", found=[(p.outcome, p.exc.exc_name if p.exc else "") for p in paths][:4])
            continue
        p = good[0]
        cd = [e for e in p.events if e.kind == "check_data_call"]
        if not cd:
            ctx.violation(rule, f"{name}|{entry}", loc, f"{entry} does not pass its input through check_data (missing values and too short data are not rejected)")
            continue
        e = cd[0]
        b = e.data["bound"]
        ml = b.get("min_length")
        okx = isinstance(b.get("X"), Num) and b["X"].nf is not None and nf_equal(b["X"].nf, sym("X"))
        okm = isinstance(ml, Num) and ml.nf is not None and nf_equal(ml.nf, want_nf)
        ctx.check(okx and okm, rule, f"{name}|{entry}", e.loc(), f"{entry} checks the current input with min_length == {want_txt}", found=f"min_length = {ml!r}", expected=want_txt)
        # the check comes before the driver
        dc = [x for x in p.events if x.kind == "driver_call"]
        if dc:
            ctx.check(p.events.index(e) < p.events.index(dc[0]), rule, f"{name}|{entry}|order", e.loc(), "the data check dominates the detection driver", nontrivial=False)
        am = b.get("allow_missing_values")
        if am is not None and not (isinstance(am, Num) and am.cond is not None and am.cond.is_const() and not am.cond.value()):
            ctx.violation(rule, f"{name}|{entry}|missing", e.loc(), "missing values are allowed although the detector does not support them", found=repr(am))


def check_check_data(ctx):
    rule = "C14.c DATA-CHECK"
    f = ctx.P.func(CHECK_DATA)
    ex = new_executor(ctx)
    ml = sym("min_length")

    def thunk(ex):
        return ex.call_function(f, [frame_sym(ex), Num(ml, (), "int")], {}, None, None)

    paths = run(ctx, ex, thunk)
    nanp = lambda c: c.t[0] in ("any", "opq") and "isna" in c.key  # noqa: E731
    shortp = Cond.cmp("<", lift(N), ml)
    from .common import guard_outcomes

    fired = guard_outcomes(paths, nanp)
    ctx.check(bool(fired) and all(p.outcome == "raise" and p.exc.exc_name == "ValueError" for p in fired), rule, "check_data|missing-values", raise_loc(fired[0], f.loc()) if fired else f.loc(), "data containing missing values are rejected with ValueError", found=[(p.outcome, p.exc.exc_name if p.exc else "") for p in fired])
    fired = guard_outcomes(paths, lambda c: c.key == shortp.key)
    ctx.check(bool(fired) and all(p.outcome == "raise" and p.exc.exc_name == "ValueError" for p in fired), rule, "check_data|too-short", raise_loc(fired[0], f.loc()) if fired else f.loc(), "data with fewer than min_length rows are rejected with ValueError (n == min_length is accepted)", found=[repr(c) for p in paths for c, v in p.facts][:4], expected=repr(shortp))
    good = returns(paths)
    ctx.check(bool(good) and all(isinstance(p.value, Num) and p.value.pytype == "frame" for p in good), rule, "check_data|returns-frame", f.loc(), "accepted data are returned as a DataFrame", nontrivial=False)
    for p in paths:
        if p.outcome == "raise" and p.exc.exc_name != "ValueError":
            ctx.violation("C14.b RAISE-WF", "check_data", raise_loc(p, f.loc()), "check_data raises something other than ValueError", found=p.exc.exc_name)
    # array and Series inputs are converted
    for kind in ("ndarray", "series"):
        ex2 = new_executor(ctx)

        def thunk2(ex2, kind=kind):
            shape = (N, Pdim) if kind == "ndarray" else (N,)
            X = Num(sym("X"), shape, "float", kind, meta={"foreign": True})
            return ex2.call_function(f, [X, Num(ml, (), "int")], {}, None, None)

        p2 = returns(run(ctx, ex2, thunk2))
        ctx.check(bool(p2) and all(isinstance(p.value, Num) and p.value.pytype == "frame" and p.value.shape is not None and len(p.value.shape) == 2 for p in p2), rule, f"check_data|{kind}", f.loc(), f"a {kind} is converted to a 2-D DataFrame", found=[repr(p.value) for p in p2][:2])


# -------------------------------------------------------------------- NONEMPTY


def check_nonempty(ctx):
    from . import c07, c09

    cls = ctx.P.public_class(CD, "SeededBinarySegmentation")
    pred = ctx.P.lookup_method(cls, "_predict")
    cands = find_driver_call(ctx, pred)
    if len(cands) == 1:
        gen, sel = c07.discover_helpers(ctx, cands[0][1])
        if gen is not None and sel is None:
            ctx.undecided("C14.d NONEMPTY", "seeded-splits", cands[0][1].loc(), "the greedy selector called by the seeded driver was not identified")
        if gen is not None and sel is not None:
            ctx.guard("C14.d NONEMPTY", gen.qualname, lambda: c07.check_generator(ctx, gen, "C14"), gen.loc())
            before = len(ctx.obs)
            ctx.guard("C14.d NONEMPTY", "seeded-splits", lambda: c07.check_driver_c07(ctx, cands[0][1], gen, sel), cands[0][1].loc())
            ctx.obs[before:] = [o for o in ctx.obs[before:] if "NONEMPTY" in o.rule or o.status == "UNDECIDED"]  # violations of the drivers' other rules belong to C07 / C09
            # ... and the greedy loop ends for every threshold (F-30): a removed interval can never exceed it again
            before = len(ctx.obs)
            ctx.guard("C14.e TERMINATION", "seeded-greedy", lambda: c07.check_selector_c07(ctx, sel), sel.loc())
            ctx.obs[before:] = [o for o in ctx.obs[before:] if o.key == "zeroing" or o.status == "UNDECIDED"]
            for o in ctx.obs[before:]:
                o.rule = f"C14.e TERMINATION ({o.rule})"
    cls = ctx.P.public_class(AD, "CircularBinarySegmentation")
    pred = ctx.P.lookup_method(cls, "_predict")
    cands = find_driver_call(ctx, pred)
    if len(cands) == 1:
        drv = cands[0][1]
        gen, sel = c07.discover_helpers(ctx, drv)
        inner = c09.discover_inner(ctx, drv)
        if gen is not None and sel is not None and inner is not None:
            before = len(ctx.obs)
            ctx.guard("C14.d NONEMPTY", "circular-candidates", lambda: c09.check_driver_c09(ctx, drv, gen, sel, inner), drv.loc())
            ctx.obs[before:] = [o for o in ctx.obs[before:] if "NONEMPTY" in o.rule or o.status == "UNDECIDED"]  # violations of the drivers' other rules belong to C07 / C09
            before = len(ctx.obs)
            ctx.guard("C14.e TERMINATION", "circular-greedy", lambda: c09.check_selector_c09(ctx, sel), sel.loc())
            ctx.obs[before:] = [o for o in ctx.obs[before:] if o.key == "zeroing" or o.status == "UNDECIDED"]
            for o in ctx.obs[before:]:
                o.rule = f"C14.e TERMINATION ({o.rule})"
    # moving window: at least one scored position for n >= 2b, b >= 1
    mw = ctx.P.public_class(CD, "MovingWindow")
    ts = ctx.P.lookup_method(mw, "_transform_scores")
    cands = find_driver_call(ctx, ts)
    if len(cands) == 1:
        from .c02 import call_roles
        from .common import data_sym

        drv = cands[0][1]
        roles = call_roles(cands[0][0], drv)
        ex = new_executor(ctx, ABSTRACT_SUMMARIES)
        b = sym("b")

        def thunk(ex):
            args = {}
            for p in drv.params:
                src = roles.get(p, "")
                if is_data_src(src):
                    args[p] = data_sym(ex)
                elif src.startswith("self._"):
                    args[p] = abstract_scorer(ex, ctx.P, "skchange.change_scores.base.BaseChangeScore", "score", width=3)
                else:
                    args[p] = Num(b, (), "int")
            return ex.call_function(drv, [], args, None, None)

        paths = run(ctx, ex, thunk)
        for p in returns(paths)[:1]:
            evs = [e for e in p.events if e.kind == "scorer_evaluate"]
            if evs:
                ca = single_atom(evs[0].data["cuts"].nf)
                if ca is not None and ca.args[0] == "colstack":
                    L, Kk, R = ca.args[1][:3]
                    ka = single_atom(Kk)
                    if ka is not None and ka.kind == "app" and ka.args[0] == "arange":
                        size = ka.args[2] - ka.args[1]
                        pre = [Lin.of(lift(N) - 2 * b), Lin.of(b - 1)]
                        ctx.check(entails(pre, Lin.of(size - 1)), "C14.d NONEMPTY", "moving-window|positions", evs[0].loc(), "for n >= 2*bandwidth there is at least one scored position", found=f"{size!r} positions", expected=">= 1")
                        ctx.check(entails(pre, Lin.of(Kk - L - 1)) and entails(pre, Lin.of(R - Kk - 1)), "C14.d NONEMPTY", "moving-window|parts", evs[0].loc(), "both windows of every cut hold at least one sample for bandwidth >= 1 (bandwidth = 1 is a valid configuration)", found=f"K-L = {Kk - L!r}, R-K = {R - Kk!r}", expected=">= 1")


# ------------------------------------------------------- NONEMPTY: operand of the tuning quantile


def check_tune_operand(ctx):
    """`threshold_scale=None` is a documented configuration: fit takes np.quantile of training scores.  np.quantile of an
    EMPTY array raises IndexError.  The operand is the complete score output of the driver (non-empty by the drivers' own
    NONEMPTY obligations) or a part of it whose length is at least 1 for every admissible data length - for the moving
    window n >= 2 * bandwidth, bandwidth >= 1, with n scores; `scores[bandwidth:-bandwidth]` has n - 2*bandwidth elements
    and is empty at the documented minimum length (seed C14_18)."""
    from . import c15
    from ..affine import satisfiable
    from ..nf import as_linear, subst

    rule = "C14.d NONEMPTY"
    for pkg, name in (("skchange.change_detectors", "MovingWindow"), ("skchange.change_detectors", "SeededBinarySegmentation"), ("skchange.anomaly_detectors", "CircularBinarySegmentation")):
        cls = ctx.P.public_class(pkg, name)
        drv = c15.DRIVERS[name]
        if drv not in ctx.P.functions:
            from .c02 import find_driver_call

            found = None
            for mname in ("_tune_threshold", "_transform_scores", "_predict"):
                m_ = ctx.P.lookup_method(cls, mname)
                cands = find_driver_call(ctx, m_) if m_ is not None else []
                if len(cands) == 1:
                    found = cands[0][1]
                    break
            if found is None:
                ctx.undecided(rule, f"tune-operand|{name}", cls.module.relpath, "driver not found (anchor vanished)")
                continue
            dfunc = found
        else:
            dfunc = ctx.P.functions[drv]
        summ = {dfunc.qualname: c15._driver_summary(name)}
        ex, paths, st = c15.fit_scenario(ctx, cls, overrides={"threshold_scale": NONE}, summaries=summ)
        loc = ctx.P.lookup_method(cls, "_fit").loc()
        good = c15.ok_paths(paths)
        if not good:
            ctx.undecided(rule, f"tune-operand|{name}", loc, "fit with threshold_scale=None never returns in the scenario")
            continue
        seen = 0
        for p in good:
            for e in p.events:
                if e.kind != "quantile":
                    continue
                seen += 1
                v = e.data["over"]
                a = single_atom(v.nf) if isinstance(v, Num) and v.nf is not None else None
                if a is not None and a.kind == "app" and a.args[0] == "driver_out":
                    ctx.holds(rule, f"tune-operand|{name}", e.loc(), "the tuning quantile is taken over a complete output of the driver (one score per position / interval; non-empty by the driver's own obligations)")
                    continue
                L = lift(v.shape[0]) if isinstance(v, Num) and v.shape else None
                if L is None:
                    ctx.undecided(rule, f"tune-operand|{name}", e.loc(), "the length of the operand of the tuning quantile is not known", found=valkey(v)[:100])
                    continue
                # the driver's output length: n for the moving window (one score per row), at least 1 otherwise
                lens = [a_ for a_ in atoms_of(L).values() if a_.kind == "sym" and str(a_.args[0]).startswith("len")]
                pre = []
                b = sym("bandwidth")
                if name == "MovingWindow":
                    for a_ in lens:
                        L = subst(L, {a_.key: lift(N)})
                    pre = [Lin.of(lift(N) - 2 * b), Lin.of(b - 1)]
                else:
                    pre = [Lin.of(NF.atom(a_) - 1) for a_ in lens]
                goal = Lin.of(L - 1)
                if goal is None:
                    ctx.undecided(rule, f"tune-operand|{name}", e.loc(), "the length of the operand of the tuning quantile is not an affine expression", found=repr(L))
                    continue
                ok = entails(pre, goal)
                ctx.check(ok, rule, f"tune-operand|{name}", e.loc(), "the operand of the tuning quantile holds at least one score for every admissible data length (np.quantile of an empty array raises IndexError in fit)", found=f"{L!r} elements" + ("" if ok else " - 0 at the documented minimum length"), expected=">= 1 for n >= 2 * bandwidth" if name == "MovingWindow" else ">= 1")
        if not seen:
            ctx.undecided(rule, f"tune-operand|{name}", loc, "no np.quantile on the tuning path")
