"""C06 - scores derived from costs equal their defining cost differences."""

from __future__ import annotations

from ..nf import NF, Atom, Undecided, app, atoms_of, lift, nf_equal, single_atom, subst, sym
from ..values import NONE, Cond, NoneV, Num, ObjV, StrV, TupleV, valkey
from .common import (
    mark,
    mark_index,
    ABSTRACT_SUMMARIES,
    K,
    N,
    Pdim,
    abstract_scorer,
    call_method,
    cut_cols,
    cuts_sym,
    data_sym,
    declare_cut_order,
    eval_atom,
    new_executor,
    raises,
    returns,
    run,
    run_spec,
)

EXPLANATION = (
    "Static decision, for every input and every cost plugged in (the cost's evaluate is an uninterpreted function of object, "
    "fitted data and cuts): (a) NF-ADAPTER - ChangeScore._evaluate == C(s,e)-C(s,k)-C(k,e); Saving._evaluate == baseline.evaluate - "
    "optimised.evaluate where optimised is baseline.clone() with param=None and a baseline without fixed parameter is rejected; "
    "LocalAnomalyScore._evaluate == C(s,e)-C(a,b)-R with R the evaluation on [0,len) of an owned clone refitted on "
    "concatenate(X[s:a], X[b:e]) of the currently fitted X; (b) NF-DIRECT - cusum_score and l2_saving equal their definitions in "
    "spec/scores.py over zero-initialised prefix sums; (c) PASS-THROUGH - to_change_score/to_saving/to_local_anomaly_score return "
    "the argument itself for scores, the adapter built on the argument for costs, ValueError otherwise; (d) MIN-SIZE-WIRE - each "
    "adapter's min_size is its cost's. Paper lemmas (cusum^2 == L2 change score, S1^2/N == L2(mu=0)-L2(opt), optimal<=fixed, split "
    "never increases) connect the definitions; the static part is code == definition. NOT decided: inequalities in floating point."
)
# obligations added during the build phase (seeding rounds, twins, mutation analysis)
ADDED_IN_BUILD = ' Also: (a) SPECIAL-CASE - an isinstance test of the arbitrary cost against one particular cost class is undecided on the abstract object (both arms explored); every composition an adapter singles out that way is decided with the built-in cost itself (its own fit / evaluate inlined) in every parameter mode; no such test on the pinned tree. (b) adapters-multivariate: with a cost that returns one column per cut every adapter returns one column. (a) overwritten: entries of a score replaced by a constant after the defining difference was computed, selected by a test against an absolute number, are a violation (a sign clamp at zero is accepted).'
EXPLANATION = EXPLANATION + ADDED_IN_BUILD

ASSUMPTIONS = [
    "Python's ast module and evaluation-order/argument-binding semantics as implemented in skverif/symex.py",
    "library model table skverif/models.py",
    "specification /verif/spec/scores.py transcribes the definitions named in the property",
    "sktime BaseEstimator model: clone() builds a fresh unfitted object from the constructor parameters; set_params re-runs __init__",
    "user-defined costs are modelled as uninterpreted evaluate(object, fitted data, cuts)",
]
BASECOST = "skchange.costs.base.BaseCost"


def check(ctx):
    SPECIAL.clear()
    ctx.guard("C06.a NF-ADAPTER", "ChangeScore", lambda: check_change_score(ctx))
    ctx.guard("C06.a NF-ADAPTER", "Saving", lambda: check_saving(ctx))
    ctx.guard("C06.a NF-ADAPTER", "LocalAnomalyScore", lambda: check_local(ctx))
    ctx.guard("C06.b NF-DIRECT", "CUSUM", lambda: check_direct(ctx, "skchange.change_scores", "CUSUM", 3, "cusum"))
    ctx.guard("C06.b NF-DIRECT", "L2Saving", lambda: check_direct(ctx, "skchange.anomaly_scores", "L2Saving", 2, "l2_saving"))
    ctx.guard("C06.c PASS-THROUGH", "to_*", lambda: check_passthrough(ctx))
    ctx.guard("C06.a SPECIAL-CASE", "adapters", lambda: check_special_cases(ctx))
    ctx.guard("C06.b SHAPE-COLS", "adapters-multivariate", lambda: check_multivariate_shape(ctx))
    # population: every registered score must be one of the analysed ones
    known = {"ChangeScore", "CUSUM", "Saving", "L2Saving", "LocalAnomalyScore"}
    for reg in (("skchange.change_scores", "CHANGE_SCORES"), ("skchange.anomaly_scores", "ANOMALY_SCORES")):
        for c in ctx.P.registry(*reg):
            if c.name not in known:
                ctx.undecided("C06 TABLE", c.qualname, c.module.relpath, "registered score without a specification (unspecified instance)")
    ctx.expect_min("C06.a NF-ADAPTER", sum(1 for o in ctx.obs if o.rule == "C06.a NF-ADAPTER"), 6)


def _adapter(ctx, modattr, width, cost_param, extra=None, evaluation_type="univariate"):
    cls = ctx.P.public_class(*modattr)
    ex = new_executor(ctx, ABSTRACT_SUMMARIES)
    state = {}

    def thunk(ex):
        X = data_sym(ex)
        cuts = cuts_sym(ex, width)
        cost = abstract_scorer(ex, ctx.P, BASECOST, "cost", param=cost_param, evaluation_type=evaluation_type)
        state["cost"] = cost
        state["X"] = X
        obj = ex.new_object(cls, [cost], {})
        state["obj"] = obj
        # history: the same object was fitted on other data of the same size and evaluated before
        call_method(ex, obj, "fit", data_sym(ex, "X0"))
        call_method(ex, obj, "evaluate", cuts)
        call_method(ex, obj, "fit", X)
        state["n_fit"] = len(ex.events)
        mark(ex, "fit-done")
        return call_method(ex, obj, "evaluate", cuts)

    paths = run(ctx, ex, thunk)
    # an adapter that asks whether the arbitrary cost is an instance of one particular cost class: the paths on which it is
    # belong to the composition with that class, which is decided with the class itself plugged in (SPECIAL-CASE below)
    special = {}
    for p in paths:
        for e in p.events:
            if e.kind == "abstract_isinstance":
                special[e.data["cls"].qualname] = e.data["cls"]
    if special:
        SPECIAL.setdefault((cls.name, width), {}).update(special)
        paths = [p for p in paths if not any(v and "isinstance(" in c.key for c, v in p.facts)]
    return cls, ex, paths, state


SPECIAL: dict = {}


def check_special_cases(ctx):
    """compositions <adapter>(<built-in cost>) that the adapter singles out by an isinstance test, each decided with the
    built-in cost itself (its own fit / evaluate inlined) in every parameter mode"""
    rule = "C06.a SPECIAL-CASE"
    from . import c01
    from ..values import ListV, SliceV

    if not SPECIAL:
        ctx.holds(rule, "none", "skchange/change_scores/from_cost.py", "no adapter asks which cost class it was given (no isinstance test of the cost against a particular cost class on the fit / evaluate paths): the uninterpreted-cost decision covers every composition")
        return
    for (aname, width), classes in sorted(SPECIAL.items()):
        acls = next(c for c in ctx.P.classes.values() if c.name == aname)
        loc = acls.methods["_evaluate"].loc() if "_evaluate" in acls.methods else acls.module.relpath
        for q, ccls in sorted(classes.items()):
            tab = c01.PARAM_TABLE.get(ccls.name)
            if tab is None or tab["multivariate"] or aname not in ("ChangeScore", "Saving"):
                ctx.undecided(rule, f"{aname}({ccls.name})", loc, "the adapter treats this cost class differently from an arbitrary cost; the composition with the class itself is not decided (multivariate kernel, local anomaly score or a class outside the cost table)")
                continue
            modes = ("optim", "fixed-array", "fixed-number") if aname == "ChangeScore" else ("fixed-array", "fixed-number")
            for mode in modes:
                key = f"{aname}({ccls.name})|{mode}"

                def go(mode=mode, key=key, ccls=ccls, tab=tab):
                    ex = new_executor(ctx, max_paths=600)

                    def thunk(ex):
                        X = data_sym(ex)
                        cuts = cuts_sym(ex, width)
                        cost = ex.new_object(ccls, c01.make_param(ex, tab, mode), {})
                        obj = ex.new_object(acls, [cost], {})
                        call_method(ex, obj, "fit", X)
                        v = call_method(ex, obj, "evaluate", cuts)
                        mark(ex, "adapter-done")
                        ref = ex.new_object(ccls, c01.make_param(ex, tab, mode), {})
                        call_method(ex, ref, "fit", X)
                        if aname == "ChangeScore":
                            cst = lambda i: Num(NF.const(i), (), "int")  # noqa: E731
                            pair = lambda i, j: ex.index_num(cuts, [SliceV(NONE, NONE, NONE), ListV([cst(i), cst(j)])], None)  # noqa: E731
                            parts = [call_method(ex, ref, "evaluate", pair(0, 2)), call_method(ex, ref, "evaluate", pair(0, 1)), call_method(ex, ref, "evaluate", pair(1, 2))]
                        else:
                            opt = ex.new_object(ccls, [], {})
                            call_method(ex, opt, "fit", X)
                            parts = [call_method(ex, ref, "evaluate", cuts), call_method(ex, opt, "evaluate", cuts)]
                        return TupleV([v] + parts)

                    paths = run(ctx, ex, thunk)
                    rets = returns(paths)
                    if not rets:
                        ctx.undecided(rule, key, loc, "no returning path", found=sorted({(p.outcome, p.exc.exc_name if p.exc else "") for p in paths})[:4])
                        return
                    for p in rets:
                        v, parts = p.value.items[0], p.value.items[1:]
                        if not all(isinstance(x, Num) and x.nf is not None for x in [v] + parts):
                            ctx.undecided(rule, key, loc, "a value without normal form on the path")
                            continue
                        want = parts[0].nf - parts[1].nf - (parts[2].nf if len(parts) > 2 else NF.const(0))
                        if _no_opaque(ctx, rule, key, loc, v.nf):
                            ctx.check(nf_equal(v.nf, want), rule, key, loc, ("change score == C(s,e) - C(s,k) - C(k,e)" if aname == "ChangeScore" else "saving == C at the baseline parameter - C at the optimal parameter") + f" with C = {ccls.name} itself in mode {mode}", found=repr(v.nf)[:400], expected=repr(want)[:400])

                ctx.guard(rule, key, go, loc)


def check_multivariate_shape(ctx):
    """A multivariate cost (one column per cut, whatever p) keeps its shape through every adapter: the score of a
    multivariate cost has ONE column.  A buffer allocated with one column per variable broadcasts the single cost column
    into all of them, and the detectors' column sum then reports p times the score."""
    rule = "C06.b SHAPE-COLS"
    for modattr, width, cparam in ((("skchange.change_scores", "ChangeScore"), 3, "none"), (("skchange.anomaly_scores", "Saving"), 2, "fixed"), (("skchange.anomaly_scores", "LocalAnomalyScore"), 4, "none")):
        cls, ex, paths, st = _adapter(ctx, modattr, width, cparam, evaluation_type="multivariate")
        loc = cls.methods["_evaluate"].loc() if "_evaluate" in cls.methods else cls.module.relpath
        rets = returns(paths)
        if not rets:
            ctx.undecided(rule, f"{cls.name}|multivariate", loc, "no returning path with a multivariate cost", found=sorted({(p.outcome, p.exc.exc_name if p.exc else "") for p in paths})[:3])
            continue
        for p in rets:
            v = p.value
            shp = getattr(v, "shape", None)
            if shp is None or len(shp) != 2:
                ctx.undecided(rule, f"{cls.name}|multivariate", loc, "the shape of the score of a multivariate cost is not known", found=f"shape {shp}")
                continue
            ok = nf_equal(lift(shp[0]), lift(K)) and lift(shp[1]).as_const() == 1
            bm = [e for e in p.events[mark_index(p, "fit-done"):] if e.kind == "broadcast_mismatch"]
            ctx.check(ok and not bm, rule, f"{cls.name}|multivariate", bm[0].loc() if bm else loc, "with a multivariate cost (one column per cut) the score has one column too", found=f"shape {shp}" + (f"; broadcast {bm[0].data['left']} vs {bm[0].data['right']}" if bm else ""), expected="(k, 1)")


def _overwritten_after(ctx, rule, key, loc, v):
    """the returned array was computed by the defining expression and then partly overwritten (`scores[mask] = 0.0`): the
    score of the overwritten entries is no longer the cost difference.  True when something was reported."""
    a = getattr(v, "arr", None)
    if a is None or not getattr(a, "materialised", False) or not a.stores:
        return False
    reported = False
    for sv in a.stores:
        val = sv.data.get("value")
        const = isinstance(val, Num) and val.nf is not None and val.nf.as_const() is not None
        idx = sv.data.get("index") or []
        msk = ", ".join(valkey(i)[:80] for i in idx)
        absolute = None
        if len(idx) == 1 and isinstance(idx[0], Num) and idx[0].cond is not None and idx[0].cond.t[0] == "cmp":
            d = idx[0].cond.t[2].reduced()
            absolute = bool(d.num.get((), 0)) if (len(d.den) == 1 and () in d.den) else None
        if const and absolute is False and val.nf.as_const() == 0:
            continue  # entries on one side of ZERO set to zero: a sign clamp of rounding noise, scale-free
        reported = True
        if const and absolute:
            ctx.violation(rule, key + "|overwritten", sv.loc(), "entries of the score are overwritten by a constant after the defining cost difference was computed (selected by a test against an absolute number): for data on another scale genuine scores are replaced - the score is homogeneous in the data, a fixed cut-off is not", found=f"[{msk}] = {val.nf!r}", expected="the cost difference as computed")
        else:
            ctx.undecided(rule, key + "|overwritten", sv.loc(), "entries of the score are overwritten after the defining cost difference was computed: not decided", found=f"[{msk}] = {valkey(val)[:60]}")
    return reported


def _no_opaque(ctx, rule, key, loc, nf):
    if nf is None:
        ctx.undecided(rule, key, loc, "the returned value has no normal form (a call without a model on the path)")
        return False
    bad = [repr(a) for a in atoms_of(nf).values() if a.kind == "arr" or (a.kind == "app" and a.args[0] in ("asarray", "array", "opq"))]
    if bad:
        ctx.undecided(rule, key, loc, f"unmodelled construct in the value: {bad[:3]}")
        return False
    return True


def check_change_score(ctx):
    rule = "C06.a NF-ADAPTER"
    declare_cut_order(3)
    cls, ex, paths, st = _adapter(ctx, ("skchange.change_scores", "ChangeScore"), 3, "none")
    loc = cls.methods["_evaluate"].loc() if "_evaluate" in cls.methods else cls.module.relpath
    rets = returns(paths)
    if not rets:
        ctx.violation(rule, "ChangeScore", loc, "no returning path")
        return
    c0, c1, c2 = cut_cols(3)
    xk = valkey(st["X"])
    C = lambda i, j: eval_atom("cost", xk, i, j)  # noqa: E731
    spec, _ = run_spec(ctx, "scores", "change_score", lambda sx: [Num(C(c0, c2), (K, Pdim)), Num(C(c0, c1), (K, Pdim)), Num(C(c1, c2), (K, Pdim))])
    for p in rets:
        v = p.value
        if _overwritten_after(ctx, rule, "ChangeScore", loc, v):
            continue
        if _no_opaque(ctx, rule, "ChangeScore", loc, getattr(v, "nf", None)):
            ctx.check(nf_equal(v.nf, spec.nf), rule, "ChangeScore|value", loc, "change score == C(s,e) - C(s,k) - C(k,e) on the currently fitted data", found=repr(v.nf), expected=repr(spec.nf))
    _min_size(ctx, ex, st, "ChangeScore", "cost", loc)
    # invalid cuts paths raise ValueError only
    _raise_kinds(ctx, paths, "ChangeScore", loc)


def _raise_kinds(ctx, paths, name, loc):
    bad = [p for p in paths if p.outcome == "raise" and p.exc.exc_name != "ValueError"]
    for p in bad:
        ctx.violation("C06.a NF-ADAPTER", f"{name}|raise-kind", p.exc.func.loc(p.exc.node) if p.exc.func else loc, "an error path of evaluate raises something other than ValueError", found=p.exc.exc_name)


def _min_size(ctx, ex, st, name, role, loc):
    rule = "C06.d MIN-SIZE-WIRE"

    def thunk(ex2):
        return None

    obj = st["obj"]
    try:
        v = ex.getattr(obj, "min_size", None)
    except Exception as e:  # noqa: BLE001
        ctx.undecided(rule, name, loc, f"min_size not evaluable: {e}")
        return
    want = sym(f"min_size({role})")
    ok = isinstance(v, Num) and v.nf is not None and nf_equal(v.nf, want)
    ctx.check(ok, rule, name, loc, f"{name}.min_size forwards the minimum size of its {role}", found=repr(v), expected=repr(want))


def check_saving(ctx):
    rule = "C06.a NF-ADAPTER"
    cls, ex, paths, st = _adapter(ctx, ("skchange.anomaly_scores", "Saving"), 2, "fixed")
    loc = cls.methods["_evaluate"].loc() if "_evaluate" in cls.methods else cls.module.relpath
    rets = returns(paths)
    if not rets:
        ctx.violation(rule, "Saving", loc, "no returning path")
        return
    obj = st["obj"]
    opt = obj.fields.get("optimised_cost")
    base = obj.fields.get("baseline_cost")
    ok_clone = isinstance(opt, ObjV) and opt.meta.get("clone_of") is st["cost"] and isinstance(opt.fields.get("param"), NoneV)
    ctx.check(ok_clone, rule, "Saving|optimised-is-clone", cls.methods["__init__"].loc(), "optimised_cost is baseline_cost.clone() with param=None (an owned object)", found=f"{opt!r} param={opt.fields.get('param') if isinstance(opt, ObjV) else None}", expected="clone(cost) with param None")
    ctx.check(base is st["cost"], rule, "Saving|baseline", cls.methods["__init__"].loc(), "baseline_cost is the cost passed in")
    xk = valkey(st["X"])
    cutsnf = sym("cuts")
    spec, _ = run_spec(ctx, "scores", "saving", lambda sx: [Num(app("eval", "cost", xk, cutsnf), (K, Pdim)), Num(app("eval", opt.key if isinstance(opt, ObjV) else "?", xk, cutsnf), (K, Pdim))])
    for p in rets:
        v = p.value
        if _overwritten_after(ctx, rule, "Saving", loc, v):
            continue
        if _no_opaque(ctx, rule, "Saving", loc, getattr(v, "nf", None)):
            ctx.check(nf_equal(v.nf, spec.nf), rule, "Saving|value", loc, "saving == baseline.evaluate(cuts) - optimised.evaluate(cuts), both fitted on the current data", found=repr(v.nf), expected=repr(spec.nf))
    _min_size(ctx, ex, st, "Saving", opt.key if isinstance(opt, ObjV) else "?", loc)
    _raise_kinds(ctx, paths, "Saving", loc)
    # constructor rejects a baseline without fixed parameter
    cls2, ex2, paths2, st2 = _adapter(ctx, ("skchange.anomaly_scores", "Saving"), 2, "none")
    # ... in the constructor itself or in a validation helper it calls: before anything is fitted or evaluated
    ok = bool(paths2) and all(p.outcome == "raise" and p.exc.exc_name == "ValueError" and p.exc.func is not None and not any(e.kind in ("scorer_fit", "scorer_evaluate", "check_is_fitted") for e in p.events) for p in paths2)
    ctx.check(ok, rule, "Saving|rejects-optimal-baseline", cls.methods["__init__"].loc(), "Saving(cost with param=None) raises ValueError in the constructor", found=[(p.outcome, p.exc.exc_name if p.exc else "") for p in paths2])


def _clone_param(cost, clone):
    """the parameter symbol an abstract clone carries: clone() renames param(<cost>) to param(<clone>)"""
    pv = cost.fields["param"].nf
    a = single_atom(pv)
    if a is not None and a.kind == "sym" and str(a.args[0]).endswith(f"({cost.key})"):
        return sym(str(a.args[0])[: -len(cost.key) - 2] + f"({clone.key})")
    return pv


def check_local(ctx):
    rule = "C06.a NF-ADAPTER"
    declare_cut_order(4)
    # the pooled-surroundings cost is the SAME cost: an owned clone that keeps the cost's fixed parameter (a clone reset
    # to param=None would re-optimise the surroundings while the outer and inner costs use the fixed parameter)
    cls_f, ex_f, paths_f, st_f = _adapter(ctx, ("skchange.anomaly_scores", "LocalAnomalyScore"), 4, "fixed")
    sub_f = st_f["obj"].fields.get("_any_subset_cost") if "obj" in st_f else None
    cost_f = st_f.get("cost")
    # the surroundings cost may be held under another attribute name: any owned clone of the cost among the fields
    clones = [v_ for v_ in st_f["obj"].fields.values() if isinstance(v_, ObjV) and v_.meta.get("clone_of") is cost_f] if "obj" in st_f else []
    okp = bool(clones) and all(isinstance(c_.fields.get("param"), Num) and isinstance(cost_f.fields.get("param"), Num) and c_.fields["param"].nf is not None and nf_equal(c_.fields["param"].nf, _clone_param(cost_f, c_)) for c_ in clones)
    ctx.check(okp, "C06.a OWNED-CLONE", "LocalAnomalyScore|clone-keeps-param", cls_f.methods["__init__"].loc() if "__init__" in cls_f.methods else cls_f.module.relpath, "the clone used for the pooled surroundings keeps the cost's fixed parameter", found=[valkey(c_.fields.get("param")) for c_ in clones] or "no owned clone of the cost", expected="param of the cost passed in")
    cls, ex, paths, st = _adapter(ctx, ("skchange.anomaly_scores", "LocalAnomalyScore"), 4, "none")
    loc = cls.methods["_evaluate"].loc() if "_evaluate" in cls.methods else cls.module.relpath
    rets = returns(paths)
    if not rets:
        ctx.violation(rule, "LocalAnomalyScore", loc, "no returning path")
        return
    c0, c1, c2, c3 = cut_cols(4)
    xk = valkey(st["X"])
    obj = st["obj"]
    for p in rets:
        v = p.value
        # the value is outer - inner - <buffer written row by row>
        if not _no_opaque(ctx, rule, "LocalAnomalyScore", loc, getattr(v, "nf", None) if getattr(v, "nf", None) is None else NF.const(0)):
            continue
        arrs = [a for a in atoms_of(v.nf, deep=False).values() if a.kind == "arr"]
        if len(arrs) != 1:
            ctx.undecided(rule, "LocalAnomalyScore", loc, f"expected exactly one row-wise buffer in the returned value, found {len(arrs)}")
            continue
        buf = ex.atom_meta[arrs[0].key]["arr"]
        R = sym("R")
        code = subst(v.nf, {arrs[0].key: R})
        spec, _ = run_spec(ctx, "scores", "local_anomaly_score", lambda sx: [Num(eval_atom("cost", xk, c0, c3), (K, Pdim)), Num(eval_atom("cost", xk, c1, c2), (K, Pdim)), Num(R, (K, Pdim))])
        ctx.check(nf_equal(code, spec.nf), rule, "LocalAnomalyScore|value", loc, "score == C(s,e) - C(a,b) - R, with C fitted on the current data", found=repr(code), expected=repr(spec.nf))
        # ---- the buffer R
        if len(buf.stores) != 1 or not buf.stores[0].loops:
            ctx.undecided(rule, "LocalAnomalyScore|surrounding", loc, f"{len(buf.stores)} stores into the surrounding-cost buffer; expected one per cut in a loop")
            continue
        s = buf.stores[0]
        lctx = s.loops[-1]
        lv = NF.atom(Atom("lv", lctx.lid))
        idx, val = s.data["index"], s.data["value"]
        rng = lctx.info.get("range")
        over_all = rng is not None and rng[0].as_const() == 0 and nf_equal(rng[1], lift(K)) and rng[2].as_const() == 1
        idx_ok = len(idx) == 1 and isinstance(idx[0], Num) and nf_equal(idx[0].nf, lv)
        ctx.check(over_all and idx_ok, rule, "LocalAnomalyScore|surrounding-loop", s.loc(), "one surrounding cost per cut, stored at the cut's row", found=f"index {valkey(idx[0]) if idx else None} over {rng}")
        # value must be eval(clone, fitted on concat(X[c0:c1], X[c2:c3]), [0, len])
        a = single_atom(val.nf) if isinstance(val, Num) else None
        if a is None or a.kind != "app" or a.args[0] != "eval":
            ctx.violation(rule, "LocalAnomalyScore|surrounding-value", s.loc(), "the surrounding cost is not the evaluation of a cost", found=repr(val))
            continue
        okey, fitted_on, cutsnf = a.args[1], a.args[2], a.args[3]
        # the object that is refitted per cut: whichever attribute of the adapter holds it (found by the key the evaluation
        # carries, not by the attribute's private name)
        sub = next((f_ for f_ in obj.fields.values() if isinstance(f_, ObjV) and f_.key == okey), None)
        if sub is None:
            # the copy may be taken in fit (F-31): it is then an object of THIS path - look it up among the clones the path made
            sub = next((e_.data["new"] for e_ in p.events if e_.kind == "clone" and isinstance(e_.data.get("new"), ObjV) and e_.data["new"].key == okey), None)
            if isinstance(sub, ObjV) and isinstance(sub.meta.get("clone_of"), ObjV) and sub.meta["clone_of"].key == st["cost"].key:
                sub.meta["clone_of"] = st["cost"] if sub.meta["clone_of"].key == st["cost"].key else sub.meta["clone_of"]
        owned = isinstance(sub, ObjV) and sub.meta.get("clone_of") is st["cost"] and sub is not st["cost"]
        ctx.check(owned and okey == (sub.key if isinstance(sub, ObjV) else None), "C06.a OWNED-CLONE", "LocalAnomalyScore|refit-object", s.loc(), "the cost refitted on other data is an owned clone, not the user's cost object", found=f"evaluates {okey}", expected="clone(cost)")
        # cut row i
        row = lambda j: app("idx", app("col", sym("cuts"), NF.const(j)), (("at", lv),))  # noqa: E731  (canonical cuts[i, j])
        X = sym("X")
        r = [row(j) for j in range(4)]
        exp_data = app("concat", (app("idx", X, (("slice", r[0], r[1], NF.const(1)),)), app("idx", X, (("slice", r[2], r[3], NF.const(1)),))))
        ctx.check(fitted_on == exp_data.key, rule, "LocalAnomalyScore|pooled-data", s.loc(), "the clone is refitted on concatenate(X[s:a], X[b:e]) of the currently fitted X immediately before it is evaluated", found=fitted_on, expected=exp_data.key)
        exp_cuts = app("vec", (NF.const(0), (r[1] - r[0]) + (r[3] - r[2])))
        got = cutsnf if isinstance(cutsnf, NF) else None
        ctx.check(got is not None and nf_equal(got, exp_cuts), rule, "LocalAnomalyScore|pooled-interval", s.loc(), "the pooled surroundings are evaluated on [0, their number of rows)", found=repr(cutsnf), expected=repr(exp_cuts))
    _min_size(ctx, ex, st, "LocalAnomalyScore", "cost", loc)
    _raise_kinds(ctx, paths, "LocalAnomalyScore", loc)


def check_direct(ctx, pkg, name, width, specname):
    rule = "C06.b NF-DIRECT"
    cols = declare_cut_order(width)
    cls = ctx.P.public_class(pkg, name)
    ex = new_executor(ctx)
    state = {}

    def thunk(ex):
        X = data_sym(ex)
        cuts = cuts_sym(ex, width)
        obj = ex.new_object(cls, [], {})
        call_method(ex, obj, "fit", data_sym(ex, "X0"))
        call_method(ex, obj, "evaluate", cuts)
        call_method(ex, obj, "fit", X)
        state["n_fit"] = len(ex.events)
        mark(ex, "fit-done")
        return call_method(ex, obj, "evaluate", cuts)

    paths = run(ctx, ex, thunk)
    loc = cls.module.relpath
    rets = returns(paths)
    if not rets:
        ctx.violation(rule, name, loc, "no returning path")
        return

    def spec_args(sx):
        X = data_sym(sx)
        ps = sx.mk("prefix0", X.nf, shape=(lift(N) + 1, Pdim), dtype="float")
        return [ps] + [Num(c, (K,), "int") for c in cols]

    spec, _ = run_spec(ctx, "scores", specname, spec_args)
    for p in rets:
        v = p.value
        if _no_opaque(ctx, rule, name, loc, getattr(v, "nf", None)):
            ctx.check(nf_equal(v.nf, spec.nf), rule, f"{name}|value", loc, f"value == definition spec/scores.py:{specname}", found=repr(v.nf), expected=repr(spec.nf))
        shp = v.shape
        ok = shp is not None and len(shp) == 2 and nf_equal(lift(shp[0]), lift(K)) and nf_equal(lift(shp[1]), lift(Pdim))
        ctx.check(ok, "C06.b SHAPE-COLS", name, loc, "one row per cut, one column per variable", found=f"shape {shp}")
        bm = [e for e in p.events[mark_index(p, "fit-done"):] if e.kind == "broadcast_mismatch"]
        for e in bm:
            ctx.violation("C06.b SHAPE-COLS", name + "|broadcast", e.loc(), "a per-cut vector (k,) is broadcast against a (k,p) matrix", found=f"{e.data['left']} vs {e.data['right']}")
    _raise_kinds(ctx, paths, name, loc)


def check_passthrough(ctx):
    rule = "C06.c PASS-THROUGH"
    table = [
        ("skchange.change_scores", "to_change_score", "skchange.change_scores.base.BaseChangeScore", "skchange.change_scores.from_cost.ChangeScore", "cost"),
        ("skchange.anomaly_scores", "to_saving", "skchange.anomaly_scores.base.BaseSaving", "skchange.anomaly_scores.from_cost.Saving", "baseline_cost"),
        ("skchange.anomaly_scores", "to_local_anomaly_score", "skchange.anomaly_scores.base.BaseLocalAnomalyScore", "skchange.anomaly_scores.from_cost.LocalAnomalyScore", "cost"),
    ]
    for pkg, fname, base_q, adapter_q, field in table:
        f = ctx.P.public_func(pkg, fname)
        for kind in ("score", "cost", "other"):
            ex = new_executor(ctx, ABSTRACT_SUMMARIES)
            st = {}

            def thunk(ex):
                if kind == "score":
                    a = abstract_scorer(ex, ctx.P, base_q, "user_score")
                elif kind == "cost":
                    a = abstract_scorer(ex, ctx.P, BASECOST, "cost", param="fixed")
                else:
                    a = Num(sym("something"), (), "float")
                st["arg"] = a
                return ex.call_function(f, [a], {}, None, None)

            paths = run(ctx, ex, thunk)
            key = f"{fname}|{kind}"
            if kind == "score":
                ok = len(paths) == 1 and paths[0].outcome == "return" and paths[0].value is st["arg"]
                ctx.check(ok, rule, key, f.loc(), "a score of the right kind is returned as is (the same object)", found=[repr(p.value) if p.outcome == "return" else p.exc.exc_name for p in paths])
            elif kind == "cost":
                ok = len(paths) == 1 and paths[0].outcome == "return" and isinstance(paths[0].value, ObjV) and paths[0].value.cls is not None and paths[0].value.cls.qualname == adapter_q and paths[0].value.fields.get(field) is st["arg"]
                ctx.check(ok, rule, key, f.loc(), f"a cost is wrapped in {adapter_q.split('.')[-1]} built on that very cost", found=[repr(p.value) if p.outcome == "return" else p.exc.exc_name for p in paths])
            else:
                ok = bool(paths) and all(p.outcome == "raise" and p.exc.exc_name == "ValueError" for p in paths)
                ctx.check(ok, rule, key, f.loc(), "anything else raises ValueError", found=[repr(p.value) if p.outcome == "return" else p.exc.exc_name for p in paths])
