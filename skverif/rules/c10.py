"""C10 - results depend only on hyper-parameters, training data and the input."""

from __future__ import annotations

import ast

from ..index import ClassInfo, FuncInfo
from ..nf import NF, Atom, Undecided, app, atoms_of, lift, nf_equal, single_atom, sym
from ..values import NONE, Cond, ListV, NoneV, Num, ObjV, OpaqueV, StrV, TupleV, valkey
from .c02 import find_driver_call
from .common import (
    ABSTRACT_SUMMARIES,
    N,
    Pdim,
    abstract_scorer,
    call_method,
    data_sym,
    frame_sym,
    new_executor,
    norm_src,
    returns,
    run,
    symbolic_hyperparams,
)

EXPLANATION = (
    "A property over call histories whose mechanism is who writes what and what is refreshed before it is read - decided by effect "
    "analysis over the class hierarchy and by the symbolic executor: (a) HP-FROZEN - in every estimator class each constructor "
    "parameter is stored verbatim in __init__ (self.q = q: clone/set_params == fresh construction under the sktime model) and is "
    "written nowhere else in the class's methods, and the scorers derived from them by the to_* helpers are the same object or an "
    "adapter on that very object, never a copy (C06.c re-run here: nested set_params reach the object in use); (b) REFIT-BEFORE-EVALUATE - on every path of every detection driver each "
    "scorer.evaluate is preceded by a fit of the same object on the current X (the evaluate atoms carry the data they were fitted "
    "on); (c) NO-STALE-READ - predict/transform paths read only hyper-parameters, constructor-derived attributes, attributes "
    "written on the fit path and what they wrote earlier themselves; they write nothing but the published `scores`; a read of "
    "`scores` is dominated by its recomputation; scorers' evaluate paths write no attribute; (d) NO-ARG-MUTATION - no store into "
    "an array the code did not allocate (views of X / cuts / fitted fields included, augmented assignment on arrays included) in "
    "drivers, scorers' fit/evaluate and detectors' fit/predict; (e) UPDATE-IS-REFIT - update stores X.combine_first(_X) and reaches "
    "_fit(self._X, self._y); no detector overrides _update without that; (f) OWNED-FITTED-STATE - the one estimator whose predict consumes "
    "a held estimator's fit-time state without refitting it (StatThresholdAnomaliser.change_detector_) owns an sktime clone of the "
    "user's detector and never calls the user's object (C17.a re-run under this id); scorers held by reference are safe by (b). "
    "Owned clones inside the cost adapters are decided under C06. NOT decided: "
    "sktime's clone/reset/set_params themselves (external model), numerical equality of combine_first+fit with fit on a "
    "concatenated frame (pandas)."
)
# obligations added during the build phase (seeding rounds, twins, mutation analysis)
ADDED_IN_BUILD = ' Also: (b) the minimum size of a scorer is never read before the scorer was fitted on the current data; the cost adapters are run with a history (fit on other data, evaluate, fit on X) and their value must be the defining cost differences on the CURRENT data (C06.a re-run); (a) no set_params / reset / attribute store on an object the user handed in as a hyper-parameter (adapters with and without a fixed parameter, all detectors; arbitrary user objects); (e) fit_predict / fit_transform are fit(X, y) followed by predict / transform of the same X; (g) FIT-ALWAYS-FITS - in both base-class fit wrappers every returning path stores the data, runs _fit on the (normalised) argument and sets _is_fitted (must-pass-through over the statement tree: no shortcut on object identity). (h) NO-PROCESS-STATE over every function of the package: no mutable default changed in place, no module-level object changed from a function, no memoising decorator. FIT-ALWAYS-FITS unfitted-first (F-27): the scorers\' fit marks the object unfitted before it stores the data and runs _fit; fit_predict / fit_transform that run _fit themselves must store the data. (h) also covers mutable objects created in a class body and changed in place through self / cls. (g) _X-container: BaseDetector.fit stores the validated argument itself.'
ADDED_IN_ROUND_9 = ' Round 9 (F-31): HP-FROZEN ctor-snapshot - __init__ takes no copy (clone / copy / deepcopy) of a component hyper-parameter: sktime applies nested parameters (set_params(cost__param=...)) after reset() has re-run __init__, so such a copy keeps the old nested parameters. Accepted: a copy whose every constructor parameter - of every class the component may have, read from the annotation and the class hierarchy - is overridden on the spot or through the name it is bound to (Saving: clone().set_params(param=None)).'
EXPLANATION = EXPLANATION + ADDED_IN_BUILD + ADDED_IN_ROUND_9

ASSUMPTIONS = [
    "Python's ast module; attribute effects are collected syntactically on `self` (no setattr/__dict__ tricks - their presence is reported)",
    "sktime BaseEstimator model: clone() == type(self)(**get_params()), set_params re-runs __init__, get_params reads attributes named like __init__ parameters",
    "library model table skverif/models.py (which numpy/pandas operations return views, which copies)",
]
BASE_FITTED = {"_X", "_y", "_is_fitted"}
TAG_ATTRS = {"task", "learning_type"}


def check(ctx):
    det_base = ctx.P.cls("skchange.base.base_detector.BaseDetector")
    sc_base = ctx.P.cls("skchange.base.base_interval_scorer.BaseIntervalScorer")
    estimators = ctx.P.subclasses(det_base) + ctx.P.subclasses(sc_base)
    for c in estimators:
        ctx.guard("C10.a HP-FROZEN", c.name, lambda c=c: check_frozen(ctx, c), c.module.relpath)
        ctx.guard("C10.a HP-FROZEN", c.name + "|ctor-snapshot", lambda c=c: check_ctor_snapshot(ctx, c), c.module.relpath)
    for c in ctx.P.subclasses(det_base, strict=True):
        if c.name in ("ChangeDetector", "CollectiveAnomalyDetector", "SubsetCollectiveAnomalyDetector"):
            continue
        ctx.guard("C10.c NO-STALE-READ", c.name, lambda c=c: check_stale_detector(ctx, c), c.module.relpath)
    for c in ctx.P.subclasses(sc_base, strict=True):
        ctx.guard("C10.c NO-STALE-READ", c.name, lambda c=c: check_stale_scorer(ctx, c), c.module.relpath)
    ctx.guard("C10.b REFIT-BEFORE-EVALUATE", "drivers", lambda: check_refit_and_mutation(ctx))
    ctx.guard("C10.d NO-ARG-MUTATION", "scorers", lambda: check_scorer_mutation(ctx))
    ctx.guard("C10.d NO-ARG-MUTATION", "costs-fixed", lambda: check_cost_fixed_mutation(ctx))
    ctx.guard("C10.d NO-ARG-MUTATION", "detectors", lambda: check_detector_mutation(ctx))
    ctx.guard("C10.e UPDATE-IS-REFIT", "update", lambda: check_update(ctx, det_base))
    ctx.guard("C10.f OWNED-FITTED-STATE", "anomaliser", lambda: owned_fitted_state(ctx))
    ctx.guard("C10.e UPDATE-IS-REFIT", "fit_predict", lambda: fit_then(ctx, det_base))
    ctx.guard("C10.a HP-FROZEN", "derived-scorers", lambda: derived_alias(ctx))
    ctx.guard("C10.g FIT-ALWAYS-FITS", "wrappers", lambda: fit_always_fits(ctx, det_base, sc_base))
    ctx.guard("C10.g FIT-ALWAYS-FITS", "failed-refit", lambda: failed_refit_leaves_unfitted(ctx, sc_base))
    ctx.guard("C10.b REFIT-BEFORE-EVALUATE", "adapters-with-history", lambda: shared_adapter_history(ctx))
    ctx.guard("C10.a HP-FROZEN", "user-objects", lambda: user_objects_not_reconfigured(ctx))
    ctx.guard("C10.h NO-PROCESS-STATE", "package", lambda: no_process_state(ctx))
    ctx.expect_min("C10.a HP-FROZEN", sum(1 for o in ctx.obs if o.rule == "C10.a HP-FROZEN" and o.status == "HOLDS"), 15)
    ctx.expect_min("C10.b REFIT-BEFORE-EVALUATE", sum(1 for o in ctx.obs if o.rule == "C10.b REFIT-BEFORE-EVALUATE" and o.status == "HOLDS"), 6)


def user_objects_not_reconfigured(ctx):
    """A scorer / detector object handed in as a hyper-parameter stays as the user configured it: nothing on the
    construct - fit - evaluate / predict path calls set_params / reset on it or stores into its attributes (fitting it is
    by design: it is refitted on every use).  An adapter that needs another configuration works on a clone
    (`baseline_cost.clone().set_params(param=None)` in Saving).  The user's object is an arbitrary object of the base class
    (abstract), once with a fixed parameter and once without."""
    rule = "C10.a HP-FROZEN"
    from . import c06, c15
    from .common import call_method as _cm, frame_sym as _fs, symbolic_hyperparams as _sh

    def report(name, paths, is_user, loc):
        bad = {}
        for p in paths:
            for e in getattr(p, "events", []):
                if e.kind in ("set_params", "attr_store") and isinstance(e.data.get("obj"), ObjV) and is_user(e.data["obj"]):
                    what = "set_params" if e.kind == "set_params" else f"attribute store .{e.data.get('attr')}"
                    bad.setdefault((e.loc(), what), e)
                if e.kind == "abstract_call" and e.data.get("method") in ("reset", "set_tags", "set_config") and isinstance(e.data.get("obj"), ObjV) and is_user(e.data["obj"]):
                    bad.setdefault((e.loc(), e.data["method"]), e)
        for (l, what), e in bad.items():
            ctx.violation(rule, f"{name}|user-object|{what}", l, "the object the user passed as a hyper-parameter is re-configured (its own hyper-parameters change under the user's feet, and for every other estimator sharing it)", found=norm_src(e.node)[:100] if e.node is not None else what, expected="work on a clone: obj.clone().set_params(...)")
        if not bad:
            ctx.holds(rule, f"{name}|user-object", loc, f"no set_params / reset / attribute store on the user's object on {len(paths)} paths")

    for modattr, width in ((("skchange.change_scores", "ChangeScore"), 3), (("skchange.anomaly_scores", "Saving"), 2), (("skchange.anomaly_scores", "LocalAnomalyScore"), 4)):
        for cp in ("none", "fixed"):
            try:
                cls, ex, paths, st = c06._adapter(ctx, modattr, width, cp)
            except Undecided as u:
                # the scenario's tail may leave the analysed subset (e.g. a Saving around a cost without a fixed
                # parameter raises in __init__); what was observed before still counts
                paths = []
                ev = getattr(u, "partial_events", [])
                if ev:
                    class _P:  # noqa: N801
                        events = ev
                    paths = [_P()]
                cls = ctx.P.public_class(*modattr)
            report(f"{modattr[1]}[param={cp}]", paths, lambda o: o.key == "cost", cls.module.relpath)
    for pkg, name, _ in DRIVER_ENTRIES:
        cls = ctx.P.public_class(pkg, name)
        ov = c15._abstract_scorer_overrides(ctx, cls)
        if not ov:
            continue
        ex = new_executor(ctx, dict(ABSTRACT_SUMMARIES), max_paths=300)

        def thunk(ex, cls=cls, ov=ov):
            kw = _sh(ex, ctx.P, cls, ov)
            obj = ex.new_object(cls, [], kw)
            _cm(ex, obj, "fit", _fs(ex))
            return obj

        try:
            paths = run(ctx, ex, thunk)
        except Undecided:
            continue
        report(name, paths, lambda o: o.key.startswith("user_"), cls.module.relpath)


def shared_adapter_history(ctx):
    """The cost-based adapters (ChangeScore, Saving, LocalAnomalyScore) refit every wrapped cost on the data of the
    CURRENT fit: the C06.a NF-ADAPTER scenarios give each adapter a history (fit on other data, evaluate, fit on X) and
    compare its value with the defining cost differences *on the currently fitted data* - an inner `fit` skipped
    because the wrapped cost 'is fitted already' leaves the sums of the earlier data in place.  Re-run under the C10
    id."""
    from . import c06

    before = len(ctx.obs)
    mins = dict(ctx.mins)
    try:
        c06.check(ctx)
    except Undecided as u:
        ctx.undecided("C10.b REFIT-BEFORE-EVALUATE", "adapters-with-history", "", str(u))
    ctx.mins = mins
    kept = []
    for o in ctx.obs[before:]:
        if o.status == "UNDECIDED" and o.key == "instance-count":
            continue
        if ("NF-ADAPTER" in o.rule and o.key.endswith("|value")) or ("NF-ADAPTER" in o.rule and o.status == "UNDECIDED"):
            o.rule = f"C10.b REFIT-BEFORE-EVALUATE ({o.rule})"
            kept.append(o)
    ctx.obs[before:] = kept


def _pass_through(stmts, hit):
    """Must-pass-through over the statement tree.  CALLED: every path that leaves this block (falling through or
    returning) has executed a statement satisfying `hit`; OPEN: paths fall through without it, none has returned
    without it; BAD (node): some path returns without it.  Raising paths produce no result and are vacuous."""
    state = "OPEN"
    for st in stmts:
        if isinstance(st, (ast.Expr, ast.Assign, ast.AugAssign, ast.AnnAssign, ast.Return)) and hit(st):
            return "CALLED", None
        if isinstance(st, ast.Return):
            return "BAD", st
        if isinstance(st, ast.Raise):
            return "CALLED", None
        if isinstance(st, ast.If) and isinstance(st.test, ast.Constant):
            # `if True:` / `if False:` / `if 0:`: only one arm exists
            a, na = _pass_through(st.body if st.test.value else st.orelse, hit)
            if a != "OPEN":
                return a, na
            continue
        if isinstance(st, ast.If):
            a, na = _pass_through(st.body, hit)
            b, nb = _pass_through(st.orelse, hit)
            if a == "BAD":
                return a, na
            if b == "BAD":
                return b, nb
            if a == "CALLED" and b == "CALLED":
                return "CALLED", None
        elif isinstance(st, (ast.For, ast.While)):
            a, na = _pass_through(st.body + st.orelse, hit)
            if a == "BAD":
                return a, na
        elif isinstance(st, ast.With):
            a, na = _pass_through(st.body, hit)
            if a != "OPEN":
                return a, na
        elif isinstance(st, ast.Try):
            a, na = _pass_through(st.body + st.orelse, hit)
            if a == "BAD":
                return a, na
            hs = [_pass_through(h.body, hit) for h in st.handlers]
            for h, nh in hs:
                if h == "BAD":
                    return h, nh
            f, nf_ = _pass_through(st.finalbody, hit)
            if f != "OPEN":
                return f, nf_
            if a == "CALLED" and all(h == "CALLED" for h, _ in hs):
                return "CALLED", None
    return state, None


def _dominated_by(stmts, hit, target, called=False):
    """True / False: on every path from the start of `stmts` to the statement holding the node `target`, a statement
    satisfying `hit` has been executed.  None: the target is not in these statements."""

    def holds(st):
        return any(x is target for x in ast.walk(st))

    for st in stmts:
        if holds(st):
            if isinstance(st, ast.If):
                if any(x is target for x in ast.walk(st.test)):
                    return called
                for blk in (st.body, st.orelse):
                    r = _dominated_by(blk, hit, target, called)
                    if r is not None:
                        return r
                return called
            if isinstance(st, (ast.For, ast.While)):
                r = _dominated_by(st.body, hit, target, called)
                if r is None:
                    r = _dominated_by(st.orelse, hit, target, called)
                return called if r is None else r
            if isinstance(st, ast.With):
                r = _dominated_by(st.body, hit, target, called)
                return called if r is None else r
            if isinstance(st, ast.Try):
                r = _dominated_by(st.body, hit, target, called)
                if r is not None:
                    return r
                for h in st.handlers:
                    r = _dominated_by(h.body, hit, target, called)  # the body may not have got to its refresh
                    if r is not None:
                        return r
                body_calls = _pass_through(st.body, hit)[0] == "CALLED"
                r = _dominated_by(st.orelse, hit, target, called or body_calls)
                if r is not None:
                    return r
                r = _dominated_by(st.finalbody, hit, target, called)
                return called if r is None else r
            return called  # a simple statement: what ran before it counts
        if isinstance(st, (ast.Expr, ast.Assign, ast.AugAssign, ast.AnnAssign)):
            if hit(st):
                called = True
        elif isinstance(st, (ast.If, ast.With, ast.Try, ast.For, ast.While)):
            if _pass_through([st], hit)[0] == "CALLED":
                called = True
    return None


def fit_always_fits(ctx, det_base, sc_base):
    """The public fit of both base classes stores the data it was given and runs the subclass's `_fit` on EVERY path
    that returns: no shortcut (same object as last time, already fitted, cached digest) leaves the state of an earlier
    fit in place.  The object identity / a cheap digest of the argument says nothing about its contents."""
    rule = "C10.g FIT-ALWAYS-FITS"
    for cls in (det_base, sc_base):
        f = cls.methods.get("fit")
        if f is None:
            ctx.undecided(rule, f"{cls.name}.fit", cls.module.relpath, "the base class has no fit method")
            continue
        me = self_name(f)
        xarg = f.params[1] if len(f.params) > 1 else "X"

        def calls_fit(st, me=me):
            for x in ast.walk(st):
                if isinstance(x, ast.Call) and isinstance(x.func, ast.Attribute) and isinstance(x.func.value, ast.Name) and x.func.value.id == me and x.func.attr == "_fit":
                    # not inside a conditional expression / short-circuit / comprehension
                    return not any(isinstance(y, (ast.IfExp, ast.BoolOp, ast.ListComp, ast.GeneratorExp, ast.Lambda)) and any(z is x for z in ast.walk(y)) for y in ast.walk(st))
            return False

        def stores_x(st, me=me):
            if isinstance(st, ast.Assign):
                return any(isinstance(t, ast.Attribute) and isinstance(t.value, ast.Name) and t.value.id == me and t.attr == "_X" for t in st.targets)
            return False

        def marks_fitted(st, me=me):
            if isinstance(st, ast.Assign) and isinstance(st.value, ast.Constant) and st.value.value is True:
                return any(isinstance(t, ast.Attribute) and isinstance(t.value, ast.Name) and t.value.id == me and t.attr == "_is_fitted" for t in st.targets)
            return False

        for what, hit, txt in (("_fit", calls_fit, "runs self._fit"), ("_X", stores_x, "stores the data in self._X"), ("_is_fitted", marks_fitted, "sets self._is_fitted = True")):
            st, node = _pass_through(f.node.body, hit)
            ctx.check(st == "CALLED", rule, f"{cls.name}.fit|{what}", f.loc(node) if node is not None else f.loc(), f"every returning path of {cls.name}.fit {txt}: a second fit can never leave the state of the first in place", found=("a path returns before it: " + norm_src(node)) if node is not None else ("no such statement on the fall-through path" if st != "CALLED" else "on every path"))
        # what is stored is the validated argument ITSELF: update() merges the next batch with self._X container to container
        # (X.combine_first(self._X)); a stored copy of another container kind (pd.DataFrame(X), X.values) makes the merge
        # fail or differ for the containers that are not of that kind (a Series batch against a stored frame)
        if cls is det_base:
            for st_ in ast.walk(f.node):
                if isinstance(st_, ast.Assign) and any(isinstance(t, ast.Attribute) and isinstance(t.value, ast.Name) and t.value.id == me and t.attr == "_X" for t in st_.targets):
                    v_ = st_.value
                    hops_ = 0
                    while isinstance(v_, ast.Name) and v_.id != xarg and hops_ < 4:
                        # a local that holds the validated argument
                        defs_ = [n.value for n in ast.walk(f.node) if isinstance(n, ast.Assign) and len(n.targets) == 1 and isinstance(n.targets[0], ast.Name) and n.targets[0].id == v_.id]
                        if len(defs_) != 1:
                            break
                        v_ = defs_[0]
                        hops_ += 1
                    if isinstance(v_, ast.Name) and v_.id == xarg:
                        ctx.holds(rule, f"{cls.name}.fit|_X-container", f.loc(st_), "fit stores the validated argument itself (the container kind update() will merge with)")
                    else:
                        txt_ = norm_src(v_)
                        conv = any(w in txt_ for w in ("pd.DataFrame(", "pd.Series(", "np.asarray(", "np.array(", ".values", ".to_numpy(", ".to_frame("))
                        if conv:
                            ctx.violation(rule, f"{cls.name}.fit|_X-container", f.loc(st_), "fit stores a CONVERTED copy of the data: update() merges the next batch with it container to container, so a batch of the original kind (a Series against a stored frame) fails or is aligned differently", found=f"self._X = {txt_[:60]}", expected=f"self._X = {xarg}")
                        else:
                            ctx.undecided(rule, f"{cls.name}.fit|_X-container", f.loc(st_), "what fit stores in self._X is not the validated argument itself: not decided", found=f"self._X = {txt_[:60]}")
        # the data handed to _fit are the argument (after normalisation), not the stored attribute of an earlier call
        for x in ast.walk(f.node):
            if isinstance(x, ast.Call) and isinstance(x.func, ast.Attribute) and x.func.attr == "_fit" and isinstance(x.func.value, ast.Name) and x.func.value.id == me:
                a0 = x.args[0] if x.args else next((k.value for k in x.keywords if k.arg == "X"), None)
                ok = isinstance(a0, ast.Name) and a0.id == xarg or (isinstance(a0, ast.Attribute) and a0.attr == "_X" and _pass_through(f.node.body, stores_x)[0] == "CALLED")
                ctx.check(ok, rule, f"{cls.name}.fit|_fit-argument", f.loc(x), "self._fit receives the (normalised) argument of this call", found=norm_src(x))


def _unconditional(stmts):
    """the statements of a block that run on every execution of it, in order, looking through wrappers that do not
    branch (with, try body, `if <constant>`); stops at the first statement that may leave or split the flow"""
    for st in stmts:
        if isinstance(st, ast.With):
            yield from _unconditional(st.body)
        elif isinstance(st, ast.Try):
            yield from _unconditional(st.body)
        elif isinstance(st, ast.If) and isinstance(st.test, ast.Constant):
            yield from _unconditional(st.body if st.test.value else st.orelse)
        else:
            yield st


def failed_refit_leaves_unfitted(ctx, sc_base):
    """F-27.  `evaluate` range-checks the cuts against the data stored by the LATEST call of fit and scores them on what
    `_fit` precomputed.  If a refit raises inside `_fit` (a fixed parameter that does not match the new width, say), the
    two disagree unless the scorer was marked unfitted first: valid-looking cuts are scored on the OLD data, larger ones
    end in an IndexError.  Obligation: in the scorers' public fit, `self._is_fitted = False` runs unconditionally before
    the data are stored and before `_fit` is called."""
    rule = "C10.g FIT-ALWAYS-FITS"
    f = sc_base.methods.get("fit")
    if f is None:
        ctx.undecided(rule, f"{sc_base.name}.fit|unfitted-first", sc_base.module.relpath, "the base class has no fit method")
        return
    me = self_name(f)

    def is_store(st, attr, const=None):
        if not isinstance(st, ast.Assign):
            return False
        if const is not None and not (isinstance(st.value, ast.Constant) and st.value.value is const):
            return False
        return any(isinstance(t, ast.Attribute) and isinstance(t.value, ast.Name) and t.value.id == me and t.attr == attr for t in st.targets)

    def touches_state(st):
        if is_store(st, "_X"):
            return True
        return any(isinstance(x, ast.Call) and isinstance(x.func, ast.Attribute) and isinstance(x.func.value, ast.Name) and x.func.value.id == me and x.func.attr in ("_fit",) for x in ast.walk(st))

    seq = list(_unconditional(f.node.body))
    first_touch = next((i for i, st in enumerate(seq) if touches_state(st)), None)
    reset = next((i for i, st in enumerate(seq) if is_store(st, "_is_fitted", False) or (isinstance(st, ast.Expr) and isinstance(st.value, ast.Call) and isinstance(st.value.func, ast.Attribute) and st.value.func.attr == "reset" and isinstance(st.value.func.value, ast.Name) and st.value.func.value.id == me)), None)
    if reset is None or (first_touch is not None and reset > first_touch):
        # ... or a private helper of the class that does the reset, called unconditionally before the first touch
        for i, st in enumerate(seq[: first_touch if first_touch is not None else len(seq)]):
            if isinstance(st, ast.Expr) and isinstance(st.value, ast.Call) and isinstance(st.value.func, ast.Attribute) and isinstance(st.value.func.value, ast.Name) and st.value.func.value.id == me:
                h = ctx.P.lookup_method(sc_base, st.value.func.attr)
                if h is not None:
                    hme = self_name(h)
                    if any(isinstance(x, ast.Assign) and isinstance(x.value, ast.Constant) and x.value.value is False and any(isinstance(t, ast.Attribute) and isinstance(t.value, ast.Name) and t.value.id == hme and t.attr == "_is_fitted" for t in x.targets) for x in _unconditional(h.node.body)):
                        reset = i
                        break
    if first_touch is None:
        ctx.undecided(rule, f"{sc_base.name}.fit|unfitted-first", f.loc(), "no unconditional statement of fit stores the data or calls _fit (unrecognised shape of fit)")
        return
    ok = reset is not None and reset < first_touch
    ctx.check(ok, rule, f"{sc_base.name}.fit|unfitted-first", f.loc(seq[first_touch]), "the scorer is marked unfitted before the new data are stored and _fit runs: a refit that raises cannot leave the precomputed state of an earlier fit usable next to the new data (evaluate would range-check against one and score on the other)", found=("self._is_fitted = False first" if ok else "the data are stored / _fit is called while _is_fitted may still be True from an earlier fit"), expected="self._is_fitted = False before self._X = X and self._fit(...)")


def fit_then(ctx, det_base):
    """fit_predict(X, y) and fit_transform(X, y) are fit(X, y) followed by predict(X) / transform(X) on the same object:
    the convenience entry points give what the two-step history gives (syntactic: one return statement each)."""
    rule = "C10.e UPDATE-IS-REFIT"
    for name, then in (("fit_predict", "predict"), ("fit_transform", "transform")):
        f = ctx.P.lookup_method(det_base, name)
        if f is None:
            ctx.undecided(rule, name, det_base.module.relpath, f"{name} not found")
            continue
        sn = self_name(f)
        params = [a.arg for a in f.node.args.args][1:]
        fits = [n for n in ast.walk(f.node) if isinstance(n, ast.Call) and isinstance(n.func, ast.Attribute) and n.func.attr == "fit" and isinstance(n.func.value, ast.Name) and n.func.value.id == sn]
        from .common import return_exprs

        thens = [v_ for v_ in return_exprs(f) if isinstance(v_, ast.Call) and isinstance(v_.func, ast.Attribute) and v_.func.attr == then]
        if len(fits) != 1 or len(thens) != 1:
            # a convenience entry point that goes to the core methods itself: it is a fit path of its own and owes what
            # the public fit owes - in particular it records the data (update merges the new batch with self._X)
            core = [n for n in ast.walk(f.node) if isinstance(n, ast.Call) and isinstance(n.func, ast.Attribute) and n.func.attr == "_fit" and isinstance(n.func.value, ast.Name) and n.func.value.id == sn]
            if not fits and core:
                def stores_x(st, me=sn):
                    return isinstance(st, ast.Assign) and any(isinstance(t, ast.Attribute) and isinstance(t.value, ast.Name) and t.value.id == me and t.attr == "_X" for t in st.targets)

                st_, node_ = _pass_through(f.node.body, stores_x)
                if st_ != "CALLED":
                    ctx.violation(rule, name, f.loc(core[0]), f"{name} runs self._fit itself instead of self.fit and never stores the data in self._X: a later update() merges the new batch with the data of an EARLIER fit (or with None), so the refit depends on the history before this call", found=f"self._fit(...) without self._X = ... in {name}", expected=f"self.fit(X, y).{then}(X)")
                    continue
            ctx.undecided(rule, name, f.loc(), f"{name} is not one self.fit(...) followed by one returned .{then}(...) ({len(fits)} fits, {len(thens)} returns)")
            continue
        fa = [ast.unparse(a_) for a_ in fits[0].args] + [f"{k.arg}={ast.unparse(k.value)}" for k in fits[0].keywords]
        ta = [ast.unparse(a_) for a_ in thens[0].args] + [f"{k.arg}={ast.unparse(k.value)}" for k in thens[0].keywords]
        found = f"self.fit({', '.join(fa)}) ... .{then}({', '.join(ta)})"
        okf = fa in (["X", "y"], ["X", "y=y"], ["X=X", "y=y"], ["X"], ["X=X"])
        okt = ta in (["X"], ["X=X"])
        # the fit precedes the returned call
        okorder = (fits[0].lineno, fits[0].col_offset) <= (thens[0].lineno, thens[0].col_offset) or any(x is fits[0] for x in ast.walk(thens[0]))
        ok = okf and okt and okorder
        ctx.check(ok, rule, name, f.loc(), f"{name}(X, y) == fit(X, y).{then}(X)", found=found, expected=f"self.fit(X, y).{then}(X)")
        # no detector overrides the convenience entry points
        for c in ctx.P.subclasses(det_base, strict=True):
            if name in c.methods:
                ctx.violation(rule, f"{c.name}|{name}-override", c.methods[name].loc(), f"a detector overrides {name}(): it may differ from fit followed by {then}")


def derived_alias(ctx):
    """The scorers a detector derives from its hyper-parameters in __init__ (to_change_score / to_saving /
    to_local_anomaly_score) are the user's object itself or an adapter built on that very object - never a copy: nested
    set_params(<scorer>__<param>=...) and get_params() then talk about the object the detector really uses.  The C06.c
    PASS-THROUGH obligations, re-run under the C10 id."""
    from . import c06

    before = len(ctx.obs)
    c06.check_passthrough(ctx)
    for o in ctx.obs[before:]:
        if "PASS-THROUGH" in o.rule:
            o.rule = f"C10.a HP-FROZEN ({o.rule})"


def owned_fitted_state(ctx):
    """An estimator whose predict consumes the fit-time state of a *held* estimator without refitting it in the same call
    (the scorers of the drivers are refitted: rule b) must own that object: the C17 CLONE-DISCIPLINE obligations, re-run under
    the C10 id - the only such holder in the repository is StatThresholdAnomaliser.change_detector_."""
    from . import c17

    before = len(ctx.obs)
    mins = dict(ctx.mins)
    try:
        c17.check(ctx)
    except Undecided as u:
        ctx.undecided("C10.f OWNED-FITTED-STATE", "anomaliser", "", str(u))
    ctx.mins = mins
    kept = []
    for o in ctx.obs[before:]:
        if o.status == "UNDECIDED" and o.key == "instance-count":
            continue
        if "CLONE-DISCIPLINE" in o.rule or o.status == "UNDECIDED":
            o.rule = f"C10.f OWNED-FITTED-STATE ({o.rule})"
            kept.append(o)
    ctx.obs[before:] = kept
    ctx.expect_min("C10.f OWNED-FITTED-STATE", len(kept), 2)


# ---------------------------------------------------------------- effect facts


def self_name(f: FuncInfo):
    return f.params[0] if f.params and not f.is_static else None


def attr_stores(f: FuncInfo):
    """(attr, node, rhs) for every store to self.<attr> in f (assign, augassign, tuple targets)"""
    s = self_name(f)
    out = []
    if s is None:
        return out
    for n in ast.walk(f.node):
        targets = []
        rhs = None
        if isinstance(n, ast.Assign):
            targets, rhs = n.targets, n.value
        elif isinstance(n, (ast.AugAssign, ast.AnnAssign)):
            targets, rhs = [n.target], n.value
        elif isinstance(n, (ast.For,)):
            targets = [n.target]
        elif isinstance(n, ast.Delete):
            targets = n.targets
        for t in targets:
            for x in ast.walk(t):
                if isinstance(x, ast.Attribute) and isinstance(x.value, ast.Name) and x.value.id == s and isinstance(x.ctx, (ast.Store, ast.Del)):
                    out.append((x.attr, n, rhs))
        if isinstance(n, ast.Call) and isinstance(n.func, ast.Name) and n.func.id in ("setattr", "delattr") and n.args and isinstance(n.args[0], ast.Name) and n.args[0].id == s:
            nm = n.args[1].value if len(n.args) > 1 and isinstance(n.args[1], ast.Constant) else "<dynamic>"
            out.append((nm, n, None))
        if isinstance(n, ast.Attribute) and n.attr == "__dict__" and isinstance(n.value, ast.Name) and n.value.id == s:
            out.append(("<__dict__>", n, None))
    return out


def attr_loads(f: FuncInfo):
    s = self_name(f)
    out = []
    if s is None:
        return out
    for n in ast.walk(f.node):
        if isinstance(n, ast.Attribute) and isinstance(n.value, ast.Name) and n.value.id == s and isinstance(n.ctx, ast.Load):
            out.append((n.attr, n))
    return out


def self_calls(f: FuncInfo):
    s = self_name(f)
    out = []
    if s is None:
        return out
    for n in ast.walk(f.node):
        if isinstance(n, ast.Call) and isinstance(n.func, ast.Attribute) and isinstance(n.func.value, ast.Name) and n.func.value.id == s:
            out.append((n.func.attr, n))
    return out


def closure(ctx, cls: ClassInfo, roots):
    """methods of cls (through the MRO) reachable from the root method names via self.m() calls"""
    seen = {}
    work = list(roots)
    while work:
        m = work.pop()
        if m in seen:
            continue
        f = ctx.P.lookup_method(cls, m)
        if f is None:
            continue
        seen[m] = f
        for nm, _ in self_calls(f):
            if nm not in seen:
                work.append(nm)
        # property reads count as calls
        for nm, _ in attr_loads(f):
            g = ctx.P.lookup_method(cls, nm)
            if g is not None and g.is_property and nm not in seen:
                work.append(nm)
    return seen


def init_params(ctx, cls):
    init = ctx.P.lookup_method(cls, "__init__")
    if init is None:
        return None, []
    return init, init.params[1:]


def all_methods(ctx, cls):
    out = []
    for k in ctx.P.mro(cls):
        if isinstance(k, ClassInfo):
            out.extend(k.methods.values())
    return out


# ------------------------------------------------------------------ HP-FROZEN


def check_frozen(ctx, cls):
    rule = "C10.a HP-FROZEN"
    init, params = init_params(ctx, cls)
    if init is None:
        ctx.holds(rule, f"{cls.name}|no-init", cls.module.relpath, "no constructor of its own", nontrivial=False)
        return
    stores = attr_stores(init)
    for p in params:
        mine = [(n, rhs) for a, n, rhs in stores if a == p]
        verbatim = [1 for n, rhs in mine if isinstance(n, ast.Assign) and isinstance(rhs, ast.Name) and rhs.id == p]
        if init.cls is not None and init.cls.qualname != cls.qualname:
            continue  # inherited constructor: checked on the defining class
        # parameters forwarded to the base constructor (super().__init__(param)) are stored there
        forwarded = _forwarded_to_super(ctx, cls, init, p)
        ok = (len(mine) == 1 and len(verbatim) == 1) or (not mine and forwarded)
        ctx.check(ok, rule, f"{cls.name}|{p}|stored-verbatim", init.loc(mine[0][0]) if mine else init.loc(), f"__init__ stores the parameter verbatim (self.{p} = {p}) exactly once: get_params/clone/set_params reproduce the object", found=[norm_src(n) for n, _ in mine] or "never stored", expected=f"self.{p} = {p}")
    pset = set(params)
    bad = []
    for f in all_methods(ctx, cls):
        if f.name == "__init__":
            continue
        for a, n, rhs in attr_stores(f):
            if a in pset or a in ("<dynamic>", "<__dict__>"):
                bad.append((f, a, n))
    for f, a, n in bad:
        ctx.violation(rule, f"{cls.name}|{a}|written-in:{f.name}", f.loc(n), f"hyper-parameter attribute '{a}' is written outside __init__ (in {f.qualname.split('.')[-2]}.{f.name}): fit/predict change the configuration that get_params()/clone() report", found=norm_src(n))
    if not bad:
        ctx.holds(rule, f"{cls.name}|frozen", cls.module.relpath, f"none of the {len(all_methods(ctx, cls))} methods in the class hierarchy writes a hyper-parameter attribute ({', '.join(params) or 'no parameters'})")


def _annotation_classes(ctx, init, p):
    """the repository classes a constructor parameter may hold, read from its annotation (`cost: BaseCost`,
    `Union[BaseCost, BaseChangeScore]`, `Optional[...]`): the annotated bases with all their subclasses"""
    ann = None
    a = init.node.args
    for arg in list(a.posonlyargs) + list(a.args) + list(a.kwonlyargs):
        if arg.arg == p:
            ann = arg.annotation
    if ann is None:
        return None
    out = []
    for n in ast.walk(ann):
        nm = n.id if isinstance(n, ast.Name) else (n.attr if isinstance(n, ast.Attribute) else (n.value if isinstance(n, ast.Constant) and isinstance(n.value, str) else None))
        if not nm:
            continue
        for c in ctx.P.classes.values():
            if c.name == nm:
                out.extend(ctx.P.subclasses(c))
    return out or None


def check_ctor_snapshot(ctx, cls):
    """sktime applies nested parameters AFTER the constructor has run again: `set_params(cost__param=v)` calls `reset()`
    (which re-runs `__init__` with the component as it was) and only then `cost.set_params(param=v)`.  A copy of a component
    hyper-parameter taken in `__init__` (`self._x = cost.clone()`) therefore keeps the OLD nested parameters while
    get_params() reports the new ones: the object differs from a freshly constructed one (F-31).  Copies belong in
    `_fit`.  A copy whose every constructor parameter is overridden on the spot (`clone().set_params(param=None)` of a
    class whose only parameter is `param`) snapshots nothing that can change and is accepted."""
    rule = "C10.a HP-FROZEN"
    init, params = init_params(ctx, cls)
    if init is None or (init.cls is not None and init.cls.qualname != cls.qualname):
        return
    me = self_name(init)
    alias = {p: p for p in params}
    for n in ast.walk(init.node):
        if isinstance(n, ast.Assign) and len(n.targets) == 1 and isinstance(n.targets[0], ast.Name):
            v = n.value
            if isinstance(v, ast.Name) and v.id in alias:
                alias[n.targets[0].id] = alias[v.id]
            elif isinstance(v, ast.Attribute) and isinstance(v.value, ast.Name) and v.value.id == me and v.attr in params:
                alias[n.targets[0].id] = v.attr

    def component(e):
        if isinstance(e, ast.Name) and e.id in alias:
            return alias[e.id]
        if isinstance(e, ast.Attribute) and isinstance(e.value, ast.Name) and e.value.id == me and e.attr in params:
            return e.attr
        return None

    parents = {}
    for n in ast.walk(init.node):
        for ch in ast.iter_child_nodes(n):
            parents[id(ch)] = n
    found = 0
    for n in ast.walk(init.node):
        if not (isinstance(n, ast.Call) and isinstance(n.func, ast.Attribute) and n.func.attr in ("clone", "copy", "deepcopy", "__copy__", "__deepcopy__") or (isinstance(n, ast.Call) and ast.unparse(n.func) in ("copy.copy", "copy.deepcopy", "deepcopy", "clone") and n.args)):
            continue
        recv = n.func.value if isinstance(n.func, ast.Attribute) and n.func.attr in ("clone", "copy", "deepcopy", "__copy__", "__deepcopy__") and not (isinstance(n.func.value, ast.Name) and n.func.value.id == "copy") else (n.args[0] if n.args else None)
        comp = component(recv) if recv is not None else None
        if comp is None:
            continue
        found += 1
        # overridden on the spot?
        over = set()
        par = parents.get(id(n))
        if isinstance(par, ast.Attribute) and par.attr == "set_params" and isinstance(parents.get(id(par)), ast.Call):
            call = parents[id(par)]
            if not any(k.arg is None for k in call.keywords):
                over = {k.arg for k in call.keywords}
        else:
            # the copy is bound to a local or to an attribute first and re-configured through that name in __init__:
            # `c = cost.clone(); self._c = c.set_params(param=None)` is the chained form in two statements
            tgt = None
            if isinstance(par, (ast.Assign, ast.AnnAssign)) and par.value is n:
                t0 = par.targets[0] if isinstance(par, ast.Assign) and len(par.targets) == 1 else (par.target if isinstance(par, ast.AnnAssign) else None)
                if isinstance(t0, (ast.Name, ast.Attribute)):
                    tgt = ast.unparse(t0)
            if tgt is not None:
                for m_ in ast.walk(init.node):
                    if isinstance(m_, ast.Call) and isinstance(m_.func, ast.Attribute) and m_.func.attr == "set_params" and ast.unparse(m_.func.value) == tgt and getattr(m_, "lineno", 0) >= getattr(n, "lineno", 0):
                        if not any(k.arg is None for k in m_.keywords):
                            over |= {k.arg for k in m_.keywords}
                            par = m_.func
        classes = _annotation_classes(ctx, init, comp)
        key = f"{cls.name}|{comp}|ctor-snapshot"
        msg = f"__init__ takes no copy of the component hyper-parameter '{comp}' that could go stale: nested set_params({comp}__<param>=...) is applied after __init__ has re-run, so a copy made here keeps the old nested parameters (copies belong in _fit)"
        if classes is None:
            if over:
                ctx.undecided(rule, key, init.loc(n), "a copy of a component is re-configured in __init__, but the classes the component may have are not annotated: cannot tell whether every parameter is overridden", found=norm_src(n))
            else:
                ctx.violation(rule, key, init.loc(n), msg, found=norm_src(parents.get(id(n), n))[:100], expected=f"self.{comp}.clone() in _fit")
            continue
        cparams = set()
        for c in classes:
            ci, cp = init_params(ctx, c)
            cparams |= set(cp)
        left = sorted(cparams - over)
        ctx.check(not left, rule, key, init.loc(n), msg, found=f"{norm_src(parents.get(id(par), n) if over else n)[:100]} leaves {left} of the copy as they were at construction" if left else f"every parameter of the copy ({sorted(cparams)}) is overridden on the spot", expected=f"self.{comp}.clone() in _fit")
    if not found:
        ctx.holds(rule, f"{cls.name}|ctor-snapshot", init.loc(), "__init__ takes no copy of a component hyper-parameter", nontrivial=False)


def _forwarded_to_super(ctx, cls, init, p):
    for n in ast.walk(init.node):
        if isinstance(n, ast.Call) and isinstance(n.func, ast.Attribute) and n.func.attr == "__init__" and isinstance(n.func.value, ast.Call) and isinstance(n.func.value.func, ast.Name) and n.func.value.func.id == "super":
            for a in list(n.args) + [k.value for k in n.keywords]:
                if isinstance(a, ast.Name) and a.id == p:
                    return True
    return False


# -------------------------------------------------------------- NO-STALE-READ


def _init_attrs(ctx, cls):
    out = set()
    for k in ctx.P.mro(cls):
        if isinstance(k, ClassInfo) and "__init__" in k.methods:
            out |= {a for a, _, _ in attr_stores(k.methods["__init__"])}
    return out


def _class_names(ctx, cls):
    names = set()
    for k in ctx.P.mro(cls):
        if isinstance(k, ClassInfo):
            names |= set(k.methods) | set(k.attrs)
    return names


EXTERNAL_OK = {"check_is_fitted", "clone", "set_params", "get_params", "reset", "get_class_tag", "get_tag", "get_tags", "is_fitted", "get_fitted_params", "_tags", "__class__"}


def check_stale_detector(ctx, cls):
    rule = "C10.c NO-STALE-READ"
    init, params = init_params(ctx, cls)
    fitc = closure(ctx, cls, ["_fit", "fit"])
    predc = closure(ctx, cls, ["_predict", "predict", "_transform_scores", "transform_scores", "transform"])
    w_fit = {a for f in fitc.values() for a, _, _ in attr_stores(f)}
    w_pred = [(f, a, n) for f in predc.values() for a, n, _ in attr_stores(f)]
    allowed_read = set(params) | _init_attrs(ctx, cls) | w_fit | BASE_FITTED | _class_names(ctx, cls) | EXTERNAL_OK | {a for _, a, _ in w_pred}
    bad_r = [(f, a, n) for f in predc.values() for a, n in attr_loads(f) if a not in allowed_read]
    for f, a, n in bad_r:
        ctx.violation(rule, f"{cls.name}|reads:{a}", f.loc(n), f"the predict path reads self.{a}, which is neither a hyper-parameter nor written by fit (stale state from another call)", found=norm_src(n))
    bad_w = [(f, a, n) for f, a, n in w_pred if a != "scores"]
    for f, a, n in bad_w:
        ctx.violation(rule, f"{cls.name}|writes:{a}", f.loc(n), f"the predict path writes self.{a}: later calls (and fitted state) depend on earlier predict calls", found=norm_src(n), expected="predict paths write only the published `scores`")
    # reads of the cache `scores` are dominated by its recomputation in the same method
    for f in predc.values():
        reads = [n for a, n in attr_loads(f) if a == "scores"]
        if not reads:
            continue
        first = min(reads, key=lambda r: r.lineno * 10000 + r.col_offset)
        me = self_name(f)

        def is_refresh(stmt, me=me):
            for x in ast.walk(stmt):
                if isinstance(x, ast.Attribute) and isinstance(x.value, ast.Name) and x.value.id == me and x.attr == "scores" and isinstance(x.ctx, ast.Store):
                    return True
                if isinstance(x, ast.Call) and isinstance(x.func, ast.Attribute) and isinstance(x.func.value, ast.Name) and x.func.value.id == me and x.func.attr in ("predict", "_predict", "transform_scores", "_transform_scores"):
                    return not any(isinstance(y, (ast.IfExp, ast.BoolOp, ast.ListComp, ast.GeneratorExp, ast.Lambda)) and any(z is x for z in ast.walk(y)) for y in ast.walk(stmt))
            return False

        # the recomputation must dominate the read: on every path from the entry of the method to the read
        refreshed = _dominated_by(f.node.body, is_refresh, first) is True
        ctx.check(refreshed, rule, f"{cls.name}|{f.name}|scores-refreshed", f.loc(reads[0]), "a read of the cached self.scores is preceded, in the same method, by recomputing it for the current input", found=norm_src(reads[0]))
    if not bad_r and not bad_w:
        ctx.holds(rule, f"{cls.name}", cls.module.relpath, f"predict/transform closure ({len(predc)} methods) reads only hyper-parameters, constructor attributes and fit results {sorted(w_fit - set(params))[:6]}; writes only `scores`")
    # fitted attributes are written only on fit / update paths
    updc = closure(ctx, cls, ["update", "_update"])
    for f in all_methods(ctx, cls):
        if f.name in fitc or f.name in updc or f.name == "__init__":
            continue
        for a, n, _ in attr_stores(f):
            if a.endswith("_") and not a.startswith("__"):
                ctx.violation(rule, f"{cls.name}|fitted-attr-outside-fit:{a}", f.loc(n), f"fitted attribute {a} is written outside the fit/update path (in {f.name})", found=norm_src(n))


def shared_no_stale(ctx, rule, pkg_names):
    """Re-run NO-STALE-READ for the named detectors under another property's rule id: the scores that property talks about
    (transform_scores) must be computed from the current input on every path, not read from an earlier call."""
    before = len(ctx.obs)
    for pkg, name in pkg_names:
        cls = ctx.P.public_class(pkg, name)
        ctx.guard(rule, name, lambda cls=cls: check_stale_detector(ctx, cls), cls.module.relpath)
    for o in ctx.obs[before:]:
        if o.rule == "C10.c NO-STALE-READ":
            o.rule = f"{rule} (C10.c NO-STALE-READ)"
    return len(ctx.obs) - before


def check_stale_scorer(ctx, cls):
    rule = "C10.c NO-STALE-READ"
    init, params = init_params(ctx, cls)
    fitc = closure(ctx, cls, ["_fit", "fit"])
    evc = closure(ctx, cls, ["evaluate", "_evaluate", "_check_cuts", "min_size"])
    w_fit = {a for f in fitc.values() for a, _, _ in attr_stores(f)}
    w_ev = [(f, a, n) for f in evc.values() for a, n, _ in attr_stores(f)]
    for f, a, n in w_ev:
        ctx.violation(rule, f"{cls.name}|evaluate-writes:{a}", f.loc(n), f"evaluate writes self.{a}: results depend on earlier evaluate calls", found=norm_src(n))
    allowed = set(params) | _init_attrs(ctx, cls) | w_fit | BASE_FITTED | _class_names(ctx, cls) | EXTERNAL_OK
    bad = [(f, a, n) for f in evc.values() for a, n in attr_loads(f) if a not in allowed]
    for f, a, n in bad:
        ctx.violation(rule, f"{cls.name}|evaluate-reads:{a}", f.loc(n), f"evaluate reads self.{a}, which is neither a hyper-parameter nor written by fit", found=norm_src(n))
    if not w_ev and not bad:
        ctx.holds(rule, f"{cls.name}", cls.module.relpath, f"evaluate closure ({len(evc)} methods) writes no attribute and reads only parameters and fit results {sorted(w_fit)[:6]}")


# ------------------------------------------- REFIT-BEFORE-EVALUATE / mutation


DRIVER_ENTRIES = [
    ("skchange.change_detectors", "PELT", "_predict"),
    ("skchange.change_detectors", "SeededBinarySegmentation", "_predict"),
    ("skchange.change_detectors", "MovingWindow", "_transform_scores"),
    ("skchange.anomaly_detectors", "CircularBinarySegmentation", "_predict"),
    ("skchange.anomaly_detectors", "CAPA", "_predict"),
    ("skchange.anomaly_detectors", "MVCAPA", "_predict"),
]


def check_refit_and_mutation(ctx):
    from .c03 import _pen_summary
    from .c12 import _scorer_base

    for pkg, name, meth in DRIVER_ENTRIES:
        cls = ctx.P.public_class(pkg, name)
        m = ctx.P.lookup_method(cls, meth)
        cands = find_driver_call(ctx, m)
        if len(cands) != 1:
            ctx.undecided("C10.b REFIT-BEFORE-EVALUATE", name, m.loc(), f"expected one driver call in {name}.{meth}, found {len(cands)}")
            continue
        call, drv = cands[0]

        def go(drv=drv, name=name):
            summ = dict(ABSTRACT_SUMMARIES)
            for f in ctx.P.functions.values():
                if __import__("skverif.rules.c03", fromlist=["is_penaliser"]).is_penaliser(f):
                    summ[f.qualname] = _pen_summary
            ex = new_executor(ctx, summ, max_paths=600)

            def thunk(ex):
                X = data_sym(ex)
                args = {}
                for a in drv.node.args.args:
                    p = a.arg
                    base = _scorer_base(ctx, drv, p)
                    ann = ast.unparse(a.annotation) if a.annotation is not None else ""
                    if p == "X":
                        args[p] = X
                    elif base is not None and "skchange" in base:
                        width = {"BaseCost": 2, "BaseSaving": 2, "BaseChangeScore": 3, "BaseLocalAnomalyScore": 4}.get(base.split(".")[-1], 2)
                        args[p] = abstract_scorer(ex, ctx.P, base, p, width=width)
                    elif ann == "str":
                        args[p] = StrV("sparse")
                    elif any(w in p for w in ("length", "bandwidth")):
                        args[p] = Num(sym(p), (), "int")
                    else:
                        args[p] = Num(sym(p), (), "float")
                return ex.call_function(drv, [], args, None, None)

            paths = run(ctx, ex, thunk)
            rets = returns(paths)
            if not rets:
                ctx.undecided("C10.b REFIT-BEFORE-EVALUATE", drv.name, drv.loc(), "driver never returns in the generic scenario", found=[(p.exc.exc_name) for p in paths if p.exc][:3])
                return
            bad = {}
            n_ev = 0
            for p in paths:
                for e in p.events:
                    if e.kind == "scorer_evaluate":
                        n_ev += 1
                        if e.data["fitted_on"] != "[X]/[1]":
                            bad.setdefault((e.loc(), e.data["obj"].key, e.data["fitted_on"]), e)
            n_ms = 0
            seen_ms = set()
            for p in paths:
                for e in p.events:
                    if e.kind == "scorer_min_size":
                        n_ms += 1
                        if e.data["fitted_on"] != "[X]/[1]" and (e.loc(), e.data["obj"].key) not in seen_ms:
                            seen_ms.add((e.loc(), e.data["obj"].key))
                            ctx.violation("C10.b REFIT-BEFORE-EVALUATE", f"{drv.name}|{e.data['obj'].key}|min_size", e.loc(), f"the minimum size of scorer '{e.data['obj'].key}' is read before the scorer has been fitted on the current input: for data-dependent sizes (p + 1 of a covariance cost) the value is that of whatever it was fitted on before", found=f"fitted on {e.data['fitted_on']}", expected="fit(X) of the same object dominates the read")
            for (loc, ok, fo), e in bad.items():
                ctx.violation("C10.b REFIT-BEFORE-EVALUATE", f"{drv.name}|{ok}", loc, f"scorer '{ok}' is evaluated without having been fitted on the current input on this path: the result depends on whatever it was fitted on before (earlier calls, other detectors sharing it)", found=f"fitted on {fo}", expected="fit(X) of the same object dominates evaluate")
            if not bad:
                ctx.holds("C10.b REFIT-BEFORE-EVALUATE", drv.name, drv.loc(), f"every scorer.evaluate on all {len(paths)} paths is dominated by fit(current X) of the same object ({n_ev} evaluate sites x paths)")
            _mutation_report(ctx, paths, drv.name, drv.loc())

        ctx.guard("C10.b REFIT-BEFORE-EVALUATE", drv.name, go, drv.loc())


def _mutation_report(ctx, paths, key, loc, after=None):
    rule = "C10.d NO-ARG-MUTATION"
    seen = {}
    for p in paths:
        evs = p.events if after is None else p.events[after.get(id(p), 0):]
        for e in evs:
            if e.kind in ("store_foreign", "array_mutate"):
                t = e.data.get("target")
                if e.kind == "array_mutate" and not (isinstance(t, Num) and _is_foreign_val(t)):
                    continue
                seen.setdefault(e.loc(), e)
    for l, e in seen.items():
        ctx.violation(rule, f"{key}|{norm_src(e.node)[:60]}", l, "a value that may alias the caller's data (an argument, a view of it, or a fitted field that aliases it) is modified in place", found=norm_src(e.node))
    if not seen:
        ctx.holds(rule, key, loc, f"no in-place store into an array the code did not allocate on {len(paths)} paths")


def _is_foreign_val(v):
    a = single_atom(v.nf) if v.nf is not None else None
    return bool(v.meta.get("foreign")) or (a is not None and a.kind == "sym")


def check_scorer_mutation(ctx):
    from .c13 import SCORERS, make_obj

    for pkg, name, width, inner in SCORERS:

        def go(pkg=pkg, name=name, width=width, inner=inner):
            ex = new_executor(ctx, max_paths=200)

            def thunk(ex):
                from .common import K as Kc

                X = data_sym(ex)
                obj = make_obj(ex, ctx, pkg, name, inner)
                call_method(ex, obj, "fit", X)
                cuts = Num(sym("cuts"), (Kc, NF.const(width)), "int", "ndarray", meta={"foreign": True})
                ex.atom_shapes[Atom("sym", "cuts").key] = (Kc, NF.const(width))
                return call_method(ex, obj, "evaluate", cuts)

            paths = run(ctx, ex, thunk)
            _mutation_report(ctx, paths, f"{name}.fit+evaluate", ctx.P.public_class(pkg, name).module.relpath)

        ctx.guard("C10.d NO-ARG-MUTATION", name, go)


def check_cost_fixed_mutation(ctx):
    """the fixed-parameter modes of the costs (other code paths in _fit and in the kernels)"""
    from .c01 import PARAM_TABLE, scenario

    for cls in ctx.P.registry("skchange.costs", "COSTS"):
        tab = PARAM_TABLE.get(cls.name)
        if tab is None:
            continue
        for mode in ("fixed-array", "fixed-number"):

            def go(cls=cls, tab=tab, mode=mode):
                ex, paths, state = scenario(ctx, cls, tab, mode)
                _mutation_report(ctx, paths, f"{cls.name}[{mode}].fit+evaluate", cls.module.relpath)

            ctx.guard("C10.d NO-ARG-MUTATION", f"{cls.name}|{mode}", go)


def check_detector_mutation(ctx):
    from .c14 import _check_data_summary, _generic_driver_summary
    from .c07 import _fmt_summary

    for pkg, name, meth in DRIVER_ENTRIES + [("skchange.anomaly_detectors", "StatThresholdAnomaliser", "_predict")]:
        cls = ctx.P.public_class(pkg, name)

        def go(cls=cls, name=name):
            summ = dict(ABSTRACT_SUMMARIES)
            for mm in ("_predict", "_transform_scores", "_tune_threshold"):
                m = ctx.P.lookup_method(cls, mm)
                if m is not None:
                    for call, drv in find_driver_call(ctx, m):
                        summ[drv.qualname] = _generic_driver_summary
            ex = new_executor(ctx, summ, max_paths=300)

            def thunk(ex):
                ov = {}
                if name == "StatThresholdAnomaliser":
                    return NONE
                kw = symbolic_hyperparams(ex, ctx.P, cls, ov)
                obj = ex.new_object(cls, [], kw)
                X = frame_sym(ex)
                call_method(ex, obj, "fit", X)
                X2 = frame_sym(ex, "X")
                if ctx.P.lookup_method(cls, "_transform_scores") is not None:
                    call_method(ex, obj, "transform_scores", X2)
                return call_method(ex, obj, "predict", X2)

            if name == "StatThresholdAnomaliser":
                return
            paths = run(ctx, ex, thunk)
            _mutation_report(ctx, paths, f"{name}.fit+predict", cls.module.relpath)

        ctx.guard("C10.d NO-ARG-MUTATION", name, go)


# ------------------------------------------------------------ UPDATE-IS-REFIT


def check_update(ctx, det_base):
    rule = "C10.e UPDATE-IS-REFIT"
    upd = det_base.methods.get("update")
    dflt = det_base.methods.get("_update")
    if upd is None or dflt is None:
        ctx.undecided(rule, "update", det_base.module.relpath, "update/_update not found")
        return
    # the attributes that hold the training data: where `fit` stores its X and y arguments (private names: found, not assumed)
    fitm = det_base.methods.get("fit")
    xattr, yattr = "_X", "_y"
    if fitm is not None and len(fitm.params) >= 3:
        for a, n, rhs in attr_stores(fitm):
            if isinstance(rhs, ast.Name) and rhs.id == fitm.params[1]:
                xattr = a
            if isinstance(rhs, ast.Name) and rhs.id == fitm.params[2]:
                yattr = a
    me_u = self_name(upd)
    xprm = upd.params[1] if len(upd.params) > 1 else "X"
    # update: self.<X attr> = X.combine_first(self.<X attr>) ; then self._update(X=X, y=y)
    st = {a: (n, rhs) for a, n, rhs in attr_stores(upd)}
    okx = xattr in st and isinstance(st[xattr][1], ast.Call) and isinstance(st[xattr][1].func, ast.Attribute) and st[xattr][1].func.attr == "combine_first" and isinstance(st[xattr][1].func.value, ast.Name) and st[xattr][1].func.value.id == xprm and len(st[xattr][1].args) == 1 and ast.unparse(st[xattr][1].args[0]) == f"{me_u}.{xattr}"
    ctx.check(okx, rule, "update|_X", upd.loc(st[xattr][0]) if xattr in st else upd.loc(), "update stores the new data combined with the old: self._X = X.combine_first(self._X) (new rows win, old rows are kept)", found=norm_src(st[xattr][0]) if xattr in st else f"no store to {xattr}", expected=f"self.{xattr} = X.combine_first(self.{xattr})")
    if xattr != "_X":
        st["_X"] = st.get(xattr, st.get("_X"))
    calls = [nm for nm, _ in self_calls(upd)]
    ctx.check("_update" in calls, rule, "update|dispatch", upd.loc(), "update dispatches to _update after storing the combined data", found=calls)
    if "_X" in st:
        order_ok = any(nm == "_update" and n.lineno > st["_X"][0].lineno for nm, n in self_calls(upd))
        ctx.check(order_ok, rule, "update|order", upd.loc(), "the combined data are stored before _update runs", nontrivial=False)
    # default _update refits on the stored (combined) data
    fitcalls = [n for nm, n in self_calls(dflt) if nm == "_fit"]
    me_d = self_name(dflt)
    okf = len(fitcalls) == 1 and [ast.unparse(a) for a in fitcalls[0].args] + [ast.unparse(k.value) for k in fitcalls[0].keywords] == [f"{me_d}.{xattr}", f"{me_d}.{yattr}"]
    ctx.check(okf, rule, "_update|refit", dflt.loc(fitcalls[0]) if fitcalls else dflt.loc(), "the default _update refits on all stored data: self._fit(self._X, self._y)", found=[norm_src(n) for n in fitcalls] or "no _fit call")
    for c in ctx.P.subclasses(det_base, strict=True):
        if "_update" in c.methods:
            f = c.methods["_update"]
            refits = any(nm in ("_fit", "fit") for nm, _ in self_calls(f))
            ctx.check(refits, rule, f"{c.name}|_update-override", f.loc(), "a detector that overrides _update still refits on the combined data", found=[nm for nm, _ in self_calls(f)])
        if "update" in c.methods:
            ctx.violation(rule, f"{c.name}|update-override", c.methods["update"].loc(), "a detector overrides update(): combine-then-refit is no longer guaranteed")


# ------------------------------------------------------------- NO-PROCESS-STATE

_MUTATORS = {"append", "extend", "pop", "insert", "remove", "clear", "update", "setdefault", "popitem", "add", "discard", "sort", "reverse", "popleft", "appendleft", "fill", "put", "resize", "__setitem__"}
_MUTABLE_CTORS = {"list", "dict", "set", "defaultdict", "deque", "OrderedDict", "Counter", "bytearray"}


def _is_mutable_ctor(v):
    if isinstance(v, (ast.List, ast.Dict, ast.Set, ast.ListComp, ast.DictComp, ast.SetComp)):
        return True
    if isinstance(v, ast.Call):
        f = v.func
        name = f.id if isinstance(f, ast.Name) else (f.attr if isinstance(f, ast.Attribute) else None)
        if name in _MUTABLE_CTORS:
            return True
        # numpy array constructors
        if isinstance(f, ast.Attribute) and isinstance(f.value, ast.Name) and f.value.id in ("np", "numpy") and f.attr in ("zeros", "ones", "empty", "full", "array", "arange", "zeros_like", "ones_like", "empty_like"):
            return True
    return False


def _mutations_of(body_owner, name):
    """nodes in the function that change the object bound to `name` in place (method call, subscript / attribute store,
    augmented assignment, del of an item) - a plain rebinding `name = ...` is not one"""
    out = []
    for n in ast.walk(body_owner):
        if isinstance(n, ast.Call) and isinstance(n.func, ast.Attribute) and isinstance(n.func.value, ast.Name) and n.func.value.id == name and n.func.attr in _MUTATORS:
            out.append(n)
        elif isinstance(n, (ast.Assign, ast.AnnAssign, ast.AugAssign)):
            tg = n.targets if isinstance(n, ast.Assign) else [n.target]
            for t in tg:
                for x in (t.elts if isinstance(t, (ast.Tuple, ast.List)) else [t]):
                    if isinstance(x, (ast.Subscript, ast.Attribute)) and isinstance(x.value, ast.Name) and x.value.id == name:
                        out.append(n)
                    elif isinstance(n, ast.AugAssign) and isinstance(x, ast.Name) and x.id == name:
                        out.append(n)
        elif isinstance(n, ast.Delete):
            for x in n.targets:
                if isinstance(x, ast.Subscript) and isinstance(x.value, ast.Name) and x.value.id == name:
                    out.append(n)
    return out


def no_process_state(ctx):
    """Results are a function of the object's hyper-parameters and the data of the latest fit: nothing survives in the
    PROCESS between calls.  Three carriers are ruled out over every function of the package: a default argument that is a
    mutable object and is changed in place (it is created once, at definition time, and shared by all calls), a
    module-level mutable object changed from inside a function (also through `global`), and a memoising decorator
    (functools.lru_cache / cache) on a function - results keyed on argument identity or equality outlive the data."""
    rule = "C10.h NO-PROCESS-STATE"
    n_funcs = n_defaults = n_globals = 0
    bad = 0
    by_module = {}
    for f in ctx.P.functions.values():
        by_module.setdefault(f.module.qualname if hasattr(f.module, "qualname") else f.module.relpath, (f.module, []))[1].append(f)
    for mkey, (mod, funcs) in sorted(by_module.items(), key=lambda kv: kv[0]):
        if "/tests/" in mod.relpath or mod.relpath.startswith("spec/"):
            continue
        tree = mod.tree if hasattr(mod, "tree") else None
        glob = {}
        if tree is not None:
            for st in tree.body:
                if isinstance(st, (ast.Assign, ast.AnnAssign)) and st.value is not None and _is_mutable_ctor(st.value):
                    for t in (st.targets if isinstance(st, ast.Assign) else [st.target]):
                        if isinstance(t, ast.Name) and not (t.id.startswith("__") and t.id.endswith("__")):
                            glob[t.id] = st
        n_globals += len(glob)
        for f in funcs:
            n_funcs += 1
            fa = f.node.args
            pos = fa.posonlyargs + fa.args
            pairs = list(zip(pos[len(pos) - len(fa.defaults):], fa.defaults)) + [(k, d) for k, d in zip(fa.kwonlyargs, fa.kw_defaults) if d is not None]
            for prm, d in pairs:
                n_defaults += 1
                if _is_mutable_ctor(d):
                    muts = _mutations_of(f.node, prm.arg)
                    if muts:
                        bad += 1
                        ctx.violation(rule, f"{f.qualname}|default:{prm.arg}", f.loc(muts[0]), f"the default of parameter `{prm.arg}` is a mutable object created once at definition time, and the function changes it in place: what one call leaves in it is seen by the next call of ANY object in the process (earlier data leak into later results)", found=f"{prm.arg}={norm_src(d)[:40]}; {norm_src(muts[0])[:60]}", expected=f"{prm.arg}=None and a fresh object per call, or state owned by the caller")
            local_names = {a.arg for a in pos + fa.kwonlyargs}
            declared_global = {nm for n in ast.walk(f.node) if isinstance(n, ast.Global) for nm in n.names}
            rebound = {t.id for n in ast.walk(f.node) if isinstance(n, (ast.Assign, ast.AnnAssign, ast.AugAssign, ast.For)) for t in ast.walk(n.targets[0] if isinstance(n, ast.Assign) else n.target) if isinstance(t, ast.Name) and isinstance(t.ctx, ast.Store)}
            for g, gst in glob.items():
                if g in local_names or (g in rebound and g not in declared_global):
                    continue  # shadowed by a local of the same name
                muts = _mutations_of(f.node, g)
                if g in declared_global:
                    muts = muts + [n for n in ast.walk(f.node) if isinstance(n, (ast.Assign, ast.AugAssign)) and any(isinstance(t, ast.Name) and t.id == g for t in (n.targets if isinstance(n, ast.Assign) else [n.target]))]
                if muts:
                    bad += 1
                    ctx.violation(rule, f"{f.qualname}|global:{g}", f.loc(muts[0]), f"the module-level object `{g}` is changed from inside a function: state that outlives every fit and is shared by all objects of the process", found=norm_src(muts[0])[:80], expected="state held in fitted attributes of the object (reset by fit)")
            for n in ast.walk(f.node):
                if isinstance(n, ast.Global):
                    for nm in n.names:
                        if nm not in glob and any(isinstance(x, (ast.Assign, ast.AugAssign)) and any(isinstance(t, ast.Name) and t.id == nm for t in (x.targets if isinstance(x, ast.Assign) else [x.target])) for x in ast.walk(f.node)):
                            bad += 1
                            ctx.violation(rule, f"{f.qualname}|global:{nm}", f.loc(n), f"`global {nm}` is assigned inside a function: state that outlives every fit and is shared by all objects of the process", found=norm_src(n))
            for d in getattr(f.node, "decorator_list", []):
                txt = norm_src(d)
                if any(w in txt for w in ("lru_cache", "functools.cache", "cached_property")) or txt in ("cache", "cache()"):
                    bad += 1
                    ctx.violation(rule, f"{f.qualname}|memoised", f.loc(d), "a memoising decorator keeps results across calls: arrays are keyed by identity or not hashable at all, objects by identity - results computed for earlier data (or an earlier object at the same address) are returned later", found=txt[:60])
    # a mutable object created in a CLASS body is one object shared by every instance (and subclass): changing it in place
    # through self / cls is state that a fit of ONE object leaves for all others (a memo of costs declared as `_memo = {}`)
    n_cattrs = 0
    for cls_ in ctx.P.classes.values():
        if "/tests/" in cls_.module.relpath or cls_.module.relpath.startswith("spec/"):
            continue
        cattrs = {}
        for st in cls_.node.body:
            if isinstance(st, (ast.Assign, ast.AnnAssign)) and st.value is not None and _is_mutable_ctor(st.value):
                for t in (st.targets if isinstance(st, ast.Assign) else [st.target]):
                    if isinstance(t, ast.Name):
                        cattrs[t.id] = st
        if not cattrs:
            continue
        n_cattrs += len(cattrs)
        users = [cls_] + [c for c in ctx.P.subclasses(cls_, strict=True)]
        for name_, decl in cattrs.items():
            # an __init__ of the class that binds a fresh object to the same name on the instance shadows the shared one
            init_ = cls_.methods.get("__init__")
            rebinds = init_ is not None and any(isinstance(n, ast.Assign) and any(isinstance(t, ast.Attribute) and isinstance(t.value, ast.Name) and t.value.id == self_name(init_) and t.attr == name_ for t in n.targets) for n in ast.walk(init_.node))
            if rebinds:
                continue
            for u in users:
                for m in u.methods.values():
                    owners = {self_name(m), "cls", cls_.name, u.name}

                    def is_shared(x):
                        if isinstance(x, ast.Attribute) and x.attr == name_:
                            v = x.value
                            if isinstance(v, ast.Name) and v.id in owners:
                                return True
                            if isinstance(v, ast.Call) and isinstance(v.func, ast.Name) and v.func.id == "type":
                                return True
                        return False

                    hit = None
                    for n in ast.walk(m.node):
                        if isinstance(n, ast.Call) and isinstance(n.func, ast.Attribute) and n.func.attr in _MUTATORS and is_shared(n.func.value):
                            hit = n
                        elif isinstance(n, (ast.Assign, ast.AugAssign, ast.AnnAssign)):
                            for t in (n.targets if isinstance(n, ast.Assign) else [n.target]):
                                if isinstance(t, ast.Subscript) and is_shared(t.value):
                                    hit = n
                                elif isinstance(n, ast.AugAssign) and is_shared(t):
                                    hit = n
                        elif isinstance(n, ast.Delete) and any(isinstance(t, ast.Subscript) and is_shared(t.value) for t in n.targets):
                            hit = n
                        if hit is not None:
                            break
                    if hit is not None:
                        bad += 1
                        ctx.violation(rule, f"{cls_.qualname}|class-attribute:{name_}", m.loc(hit), f"`{name_}` is a mutable object created in the class body - ONE object shared by all instances - and {u.name}.{m.name} changes it in place: what one fitted object stores there is read by every other (results of another object's data)", found=f"{name_} = {norm_src(decl.value)[:30]} in class {cls_.name}; {norm_src(hit)[:70]}", expected=f"self.{name_} = ... in __init__ / _fit (one object per instance)")
                        break
                else:
                    continue
                break
    ctx.stats["constructs"] = ctx.stats.get("constructs", 0) + n_funcs
    if not bad:
        ctx.holds(rule, "package", "skchange/", f"{n_funcs} functions, {n_defaults} default values, {n_cattrs} mutable class attributes and {n_globals} module-level mutable objects inspected: no mutable default changed in place, no module-level object changed from a function, no memoised function")
    ctx.expect_min(rule, n_funcs, 150)
