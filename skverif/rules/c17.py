"""C17 - StatThresholdAnomaliser flags exactly the out-of-range segments."""

from __future__ import annotations

from ..nf import NF, Atom, Undecided, app, atoms_of, lift, nf_equal, single_atom, sym
from ..values import NONE, Cond, DictV, ListV, NoneV, Num, ObjV, OpaqueV, StrV, TupleV, valkey
from .common import mark, mark_index, ABSTRACT_SUMMARIES, N, Pdim, call_method, flatten, frame_sym, new_executor, norm_src, returns, run, symbolic_hyperparams

EXPLANATION = (
    "Static decision for every wrapped change detector (an uninterpreted object) and statistic: (a) CLONE-DISCIPLINE - the detector "
    "passed by the user receives no call other than clone(); _fit stores the clone in change_detector_ and fits THAT on the "
    "training data; _predict uses only change_detector_; (b) FLAG-PREDICATE - a segment is flagged iff stat(values of the segment) "
    "< stat_lower or > stat_upper (strict on both sides), the statistic being applied to the first data column of the group; "
    "(c) ONE-INTERVAL-PER-SEGMENT - one (first position, last position + 1) tuple is appended per group of the wrapped detector's "
    "dense segment labels on the current input, positions coming from a frame the library built itself (fresh range index), and "
    "the list reaches CollectiveAnomalyDetector's formatter with no merging step in between - adjacent flagged segments stay "
    "separate. NOT decided: that groupby groups are contiguous (segment labels are non-decreasing by C05.e), pandas groupby/"
    "concat semantics."
)
# obligations added during the build phase (seeding rounds, twins, mutation analysis)
ADDED_IN_BUILD = " Also: the segments are the groups of ChangeDetector.sparse_to_dense's labels, whose C05.e DENSE-FILL obligations are re-run here (a dropped last changepoint merges two segments). every-segment-judged: no returning path of _predict skips the loop over the segments. The reported interval has the exact form (first position, last position + 1) - a min / max / clip on a bound is a violation. Vectorised spellings are UNDECIDED except for two decided defects: intervals listed selection by selection (position-order) and statistics stored in an array of the data's dtype (statistic-dtype). rejects-equal-bounds: a construction-time raise whose path facts are consistent with stat_lower == stat_upper is a violation."
ADDED_IN_ROUND_9 = " Round 9: np.empty_like / zeros_like take the dtype of their prototype - unknown when the prototype is (a view of) the caller's data - so statistic-dtype also decides buffers allocated that way; an assertion is decided by entailment from the facts of the path and from what check_data establishes before it opens a raising path."
EXPLANATION = EXPLANATION + ADDED_IN_BUILD + ADDED_IN_ROUND_9

ASSUMPTIONS = [
    "Python's ast module and evaluation-order/argument-binding semantics as implemented in skverif/symex.py",
    "library model table skverif/models.py (DataFrame.groupby iterates (key, sub-frame) pairs; a frame built from a dict of arrays has a fresh RangeIndex)",
    "sktime BaseEstimator model: clone() returns a fresh unfitted copy",
]
CD_BASE = "skchange.change_detectors.base.ChangeDetector"
CHECK_DATA = "skchange.utils.validation.data.check_data"


def _abs_det_fit(ex, obj, args, kwargs, node):
    obj.meta["fitted_on"] = valkey(args[0]) if args else "?"
    ex.emit("detector_fit", node, obj=obj, data=args[0] if args else None)
    return obj


def _abs_det_transform(ex, obj, args, kwargs, node):
    ex.emit("detector_transform", node, obj=obj, data=args[0] if args else None)
    return OpaqueV(f"dense({obj.key})", {"kind": "frame", "dense_of": obj})


def _abs_det_predict(ex, obj, args, kwargs, node):
    ex.emit("detector_predict", node, obj=obj, data=args[0] if args else None)
    return OpaqueV(f"sparse({obj.key})", {"kind": "frame"})


def _fmt_summary(ex, func, args, kwargs, so, node):
    ex.emit("format_call", node, owner=func.cls.name if func.cls else getattr(getattr(func, "owner_cls", None), "name", None), args=args, kwargs=kwargs)
    return OpaqueV("formatted", {"kind": "frame"})


def check(ctx):
    cls = ctx.P.public_class("skchange.anomaly_detectors", "StatThresholdAnomaliser")
    ctx.guard("C17 SCENARIO", cls.name, lambda: check_all(ctx, cls), cls.module.relpath)
    ctx.guard("C17.c ONE-INTERVAL-PER-SEGMENT", "formatter", lambda: shared_formatter(ctx))
    ctx.guard("C17.c ONE-INTERVAL-PER-SEGMENT", "segment-labels", lambda: shared_dense_labels(ctx))
    ctx.expect_min("C17", len([o for o in ctx.obs if o.status == "HOLDS"]), 8)


def shared_formatter(ctx):
    """_predict hands its list of flagged segments to CollectiveAnomalyDetector._format_sparse_output (summarised in the
    scenario above): the formatter must report them one interval each - no filtering, merging or reordering.  The C04.a
    FORMATTER obligations of that formatter, re-run under the C17 id."""
    from . import c04

    base = ctx.P.cls("skchange.anomaly_detectors.base.CollectiveAnomalyDetector")
    before = len(ctx.obs)
    c04.check_formatter(ctx, base)
    for o in ctx.obs[before:]:
        if "FORMATTER" in o.rule:
            o.rule = f"C17.c ONE-INTERVAL-PER-SEGMENT ({o.rule})"


def shared_dense_labels(ctx):
    """The segments whose statistic is thresholded are the groups of the wrapped change detector's DENSE labels
    (`transform`, summarised in the scenario above): `ChangeDetector.sparse_to_dense` must give every segment between two
    changepoints its own label - a dropped last changepoint merges two segments into one group.  The C05.e DENSE-FILL
    obligations of that conversion, re-run under the C17 id."""
    from . import c05

    base = ctx.P.cls("skchange.change_detectors.base.ChangeDetector")
    before = len(ctx.obs)
    c05.check_s2d(ctx, base)
    kept = []
    for o in ctx.obs[before:]:
        if "DENSE-FILL" in o.rule or o.status == "UNDECIDED":
            o.rule = f"C17.c ONE-INTERVAL-PER-SEGMENT ({o.rule})"
            kept.append(o)
    ctx.obs[before:] = kept


def check_all(ctx, cls):
    from .c11 import _check_data_norm

    summ = dict(ABSTRACT_SUMMARIES)
    summ["abstract:fit"] = _abs_det_fit
    summ["abstract:transform"] = _abs_det_transform
    summ["abstract:predict"] = _abs_det_predict
    if CHECK_DATA in ctx.P.functions:
        summ[CHECK_DATA] = _check_data_norm
    for c in ctx.P.classes.values():
        if "_format_sparse_output" in c.methods:
            summ[c.methods["_format_sparse_output"].qualname] = _fmt_summary
    ex = new_executor(ctx, summ, max_paths=100)
    st = {}

    def thunk(ex):
        det = ObjV(ctx.P.cls(CD_BASE), "user_detector", {}, abstract=True, role="user_detector")
        kw = symbolic_hyperparams(ex, ctx.P, cls, {"change_detector": det})
        obj = ex.new_object(cls, [], kw)
        st["n_init"] = len(ex.events)
        mark(ex, "init-done")
        call_method(ex, obj, "fit", frame_sym(ex, "Xtrain"))
        st["n_fit"] = len(ex.events)
        mark(ex, "fit-done")
        call_method(ex, obj, "predict", frame_sym(ex, "X"))
        return obj

    fitm = ctx.P.lookup_method(cls, "_fit")
    predm = ctx.P.lookup_method(cls, "_predict")
    try:
        paths = run(ctx, ex, thunk)
    except Undecided as u:
        # report what was observed before the analysis left its fragment
        seen = False
        for e in getattr(u, "partial_events", []):
            if e.kind in ("abstract_call", "detector_fit", "detector_transform", "detector_predict", "set_params") and getattr(e.data.get("obj"), "key", None) == "user_detector" and not (e.kind == "abstract_call" and e.data.get("method") == "clone"):
                seen = True
                ctx.violation("C17.a CLONE-DISCIPLINE", f"user-detector|{e.data.get('method', e.kind)}", e.loc(), "the detector passed by the user receives a call other than clone(): the fitted copy is not an independent sktime clone (nested scorer objects are shared and get fitted) or the user's object itself is used", found=norm_src(e.node)[:100], expected="self.change_detector.clone()")
        if not seen:
            raise
        return
    good = returns(paths)
    if not good:
        ctx.undecided("C17 SCENARIO", cls.name, cls.module.relpath, "fit+predict never returns", found=[(p.outcome, p.exc.exc_name if p.exc else "") for p in paths][:4])
        return
    for p in paths:
        # a raise during construction (in __init__ or in a validation helper it calls) happens before the scenario's
        # init-done marker: that is the constructor rejecting a configuration, not fit / predict failing
        constructed = any(e.kind == "marker" and e.data.get("name") == "init-done" for e in p.events)
        if p.outcome == "raise" and p.exc.func is not None and p.exc.func.name != "__init__" and constructed:
            ctx.violation("C17 SCENARIO", "raises", p.exc.func.loc(p.exc.node), "fit/predict raises for a valid configuration", found=p.exc.exc_name)
    # the constructor rejects lower > upper only: a raise during construction whose path facts are all consistent with
    # stat_lower == stat_upper rejects a configuration the property quantifies over ("all bounds lower <= upper")
    from ..nf import subst as _subst

    lo_a, hi_a = single_atom(sym("stat_lower")), single_atom(sym("stat_upper"))
    for p in paths:
        constructed = any(e.kind == "marker" and e.data.get("name") == "init-done" for e in p.events)
        if p.outcome != "raise" or constructed:
            continue
        decided, consistent = 0, True
        for c, v in p.facts:
            if c.t[0] != "cmp":
                continue
            ats = atoms_of(c.t[2])
            if not (lo_a.key in ats or hi_a.key in ats):
                continue
            d = _subst(c.t[2], {hi_a.key: sym("stat_lower")}).as_const()
            if d is None:
                continue
            decided += 1
            holds = {"<0": d < 0, "<=0": d <= 0, "==0": d == 0, "!=0": d != 0}[c.t[1]]
            if holds != v:
                consistent = False
        if decided and consistent:
            ctx.violation("C17 SCENARIO", "rejects-equal-bounds", p.exc.func.loc(p.exc.node) if p.exc.func is not None else cls.module.relpath, "the constructor raises on a path that stat_lower == stat_upper takes: equal bounds are a valid configuration (flag every segment whose statistic differs from the one value)", found=[f"{c!r}={v}" for c, v in p.facts if c.t[0] == "cmp"][:3], expected="raise only if stat_lower > stat_upper")
    # ---------------------------------------------------------- CLONE-DISCIPLINE
    rule = "C17.a CLONE-DISCIPLINE"
    p = good[0]
    obj = p.value
    on_user = [e for e in p.events if e.kind in ("abstract_call", "detector_fit", "detector_transform", "detector_predict", "attr_store", "set_params") and getattr(e.data.get("obj"), "key", None) == "user_detector"]
    bad = [e for e in on_user if not (e.kind == "abstract_call" and e.data.get("method") == "clone")]
    for e in bad:
        ctx.violation(rule, f"user-detector|{e.kind}", e.loc(), "the detector passed by the user is fitted / altered / used for detection: only a clone may be", found=norm_src(e.node)[:100], expected="self.change_detector.clone()")
    clones = [e for e in p.events if e.kind == "clone" and getattr(e.data.get("obj"), "key", None) == "user_detector"]
    ctx.check(not bad and len(clones) >= 1, rule, "user-detector-untouched", fitm.loc(), "the user's detector receives no call other than clone()", found=[e.kind for e in on_user])
    cd_ = obj.fields.get("change_detector_")
    ok_clone = isinstance(cd_, ObjV) and cd_.meta.get("clone_of") is not None and cd_.meta["clone_of"].key == "user_detector" and cd_.key != "user_detector"
    ctx.check(ok_clone, rule, "change_detector_", fitm.loc(), "_fit stores a clone of the wrapped detector in change_detector_", found=repr(cd_))
    fits = [e for e in p.events if e.kind == "detector_fit"]
    ok_fit = len(fits) == 1 and isinstance(cd_, ObjV) and fits[0].data["obj"].key == cd_.key and valkey(fits[0].data["data"]) == "[Xtrain]/[1]" and p.events.index(fits[0]) < mark_index(p, "fit-done")
    ctx.check(ok_fit, rule, "clone-fitted", fits[0].loc() if fits else fitm.loc(), "the clone is fitted on the training data during fit", found=[(e.data["obj"].key, valkey(e.data["data"])) for e in fits])
    trs = [e for e in p.events if e.kind in ("detector_transform", "detector_predict")]
    ok_tr = len(trs) == 1 and trs[0].kind == "detector_transform" and isinstance(cd_, ObjV) and trs[0].data["obj"].key == cd_.key and isinstance(trs[0].data["data"], Num) and nf_equal(trs[0].data["data"].nf, sym("X"))
    ctx.check(ok_tr, rule, "clone-used", trs[0].loc() if trs else predm.loc(), "_predict segments the CURRENT input with the fitted clone (its dense transform)", found=[(e.kind, e.data["obj"].key, valkey(e.data["data"])) for e in trs])
    # ------------------------------------------------------------ the group loop
    # "in predict": any event after the fit phase of the scenario, whichever helper of _predict it sits in
    def pred_events(q_, kind):
        k0 = mark_index(q_, "fit-done")
        return [e for i_, e in enumerate(q_.events) if i_ > k0 and e.kind == kind and e.func is not None]

    flagged = [q for q in good if pred_events(q, "list_append")]
    unflag = [q for q in good if q not in flagged]
    rule_b = "C17.b FLAG-PREDICATE"
    lo, hi = sym("stat_lower"), sym("stat_upper")
    if not flagged or not unflag:
        filtered = [e for q_ in good for e in pred_events(q_, "comprehension") if e.data.get("conds")]
        if filtered:
            # the decision is the filter of a comprehension over per-segment records: a spelling this rule does not read
            ctx.undecided(rule_b, "branches", filtered[0].loc(), "the flagging decision is the filter of a comprehension (records produced elsewhere): not decided in this spelling")
            return
        # no branch per segment at all: a vectorised selection.  One thing is decided about it: intervals listed selection by
        # selection (all segments below the lower bound, then all above the upper one) are not in position order
        for q_ in good:
            for e in pred_events(q_, "comprehension"):
                it = e.data.get("iter")
                k_ = valkey(it) if it is not None else ""
                if any(w in k_ for w in ("concat", "hstack", "append(")) and "sort" not in k_ and "unique" not in k_:
                    ctx.violation("C17.c ONE-INTERVAL-PER-SEGMENT", "position-order", e.loc(), "the flagged segments are listed selection by selection (one group of indices after the other), not in the order of their positions: a segment above the upper bound that precedes one below the lower bound comes out after it", found=k_[:160], expected="one pass over the segments in position order (or a sort of the selected indices)")
                    return
        # ... and another: statistics collected in an array whose dtype is the DATA's (np.empty(k, dtype=values.dtype)) are
        # truncated for integer-typed data before they are compared with the bounds
        for q_ in good:
            for e in pred_events(q_, "alloc"):
                a_ = e.data["arr"]
                if a_.dtype != "float" and a_.stores and any("stat" in valkey(sv.data["value"]) or "mean(" in valkey(sv.data["value"]) for sv in a_.stores):
                    ctx.violation(rule_b, "statistic-dtype", e.loc(), "the per-segment statistics are stored in an array that is not float by construction (its dtype is taken from the data): for integer-typed data a mean of 3.6 is truncated to 3 before it is compared with the bounds", found=f"dtype {a_.dtype or 'taken from an argument'}: {norm_src(a_.node)[:80]}", expected="a float array (np.empty(k) / dtype=float)")
                    return
        if len(good) == 1 and not pred_events(good[0], "list_append"):
            ctx.undecided(rule_b, "branches", predm.loc(), "the flagging decision is not a branch per segment (a vectorised selection): not decided in this spelling")
            return
        ctx.violation(rule_b, "branches", predm.loc(), "the flagging decision does not have both outcomes", found=f"{len(flagged)} flagging / {len(unflag)} non-flagging paths")
        return
    # every returning path judges the segments: none leaves _predict before the loop over the groups (with no changepoint the
    # whole series is the one segment, and it is flagged like any other when its statistic is out of range)
    early = [q_ for q_ in good if not any("groupby" in valkey(e.data["loop"].info.get("over")) for e in pred_events(q_, "loop_enter") if e.data["loop"].info.get("over") is not None)]
    if early:
        k0 = mark_index(early[0], "fit-done")
        why = [repr(c)[:80] for e in early[0].events[k0:] if e.kind == "decide" for c in [e.data["cond"]]][-2:]
        ctx.violation("C17.c ONE-INTERVAL-PER-SEGMENT", "every-segment-judged", predm.loc(), "a returning path of _predict never reaches the loop over the segments: on that path nothing is flagged whatever the statistic of the (single) segment", found=f"{len(early)} of {len(good)} returning paths skip the group loop; decided on it: {why}", expected="every path applies the predicate to every group")
    else:
        ctx.holds("C17.c ONE-INTERVAL-PER-SEGMENT", "every-segment-judged", predm.loc(), f"all {len(good)} returning paths of _predict go through the loop over the segments")
    q = flagged[0]
    app_e = pred_events(q, "list_append")[0]
    guard = app_e.facts[-1] if app_e.facts else None
    stat_nf = None
    ok_pred = False
    if guard is not None:
        c, v = guard
        if not v:
            c = c.neg()
        parts = flatten(c, "or")
        if len(parts) == 2 and all(x.t[0] == "cmp" and x.t[1] == "<0" for x in parts):
            # one part is stat - lower < 0, the other upper - stat < 0
            for a, b in ((parts[0], parts[1]), (parts[1], parts[0])):
                s1 = a.t[2] + lo  # stat
                s2 = hi - b.t[2]
                if nf_equal(s1, s2) and not any(x.kind == "sym" and x.args[0] in ("stat_lower", "stat_upper") for x in atoms_of(s1).values()):
                    stat_nf = s1
                    ok_pred = True
    ctx.check(ok_pred, rule_b, "predicate", app_e.loc(), "a segment is flagged iff stat < stat_lower or stat > stat_upper (strict on both sides, each bound in its own role)", found=repr(guard[0]) if guard else "no guard", expected="stat - stat_lower < 0 or stat_upper - stat < 0")
    if stat_nf is not None:
        k = stat_nf.key
        uses_values = "values" in k and "labels" not in k.split("groupby")[-1].split("values")[0][-40:]
        a = single_atom(stat_nf)
        is_stat = a is not None and a.kind == "app" and a.args[0] in ("mean",)
        # the column the statistic reads must be the one under which the DATA were stored
        data_col = None
        for e in pred_events(q, "pandas_ctor"):
            if isinstance(e.data["data"], DictV):
                for kk, vv in e.data["data"].items:
                    if isinstance(kk, StrV) and isinstance(vv, Num) and vv.nf is not None and nf_equal(vv.nf, app("col", sym("X"), NF.const(0))):
                        data_col = kk.s
        reads_data = data_col is not None and (f"['{data_col}']" in k or f'["{data_col}"]' in k)
        by_pos = "iloc" in k and "[0]/[1]" in k
        ctx.check(is_stat and "groupby" in k and "elem(" in k and (reads_data or by_pos), rule_b, "statistic", app_e.loc(), "the statistic is the configured stat applied to the DATA column of the current group", found=k[:200], expected=f"stat(group[{data_col!r}])")
    # ---------------------------------------------- ONE-INTERVAL-PER-SEGMENT
    rule_c = "C17.c ONE-INTERVAL-PER-SEGMENT"
    tv = app_e.data["value"]
    okt = isinstance(tv, TupleV) and len(tv.items) == 2
    if okt:
        k0, k1 = valkey(tv.items[0]), valkey(tv.items[1])
        okt = ".index[" in k0 and "[0]/[1]" in k0 and ".index[" in k1 and "[-1]/[1]" in k1 and "Add" in k1 and "Add" not in k0
        # the exclusive end is the last position plus exactly one
        okt = okt and k1.count("Add(") == 1 and (",[1]/[1])" in k1 or "([1]/[1]," in k1)
    exact = False
    clamped = None
    if okt:
        # exact form: the end is the group's last position plus one, the start its first position, and nothing else is
        # applied to either (a min / max / clip on the end cuts the last sample off a flagged final segment)
        s0, s1 = k0.replace("opq:", ""), k1.replace("opq:", "")
        core0 = s0[len("int("):-1] if s0.startswith("int(") and s0.endswith(")") else s0
        if core0.endswith(".index[[0]/[1]]"):
            b_ = core0[: -len(".index[[0]/[1]]")] + ".index[[-1]/[1]]"
            one = "[1]/[1]"
            forms = {f"Add({b_},{one})", f"Add({one},{b_})", f"Add(int({b_}),{one})", f"Add({one},int({b_}))"}
            forms |= {f"int({x})" for x in list(forms)}
            exact = s1 in forms
        clamped = next((w for w in ("min(", "max(", "clip(", "minimum(", "maximum(", "where(") if w in s1 or w in s0), None)
    if okt and not exact and clamped is not None:
        ctx.violation(rule_c, "interval", app_e.loc(), f"the reported interval is not (first position, last position + 1) of the flagged group: a bound goes through {clamped}...) - a flagged segment that ends at the last row loses its last sample (or becomes empty)", found=repr(tv)[:300], expected="(int(segment.index[0]), int(segment.index[-1] + 1))")
    elif okt and not exact:
        ctx.undecided(rule_c, "interval", app_e.loc(), "the reported interval mentions the group's first and last position and a + 1, but not in the recognised form: not decided", found=repr(tv)[:300])
    else:
        ctx.check(okt, rule_c, "interval", app_e.loc(), "a flagged group is reported as (its first position, its last position + 1)", found=repr(tv)[:200], expected="(int(segment.index[0]), int(segment.index[-1] + 1))")
    ctx.check(bool(app_e.loops), rule_c, "per-group", app_e.loc(), "one interval per group of the grouping (inside the group loop)", found=f"{len(app_e.loops)} enclosing loops")
    # the grouped frame: built by the library from the data column and the clone's labels
    ctor = pred_events(q, "pandas_ctor")
    okf = False
    found = "no frame built in _predict"
    for e in ctor:
        d = e.data["data"]
        if isinstance(d, DictV):
            keys = {kk.s: vv for kk, vv in d.items if isinstance(kk, StrV)}
            found = {kk: valkey(vv)[:60] for kk, vv in keys.items()}
            lab = [vv for kk, vv in keys.items() if "dense(" in valkey(vv) and "labels" in valkey(vv)]
            dat = [vv for kk, vv in keys.items() if isinstance(vv, Num) and vv.nf is not None and nf_equal(vv.nf, app("col", sym("X"), NF.const(0)))]
            okf = bool(lab) and bool(dat) and e.data.get("index") is None
    ctx.check(okf, rule_c, "grouped-frame", ctor[-1].loc() if ctor else predm.loc(), "the grouped frame is built by the library from the first data column (by position) and the clone's dense labels, with a fresh range index: group positions are row positions", found=found)
    lp = app_e.loops[-1] if app_e.loops else None
    if lp is not None:
        over = lp.info.get("over")
        ok_g = over is not None and "groupby" in valkey(over) and "labels" in valkey(over)
        ctx.check(ok_g, rule_c, "grouping", predm.loc(lp.node), "groups are the values of the wrapped detector's segment labels", found=valkey(over)[:160] if over is not None else "?")
    fm = [e for e in q.events if e.kind == "format_call"]
    ok_fm = len(fm) == 1 and fm[0].data["owner"] == "CollectiveAnomalyDetector" and fm[0].data["args"] and fm[0].data["args"][0] is app_e.data["lst"]
    ctx.check(ok_fm, rule_c, "no-merging", fm[0].loc() if fm else predm.loc(), "the list of flagged segments reaches CollectiveAnomalyDetector's formatter as it is (no merging of adjacent intervals)", found=repr(fm[0].data["args"][0])[:100] if fm and fm[0].data["args"] else "formatter not reached")
